// Demo for change `a`: reveal() refuses an unassigned attribute type up front, before it
// inspects the hidden value. For a hidden AVP with TWO independent faults (unassigned attribute
// type AND an empty / misaligned / undecryptable value) the reported error is now
// UnknownAvp(type) instead of EmptyHiddenAVP / MisalignedHiddenAVP / InvalidOriginalAVPLength.
// Every input is still rejected exactly when it was rejected before.

use rl2tp::avp::types::{Hidden, RandomVector};
use rl2tp::avp::AVP;
use rl2tp::common::DecodeError;

fn rv() -> RandomVector {
    [0xde, 0xad, 0xbe, 0xef].into()
}

#[test]
fn unassigned_type_and_empty_value_reports_unknown_avp() {
    let h = AVP::Hidden(Hidden {
        attribute_type: 20,
        value: vec![],
    });
    assert_eq!(h.reveal(b"secret", &rv()), Err(DecodeError::UnknownAvp(20)));
}

#[test]
fn unassigned_type_and_misaligned_value_reports_unknown_avp() {
    let h = AVP::Hidden(Hidden {
        attribute_type: 40,
        value: vec![1, 2, 3, 4, 5],
    });
    assert_eq!(h.reveal(b"secret", &rv()), Err(DecodeError::UnknownAvp(40)));
}

#[test]
fn all_types_with_empty_value() {
    // Unassigned types: UnknownAvp(t). Assigned types: unchanged (EmptyHiddenAVP).
    for t in 0..=u16::MAX {
        let h = AVP::Hidden(Hidden {
            attribute_type: t,
            value: vec![],
        });
        let assigned = t <= 39 && t != 20;
        let expected = if assigned {
            DecodeError::EmptyHiddenAVP
        } else {
            DecodeError::UnknownAvp(t)
        };
        assert_eq!(h.reveal(b"", &rv()), Err(expected), "type {t}");
    }
}

#[test]
fn round_trip_still_works() {
    let input = AVP::VendorName("test vendor".to_owned().into());
    let hidden = input.clone().hide(b"s", &rv(), &[1, 2, 3], &[7u8; 16]);
    assert_eq!(hidden.reveal(b"s", &rv()), Ok(input));
}
