// C16 — enumerated protocol fields accept exactly their assigned code points, one-to-one.
use crate::cx::*;
use crate::glue::*;
use crate::prop::*;
use crate::spec::*;
use rl2tp::avp::types::result_code::{CdnCode, CodeValue, ErrorType, StopCcnCode};
use rl2tp::avp::types::{MessageType, ProxyAuthenType};
use rl2tp::avp::AVP;
use serde_json::{json, Value};

pub static DEF: PropDef = PropDef {
    id: "C16",
    title: "Enumerated protocol fields accept exactly their assigned code points",
    rule: "Every x in 0..=65535 for each of six enumerated fields - message type (in a Message Type AVP), general error type (in a Result Code AVP), proxy authentication type, the Stop-CCN and CDN views of a result \
code, and the attribute type (in front of a payload that is valid for every assigned kind, with the M bit set and clear and with reserved AVP header bits set, and again with the H bit); each code is also placed between two valid AVPs of a control message (accepted iff assigned), and each attribute type is also dispatched through reveal (a hidden AVP built with the reference cipher, with a generous and with an empty original value) - plus every named value of every enumeration. Oracle: accepted iff x is an RFC 2661 code point \
of the field; the decoded named value is the one the RFC gives that number (matched by name through the harness's own tables); an accepted x re-encodes to x; each named value encodes to its RFC number; \
result codes keep the raw value for all x and as_stop_ccn / as_cdn succeed exactly on 0-7 / 0-11; the decoded AVP variant is the kind of that attribute number. Non-trivial = every (field, x); distinct by (field, x).",
    assumptions: &["the harness's RFC 2661 number/name tables (glue.rs, this file) are the trusted base"],
    parts,
    run_tape: no_tape,
    run_enum,
    run_concrete,
    both_profiles: true,
    exhaustive_note: "all six fields x 65 536 codes and all named values are enumerated completely",
};

fn no_tape(_p: &str, _t: &[u8], _cx: &mut Cx) -> Res {
    Ok(())
}

const STOP_NAMES: [&str; 8] = [
    "Reserved",
    "GeneralRequestToClearControlConnection",
    "GeneralError",
    "ControlChannelAlreadyExists",
    "RequesterNotAuthorizedToEstablishControlChannel",
    "RequesterProtocolVersionUnsupported",
    "RequesterShutdown",
    "FsmError",
];
const CDN_NAMES: [&str; 12] = [
    "Reserved",
    "CallDisconnectedLossOfCarrier",
    "CallDisconnectedWithErrorCode",
    "CallDisconnectedAdministrative",
    "CallFailedTemporarilyUnavailable",
    "CallFailedPermanentlyUnavailable",
    "InvalidDestination",
    "CallFailedNoCarrier",
    "CallFailedBusySignal",
    "CallFailedNoDialTone",
    "CallEstablishTimeout",
    "CallNoFramingDetected",
];

/// RFC number of a named Stop-CCN result code, by variant name (compile-time match: the Debug text is not used)
fn stop_num(v: StopCcnCode) -> u16 {
    match v {
        StopCcnCode::Reserved => 0,
        StopCcnCode::GeneralRequestToClearControlConnection => 1,
        StopCcnCode::GeneralError => 2,
        StopCcnCode::ControlChannelAlreadyExists => 3,
        StopCcnCode::RequesterNotAuthorizedToEstablishControlChannel => 4,
        StopCcnCode::RequesterProtocolVersionUnsupported => 5,
        StopCcnCode::RequesterShutdown => 6,
        StopCcnCode::FsmError => 7,
    }
}

/// RFC number of a named CDN result code, by variant name
fn cdn_num(v: CdnCode) -> u16 {
    match v {
        CdnCode::Reserved => 0,
        CdnCode::CallDisconnectedLossOfCarrier => 1,
        CdnCode::CallDisconnectedWithErrorCode => 2,
        CdnCode::CallDisconnectedAdministrative => 3,
        CdnCode::CallFailedTemporarilyUnavailable => 4,
        CdnCode::CallFailedPermanentlyUnavailable => 5,
        CdnCode::InvalidDestination => 6,
        CdnCode::CallFailedNoCarrier => 7,
        CdnCode::CallFailedBusySignal => 8,
        CdnCode::CallFailedNoDialTone => 9,
        CdnCode::CallEstablishTimeout => 10,
        CdnCode::CallNoFramingDetected => 11,
    }
}

fn parts(_t: Tier) -> Vec<Part> {
    vec![enumerate("codes", 65536), enumerate("named", 14 + 9 + 6 + 8 + 12)]
}

fn avp_bytes(o1: u8, attr: u16, payload: &[u8]) -> Vec<u8> {
    let len = 6 + payload.len();
    let mut b = vec![(((len >> 8) as u8) << 6) | o1, len as u8, 0, 0];
    b.extend_from_slice(&attr.to_be_bytes());
    b.extend_from_slice(payload);
    b
}

fn one(b: &[u8], what: &str, x: u16) -> Result<Result<SAvp, rl2tp::common::DecodeError>, Failure> {
    match crate_decode_avps(b) {
        Caught::Ok((mut v, _)) if v.len() == 1 => Ok(v.remove(0)),
        Caught::Ok((v, _)) => Err(Failure { reason: format!("{} {}: one AVP record decoded to {} elements", what, x, v.len()), rendered: json!({"avp": hex(b)}), sig: None }),
        _ => Err(Failure { reason: format!("{} {}: decoder panicked", what, x), rendered: json!({"avp": hex(b)}), sig: None }),
    }
}

fn reenc(a: &SAvp) -> Option<Vec<u8>> {
    match crate_encode_avp(a) {
        Caught::Ok(e) => Some(e),
        _ => None,
    }
}

/// a payload that is valid for every assigned kind (26+ octets, printable ASCII where text is expected, codes in range)
fn universal_payload() -> Vec<u8> {
    let mut p = vec![0u8; 32];
    p[1] = 1; // message type 1 / result code 1 / proxy type 1 / error type (octets 2..4) = 0
    for x in p[4..].iter_mut() {
        *x = b'a';
    }
    p
}

fn check_code(x: u16, cx: &mut Cx) -> Res {
    cx.stage(STAGE_ARMED);
    // 1. message type
    cx.eval();
    let b = avp_bytes(1, 0, &x.to_be_bytes());
    let r = one(&b, "message type", x)?;
    let assigned = MSG_TYPES.contains(&x);
    match &r {
        Ok(a) => {
            if !assigned {
                return fail(format!("unassigned message-type code {} accepted as {:?}", x, a), json!({"avp": hex(&b)}));
            }
            if *a != (SAvp { attr: 0, hidden: false, body: Body::U16(x) }) {
                return fail(format!("message-type code {} decoded to the named value of another number: {:?}", x, a), json!({"avp": hex(&b)}));
            }
            if reenc(a).as_deref() != Some(&b[..]) {
                return fail(format!("message-type code {} does not re-encode to itself", x), json!({"avp": hex(&b)}));
            }
        }
        Err(_) => {
            if assigned {
                return fail(format!("assigned message-type code {} rejected", x), json!({"avp": hex(&b)}));
            }
        }
    }
    cx.nontrivial(&(0u8, x));
    // 2. general error type (Result Code AVP: code 1, error type x); acceptance must not depend on the result code it comes with
    for rc in [0u16, 2, 5, 7, 11, 0xffff] {
        cx.eval();
        let mut p = rc.to_be_bytes().to_vec();
        p.extend_from_slice(&x.to_be_bytes());
        let b = avp_bytes(1, 1, &p);
        let r = one(&b, "error type", x)?;
        if r.is_ok() != (x <= 8) {
            return fail(format!("error-type code {} next to result code {}: {} although the code is {}", x, rc, if r.is_ok() { "accepted" } else { "rejected" }, if x <= 8 { "assigned" } else { "unassigned" }), json!({"avp": hex(&b)}));
        }
        if let Ok(a) = &r {
            if *a != (SAvp { attr: 1, hidden: false, body: Body::ResultCode { code: rc, error: Some((x, None)) } }) {
                return fail(format!("error-type code {} next to result code {} decoded to {:?}", x, rc, a), json!({"avp": hex(&b)}));
            }
        }
    }
    // the same for codes followed by surplus value octets that themselves look like an assigned code (a fixed-size field is
    // read from its own octets only)
    {
        cx.evals_n(2);
        let mut v = x.to_be_bytes().to_vec();
        v.extend_from_slice(&[0, 6]);
        let b = avp_bytes(1, 0, &v);
        let r = one(&b, "message type", x)?;
        if r.is_ok() != MSG_TYPES.contains(&x) || r.as_ref().ok().map(|a| a.body != Body::U16(x)).unwrap_or(false) {
            return fail(format!("message-type code {} followed by the surplus octets 00 06: result {:?}", x, r), json!({"avp": hex(&b)}));
        }
        let mut v = x.to_be_bytes().to_vec();
        v.extend_from_slice(&[0, 1]);
        let b = avp_bytes(1, 29, &v);
        let r = one(&b, "proxy authen type", x)?;
        if r.is_ok() != (x <= 5) {
            return fail(format!("proxy-authen-type code {} followed by the surplus octets 00 01: result {:?}", x, r), json!({"avp": hex(&b)}));
        }
    }
    cx.eval();
    let mut p = vec![0, 1];
    p.extend_from_slice(&x.to_be_bytes());
    let b = avp_bytes(1, 1, &p);
    let r = one(&b, "error type", x)?;
    match &r {
        Ok(a) => {
            if x > 8 {
                return fail(format!("unassigned error-type code {} accepted", x), json!({"avp": hex(&b)}));
            }
            if *a != (SAvp { attr: 1, hidden: false, body: Body::ResultCode { code: 1, error: Some((x, None)) } }) {
                return fail(format!("error-type code {} decoded to the named value of another number: {:?}", x, a), json!({"avp": hex(&b)}));
            }
            if reenc(a).as_deref() != Some(&b[..]) {
                return fail(format!("error-type code {} does not re-encode to itself", x), json!({"avp": hex(&b)}));
            }
        }
        Err(_) => {
            if x <= 8 {
                return fail(format!("assigned error-type code {} rejected", x), json!({"avp": hex(&b)}));
            }
        }
    }
    cx.nontrivial(&(1u8, x));
    // 3. proxy authen type
    cx.eval();
    let b = avp_bytes(1, 29, &x.to_be_bytes());
    let r = one(&b, "proxy authen type", x)?;
    match &r {
        Ok(a) => {
            if x > 5 {
                return fail(format!("unassigned proxy-authen-type code {} accepted", x), json!({"avp": hex(&b)}));
            }
            if *a != (SAvp { attr: 29, hidden: false, body: Body::U16(x) }) {
                return fail(format!("proxy-authen-type code {} decoded to the named value of another number: {:?}", x, a), json!({"avp": hex(&b)}));
            }
            if reenc(a).as_deref() != Some(&b[..]) {
                return fail(format!("proxy-authen-type code {} does not re-encode to itself", x), json!({"avp": hex(&b)}));
            }
        }
        Err(_) => {
            if x <= 5 {
                return fail(format!("assigned proxy-authen-type code {} rejected", x), json!({"avp": hex(&b)}));
            }
        }
    }
    cx.nontrivial(&(2u8, x));
    // 4./5. result code: raw value kept for all x, Stop-CCN and CDN views
    cx.evals_n(2);
    let b = avp_bytes(1, 1, &x.to_be_bytes());
    let r = one(&b, "result code", x)?;
    match &r {
        Ok(a) => {
            if *a != (SAvp { attr: 1, hidden: false, body: Body::ResultCode { code: x, error: None } }) {
                return fail(format!("result code {} not kept raw: {:?}", x, a), json!({"avp": hex(&b)}));
            }
            if reenc(a).as_deref() != Some(&b[..]) {
                return fail(format!("result code {} does not re-encode to itself", x), json!({"avp": hex(&b)}));
            }
        }
        Err(e) => return fail(format!("a Result Code AVP with code {} was rejected: {:?}", x, e), json!({"avp": hex(&b)})),
    }
    let views = guard(|| {
        let cv = CodeValue::from(x);
        (cv.as_stop_ccn().map(stop_num), cv.as_cdn().map(cdn_num), u16::from(cv))
    });
    match views {
        Caught::Ok((s, c, raw)) => {
            if raw != x {
                return fail(format!("CodeValue::from({}) converts back to {}", x, raw), json!({"code": x}));
            }
            match (&s, x <= 7) {
                (Ok(n), true) if *n == x => {}
                (Err(_), false) => {}
                _ => return fail(format!("Stop-CCN view of result code {}: {} (RFC: {})", x, match &s { Ok(n) => format!("the named value of number {}", n), Err(_) => "not convertible".to_string() }, if x <= 7 { STOP_NAMES[x as usize] } else { "not convertible" }), json!({"code": x})),
            }
            match (&c, x <= 11) {
                (Ok(n), true) if *n == x => {}
                (Err(_), false) => {}
                _ => return fail(format!("CDN view of result code {}: {} (RFC: {})", x, match &c { Ok(n) => format!("the named value of number {}", n), Err(_) => "not convertible".to_string() }, if x <= 11 { CDN_NAMES[x as usize] } else { "not convertible" }), json!({"code": x})),
            }
        }
        _ => return fail(format!("result-code views panicked for {}", x), json!({"code": x})),
    }
    cx.nontrivial(&(3u8, x));
    cx.nontrivial(&(4u8, x));
    // 6. attribute type, clear and hidden
    cx.evals_n(2);
    let up = universal_payload();
    let assigned = fmt_of(x).is_some();
    // header bits the specification ignores must not open or close the set of accepted types: M clear, reserved bits set
    for o1 in [0x00u8, 0x3c, 0x3d] {
        cx.eval();
        let bv = avp_bytes(o1, x, &up);
        let rv = one(&bv, "attribute type", x)?;
        if rv.is_ok() != assigned {
            return fail(
                format!("attribute type {} with first header octet {:#04x} (M {}, reserved bits {:#x}): {} although the type is {}", x, o1, o1 & 1, o1 & 0x3c, if rv.is_ok() { "accepted" } else { "rejected" }, if assigned { "assigned" } else { "unassigned" }),
                json!({"avp": hex(&bv)}),
            );
        }
        if let Ok(a) = &rv {
            if a.attr != x || a.hidden {
                return fail(format!("attribute type {} decoded to the kind of number {}", x, a.attr), json!({"avp": hex(&bv)}));
            }
        }
    }
    // the same for the message-type field
    {
        cx.eval();
        let bv = avp_bytes(0x3c, 0, &x.to_be_bytes());
        let rv = one(&bv, "message type", x)?;
        if rv.is_ok() != MSG_TYPES.contains(&x) {
            return fail(format!("message-type code {} with M clear and reserved header bits set: acceptance differs from the assigned set", x), json!({"avp": hex(&bv)}));
        }
    }
    // message level: the coded AVP sits between a Message Type and a valid AVP; the message is accepted iff the code is assigned
    {
        let fields: [(&str, Vec<u8>, bool); 4] = [
            ("message type", avp_bytes(1, 0, &x.to_be_bytes()), MSG_TYPES.contains(&x)),
            ("error type", avp_bytes(1, 1, &[0, 1, x.to_be_bytes()[0], x.to_be_bytes()[1]]), x <= 8),
            ("proxy authen type", avp_bytes(1, 29, &x.to_be_bytes()), x <= 5),
            ("attribute type", avp_bytes(1, x, &up), assigned),
        ];
        for (what, rec, ok) in fields.iter() {
            cx.eval();
            let mut m = vec![0x13, 0x20, 0, 0, 0, 1, 0, 2, 0, 3, 0, 4, 0x01, 0x08, 0, 0, 0, 0, 0, 2];
            m.extend_from_slice(rec);
            m.extend_from_slice(&[0x01, 0x08, 0, 0, 0, 9, 0, 77]); // Assigned Tunnel ID
            let l = m.len() as u16;
            m[2..4].copy_from_slice(&l.to_be_bytes());
            match crate_decode(&m, STRICT) {
                Caught::Ok(r) => {
                    if r.is_ok() != *ok {
                        return fail(
                            format!("{} code {} between two valid AVPs of a control message: message {} although the code is {}", what, x, if r.is_ok() { "accepted" } else { "rejected" }, if *ok { "assigned" } else { "unassigned" }),
                            json!({"input": hex(&m)}),
                        );
                    }
                    if let Ok((SMsg::Control { avps, .. }, _)) = &r {
                        if avps.len() != 3 {
                            return fail(format!("{} code {}: accepted control message carries {} AVPs instead of 3", what, x, avps.len()), json!({"input": hex(&m)}));
                        }
                    }
                }
                _ => return fail(format!("{} code {}: message decode panicked", what, x), json!({"input": hex(&m)})),
            }
        }
    }
    // the reveal path dispatches on the attribute type too: a hidden AVP whose plaintext is the generous payload, and one
    // whose plaintext is empty (original length 6), encrypted with the reference key schedule
    {
        cx.evals_n(2);
        let secret = b"c16";
        let rv = [1u8, 2, 3, 4];
        let v_full = hide(x, &up, secret, &rv, &[], &[0; 16]);
        let v_empty = hide(x, &[], secret, &rv, &[], &[0; 16]);
        for (v, payload) in [(&v_full, &up[..]), (&v_empty, &[][..])] {
            let h = AVP::Hidden(rl2tp::avp::types::Hidden { attribute_type: x, value: v.clone() });
            let spec = decode_payload(x, payload).ok().map(|body| SAvp { attr: x, hidden: false, body });
            match guard(|| h.reveal(secret, &rv.into()).map(|a| from_crate(&a))) {
                Caught::Ok(r) => {
                    if r.as_ref().ok() != spec.as_ref() {
                        return fail(
                            format!("reveal of a hidden AVP of attribute type {} with a {}-octet original value gives {:?}, the reference gives {:?}", x, payload.len(), r, spec),
                            json!({"attribute_type": x, "hidden_value": hex(v)}),
                        );
                    }
                }
                _ => return fail(format!("reveal of a hidden AVP of attribute type {} panicked", x), json!({"attribute_type": x, "hidden_value": hex(v)})),
            }
        }
    }
    let b = avp_bytes(1, x, &up);
    let r = one(&b, "attribute type", x)?;
    match &r {
        Ok(a) => {
            if !assigned {
                return fail(format!("unassigned attribute type {} accepted as {:?}", x, a), json!({"avp": hex(&b)}));
            }
            if a.attr != x || a.hidden {
                return fail(format!("attribute type {} decoded to the kind of number {}", x, a.attr), json!({"avp": hex(&b)}));
            }
            let spec = decode_payload(x, &up).ok().map(|body| SAvp { attr: x, hidden: false, body });
            if spec.as_ref() != Some(a) {
                return fail(format!("attribute type {} decoded to {:?}, the reference gives {:?}", x, a, spec), json!({"avp": hex(&b)}));
            }
            // re-encoding keeps the attribute number
            match reenc(a) {
                Some(e) if e.len() >= 6 && e[4..6] == x.to_be_bytes() => {}
                _ => return fail(format!("attribute type {} does not re-encode to its own number", x), json!({"avp": hex(&b)})),
            }
        }
        Err(_) => {
            if assigned {
                return fail(format!("assigned attribute type {} rejected on a payload valid for every kind", x), json!({"avp": hex(&b)}));
            }
        }
    }
    let bh = avp_bytes(3, x, &up);
    match one(&bh, "hidden attribute type", x)? {
        Ok(a) if a == (SAvp { attr: x, hidden: true, body: Body::Opaque(up.clone()) }) => {
            if reenc(&a).as_deref() != Some(&bh[..]) {
                return fail(format!("hidden AVP of type {} does not re-encode to itself", x), json!({"avp": hex(&bh)}));
            }
        }
        other => return fail(format!("hidden AVP of attribute type {} decoded to {:?}", x, other), json!({"avp": hex(&bh)})),
    }
    cx.nontrivial(&(5u8, x));
    cx.stage(STAGE_SETUP);
    if assigned || x <= 16 {
        cx.sample("codes", || json!({"code": x, "message_type_assigned": MSG_TYPES.contains(&x), "error_type_assigned": x <= 8, "proxy_type_assigned": x <= 5, "stop_ccn": x <= 7, "cdn": x <= 11, "attribute_type_assigned": assigned, "family": "codes"}));
    }
    Ok(())
}

/// every named value encodes to its RFC number (values constructed by name, here)
fn check_named(i: u64, cx: &mut Cx) -> Res {
    cx.eval();
    cx.nontrivial(&(6u8, i));
    let enc = |a: AVP| -> Option<Vec<u8>> {
        match guard(|| {
            let mut w = rl2tp::common::VecWriter::new();
            a.write(&mut w);
            w.data
        }) {
            Caught::Ok(e) => Some(e),
            _ => None,
        }
    };
    use MessageType::*;
    let mt: [(MessageType, u16); 14] = [
        (StartControlConnectionRequest, 1),
        (StartControlConnectionReply, 2),
        (StartControlConnectionConnected, 3),
        (StopControlConnectionNotification, 4),
        (Hello, 6),
        (OutgoingCallRequest, 7),
        (OutgoingCallReply, 8),
        (OutgoingCallConnected, 9),
        (IncomingCallRequest, 10),
        (IncomingCallReply, 11),
        (IncomingCallConnected, 12),
        (CallDisconnectNotify, 14),
        (WanErrorNotify, 15),
        (SetLinkInfo, 16),
    ];
    let et: [(ErrorType, u16); 9] = [
        (ErrorType::Ok, 0),
        (ErrorType::NoControlConnectionExists, 1),
        (ErrorType::WrongLength, 2),
        (ErrorType::OutOfRangeOrBadReserved, 3),
        (ErrorType::InsufficientResources, 4),
        (ErrorType::InvalidSessionId, 5),
        (ErrorType::Generic, 6),
        (ErrorType::TryAnotherDestination, 7),
        (ErrorType::UnknownMandatoryAvp, 8),
    ];
    let pt: [(ProxyAuthenType, u16); 6] = [
        (ProxyAuthenType::Reserved, 0),
        (ProxyAuthenType::TextualUserNamePasswordExchange, 1),
        (ProxyAuthenType::PppChap, 2),
        (ProxyAuthenType::PppPap, 3),
        (ProxyAuthenType::NoAuthentication, 4),
        (ProxyAuthenType::MicrosoftChapVersion1, 5),
    ];
    let i = i as usize;
    let bad = |what: String| fail(what, json!({"named_index": i}));
    if i < 14 {
        let (v, n) = mt[i];
        match enc(AVP::MessageType(v)) {
            Some(e) if e == avp_bytes(1, 0, &n.to_be_bytes()) => {}
            other => return bad(format!("MessageType::{:?} does not encode to RFC number {}: {:?}", v, n, other.map(|e| hex(&e)))),
        }
        cx.sample("named", || json!({"named_value": format!("MessageType::{:?}", v), "rfc_number": n, "family": "named"}));
    } else if i < 23 {
        let (v, n) = et[i - 14];
        let a = AVP::ResultCode(rl2tp::avp::types::ResultCode { code: 2u16.into(), error: Some(rl2tp::avp::types::result_code::Error { error_type: v, error_message: None }) });
        let mut p = vec![0, 2];
        p.extend_from_slice(&n.to_be_bytes());
        match enc(a) {
            Some(e) if e == avp_bytes(1, 1, &p) => {}
            other => return bad(format!("ErrorType::{:?} does not encode to RFC number {}: {:?}", v, n, other.map(|e| hex(&e)))),
        }
    } else if i < 29 {
        let (v, n) = pt[i - 23];
        match enc(AVP::ProxyAuthenType(v)) {
            Some(e) if e == avp_bytes(1, 29, &n.to_be_bytes()) => {}
            other => return bad(format!("ProxyAuthenType::{:?} does not encode to RFC number {}: {:?}", v, n, other.map(|e| hex(&e)))),
        }
    } else {
        // Stop-CCN / CDN named values are found among all convertible codes and identified by a compile-time match on the
        // variant (the Debug text, which no property constrains, is not used; removing a variant breaks the harness build)
        let (stop, n) = if i < 37 { (true, (i - 29) as u16) } else { (false, (i - 37) as u16) };
        let name = if stop { STOP_NAMES[n as usize] } else { CDN_NAMES[n as usize] };
        let r = guard(|| {
            let mut found: Vec<(u16, u16)> = Vec::new(); // (code that converts to the named value, number the named value converts back to)
            for x in 0..=65535u16 {
                let cv = CodeValue::from(x);
                if stop {
                    if let Ok(v) = cv.as_stop_ccn() {
                        if stop_num(v) == n {
                            found.push((x, u16::from(CodeValue::from(v))));
                        }
                    }
                } else if let Ok(v) = cv.as_cdn() {
                    if cdn_num(v) == n {
                        found.push((x, u16::from(CodeValue::from(v))));
                    }
                }
            }
            found
        });
        let found = match r {
            Caught::Ok(f) => f,
            _ => return bad(format!("looking up the named value {} panicked", name)),
        };
        if found != vec![(n, n)] {
            return bad(format!("{} value {}: RFC number {}, but the codes converting to it / the number it converts to are {:?}", if stop { "Stop-CCN" } else { "CDN" }, name, n, found));
        }
        let cv = CodeValue::from(n);
        match enc(AVP::ResultCode(rl2tp::avp::types::ResultCode { code: cv, error: None })) {
            Some(e) if e == avp_bytes(1, 1, &n.to_be_bytes()) => {}
            other => return bad(format!("{} does not encode to RFC number {}: {:?}", name, n, other.map(|e| hex(&e)))),
        }
    }
    Ok(())
}

fn run_enum(part: &str, index: u64, cx: &mut Cx) -> Res {
    match part {
        "codes" => check_code(index as u16, cx),
        _ => check_named(index, cx),
    }
}

fn run_concrete(case: &Value, cx: &mut Cx) -> Res {
    match case.get("code").and_then(|x| x.as_u64()) {
        Some(x) => check_code(x as u16, cx),
        None => fail("bad concrete case", case.clone()),
    }
}
