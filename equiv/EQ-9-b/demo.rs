// Demo for change `b`: control-message bodies are parsed in a single pass with an early exit.
//
// With the change, `ControlMessage::try_read` pulls AVP records one at a time and returns
// `ControlMessageTypeNotFirst` as soon as the first record turns out not to be a Message Type,
// instead of first decoding the whole body into a vector and inspecting it afterwards. The
// returned value is the same; what changes is how many requests the body reader receives.

use rl2tp::common::{DecodeError, Reader, SliceReader};
use rl2tp::{Message, ValidateReserved, ValidateUnused, ValidateVersion, ValidationOptions};
use std::cell::Cell;
use std::rc::Rc;

#[derive(Default)]
struct Stats {
    u8_reads: Cell<usize>,
    u16_reads: Cell<usize>,
    subreaders: Cell<usize>,
    byte_requests: Cell<usize>,
}

/// A conforming reader that forwards to `SliceReader` and counts what it is asked for.
struct CountingReader<'a> {
    inner: SliceReader<'a>,
    stats: Rc<Stats>,
}

fn bump(c: &Cell<usize>) {
    c.set(c.get() + 1);
}

impl<'a> Reader<&'a [u8]> for CountingReader<'a> {
    fn is_empty(&self) -> bool {
        self.inner.is_empty()
    }
    fn len(&self) -> usize {
        self.inner.len()
    }
    fn subreader(&mut self, length: usize) -> Self {
        assert!(length <= self.inner.len());
        bump(&self.stats.subreaders);
        CountingReader {
            inner: self.inner.subreader(length),
            stats: self.stats.clone(),
        }
    }
    fn bytes(&mut self, length: usize) -> Option<&'a [u8]> {
        bump(&self.stats.byte_requests);
        self.inner.bytes(length)
    }
    unsafe fn read_u8_unchecked(&mut self) -> u8 {
        assert!(self.inner.len() >= 1);
        bump(&self.stats.u8_reads);
        self.inner.read_u8_unchecked()
    }
    unsafe fn read_u16_be_unchecked(&mut self) -> u16 {
        assert!(self.inner.len() >= 2);
        bump(&self.stats.u16_reads);
        self.inner.read_u16_be_unchecked()
    }
    unsafe fn read_u32_be_unchecked(&mut self) -> u32 {
        assert!(self.inner.len() >= 4);
        self.inner.read_u32_be_unchecked()
    }
    unsafe fn read_u64_be_unchecked(&mut self) -> u64 {
        assert!(self.inner.len() >= 8);
        self.inner.read_u64_be_unchecked()
    }
    fn skip_bytes(&mut self, length: usize) {
        assert!(length <= self.inner.len());
        self.inner.skip_bytes(length)
    }
}

fn avp(attribute_type: u16, payload: &[u8]) -> Vec<u8> {
    let length = (6 + payload.len()) as u16;
    let mut v = vec![0x01 | ((length >> 8) as u8) << 6, length as u8, 0, 0];
    v.extend(attribute_type.to_be_bytes());
    v.extend(payload);
    v
}

fn control(body: &[u8]) -> Vec<u8> {
    let mut v = vec![0x13, 0x20];
    v.extend(((12 + body.len()) as u16).to_be_bytes());
    v.extend([0, 1, 0, 2, 0, 3, 0, 4]);
    v.extend(body);
    v
}

fn strict() -> ValidationOptions {
    ValidationOptions {
        reserved: ValidateReserved::Yes,
        version: ValidateVersion::Yes,
        unused: ValidateUnused::Yes,
    }
}

#[test]
fn body_is_not_parsed_past_a_wrong_first_avp() {
    const FOLLOWERS: usize = 25;

    // First AVP is a Host Name, followed by many perfectly fine AVPs.
    let mut body = avp(7, b"lac.example");
    for i in 0..FOLLOWERS {
        body.extend(avp(10, &(i as u16).to_be_bytes()));
    }
    let message = control(&body);

    let stats = Rc::new(Stats::default());
    let mut reader = CountingReader {
        inner: SliceReader::from(&message),
        stats: stats.clone(),
    };
    let result = Message::try_read_validate(&mut reader, strict());

    // Same verdict and same consumption as ever ...
    assert_eq!(
        result,
        Err(vec![DecodeError::ControlMessageTypeNotFirst])
    );
    assert_eq!(reader.len(), 0);

    // ... but only the first AVP record has been looked at:
    // one sub-reader for the body and one for the first AVP's payload,
    assert_eq!(stats.subreaders.get(), 2);
    // two single-octet reads for the one AVP header (flags/length octets),
    assert_eq!(stats.u8_reads.get(), 2);
    // flags + 5 message header fields + vendor id + attribute type of the first AVP,
    assert_eq!(stats.u16_reads.get(), 1 + 5 + 2);
    // and one slice request for the host name itself.
    assert_eq!(stats.byte_requests.get(), 1);
}

#[test]
fn accepted_messages_and_error_lists_are_unchanged() {
    // Accepted message
    let mut body = avp(0, &[0, 2]);
    body.extend(avp(7, b"lns"));
    body.extend(avp(10, &[0, 8]));
    let message = control(&body);
    let mut reader = SliceReader::from(&message);
    let Ok(Message::Control(m)) = Message::try_read_validate(&mut reader, strict()) else {
        panic!("rejected")
    };
    assert_eq!(m.avps.len(), 3);
    assert_eq!(m.length as usize, message.len());

    // Two bad records after a valid Message Type: one error each, wire order
    let mut body = avp(0, &[0, 2]);
    body.extend(avp(10, &[0])); // truncated Receive Window Size
    body.extend(avp(7, b"ok"));
    body.extend(avp(20, &[])); // unassigned attribute type
    let message = control(&body);
    let mut reader = SliceReader::from(&message);
    assert_eq!(
        Message::try_read_validate(&mut reader, strict()),
        Err(vec![
            DecodeError::IncompleteAVP(10),
            DecodeError::UnknownAvp(20)
        ])
    );
}
