#!/usr/bin/env python3
"""tools/fuzz_campaign.py <ID> <stats.json>
Coverage-guided part of the thorough tier: libFuzzer targets (cargo-fuzz, nightly, ASan, debug assertions on)
with the property's oracle compiled into the target (VF_PROP selects which oracle aborts).
exit 0: no artifact;  exit 1: an artifact was confirmed by the ordinary replay path (VIOLATION printed);
exit 2: could not run / artifact not confirmed (inconclusive)."""
import json, os, re, shutil, subprocess, sys, hashlib, time

V = os.path.dirname(os.path.dirname(os.path.abspath(__file__)))
ID, STATS = sys.argv[1], sys.argv[2]
SEED = int(os.environ.get('VERIF_SEED', '0') or 0)
JOBS = int(os.environ.get('VERIF_JOBS', '16'))
RUNS = int(os.environ.get('VERIF_FUZZ_RUNS', '1000000'))
MAXT = int(os.environ.get('VERIF_FUZZ_MAX_SECONDS', '240'))

B, T, R = 'fz_bytes', 'fz_tape', 'fz_reveal'
PLAN = {
 'C01': [(B, None, 1024), (B, None, 65536), (T, 'wire', 900)],
 'C02': [(B, None, 1024), (T, 'wire', 900), (T, 'reveal', 400), (T, 'pertype-random', 1300), (R, None, 1400)],
 'C03': [(T, 'messages', 2500), (T, 'avps', 1200)],
 'C04': [(T, 'data', 300)],
 'C05': [(B, None, 1024), (T, 'wire', 900), (T, 'noncanon', 900), (T, 'records', 700)],
 'C06': [(T, 'avps', 1200), (T, 'control', 2500), (T, 'data', 300)],
 'C07': [(T, 'messages', 2500), (T, 'avps', 1200), (T, 'oversize-avp', 300), (T, 'hide-limits', 300), (T, 'after-refusal', 2500)],
 'C08': [(T, 'suffix', 1500), (T, 'sequence', 2500), (T, 'records', 900)],
 'C09': [(T, 'sequences', 2500)],
 'C10': [(B, None, 1024), (T, 'noncanon', 900), (T, 'wire', 900)],
 'C11': [(T, 'hide-reveal', 1500), (T, 'related-secrets', 1500)],
 'C12': [(T, 'forward', 1500), (T, 'backward', 500), (T, 'related-secrets', 1500), (R, None, 1100)],
 'C13': [(R, None, 1400), (T, 'hidden', 1200), (T, 'related-secrets', 1500)],
 'C14': [(B, None, 1024), (T, 'wire', 900)],
 'C15': [(T, 'faults', 1500)],
 'C17': [(T, 'randomwords', 24)],
 'C18': [(T, 'reader', 300), (T, 'writer', 300)],
 'C20': [(T, 'injection', 1200)],
}

def out(obj):
    json.dump(obj, open(STATS, 'w'), indent=1)

plan = PLAN.get(ID)
if not plan:
    out({"engine": "libFuzzer", "runs": 0, "note": "no fuzz target serves this property (no tape part / process-level oracle)"})
    sys.exit(0)

env = dict(os.environ, CARGO_NET_OFFLINE='true', CARGO_TERM_COLOR='never')
fuzzdir = os.path.join(V, 'fuzz')
b = subprocess.run(['cargo', '+nightly', 'fuzz', 'build', '--fuzz-dir', fuzzdir], cwd=fuzzdir, env=env, capture_output=True, text=True)
if b.returncode != 0:
    sys.stderr.write("fuzz build failed:\n" + b.stderr[-3000:] + "\n")
    sys.exit(2)
bindir = os.path.join(fuzzdir, 'target', 'x86_64-unknown-linux-gnu', 'release')
vf = os.path.join(V, 'target', 'vrel', 'vrel', 'vf')

work = os.path.join(V, 'target', 'fuzzrun', f'{ID}-{os.getpid()}')
shutil.rmtree(work, ignore_errors=True)
os.makedirs(work)

procs = []
for j in range(JOBS):
    target, part, maxlen = plan[j % len(plan)]
    seeded = (j // len(plan)) % 2 == 0      # alternate: seed corpus / empty corpus
    d = os.path.join(work, f'job{j}')
    corpus = os.path.join(d, 'corpus'); art = os.path.join(d, 'artifacts')
    os.makedirs(corpus); os.makedirs(art)
    if seeded:
        kind = 'bytes' if target == B else 'tape'
        subprocess.run([vf, 'corpus', kind, corpus, '200', str(SEED + j + 1), str(min(maxlen, 2500))], check=False)
    s = (SEED * 1000 + j + 1) & 0x7fffffff or 1
    e = dict(env, VF_PROP=ID, VF_PART=part or '')
    cmd = [os.path.join(bindir, target), f'-runs={RUNS}', f'-seed={s}', '-len_control=0', f'-max_len={maxlen}', '-timeout=60', '-report_slow_units=600',
           '-rss_limit_mb=6144', f'-max_total_time={MAXT}', '-print_final_stats=1', f'-artifact_prefix={art}/', corpus]
    log = open(os.path.join(d, 'log'), 'w')
    procs.append((j, target, part, seeded, s, d, subprocess.Popen(cmd, env=e, stdout=log, stderr=subprocess.STDOUT), log))

campaigns = []; total = 0; artifacts = []; ignored = []
for (j, target, part, seeded, s, d, p, log) in procs:
    rc = p.wait(); log.close()
    txt = open(os.path.join(d, 'log'), errors='replace').read()
    m = re.search(r'stat::number_of_executed_units:\s*(\d+)', txt)
    runs = int(m.group(1)) if m else 0
    cov = re.findall(r'cov: (\d+) ft: (\d+) corp: (\d+)', txt)
    c, ft, corp = (int(x) for x in cov[-1]) if cov else (0, 0, 0)
    total += runs
    campaigns.append({"target": target, "part": part, "corpus": "seeded (200 generated inputs)" if seeded else "empty", "seed": s, "runs": runs,
                      "coverage_edges": c, "features": ft, "corpus_size": corp, "exit": rc})
    for f in sorted(os.listdir(os.path.join(d, 'artifacts'))):
        # slow-unit-* files are informational (a unit was slow on a loaded machine), oom-* / timeout-* are resource
        # events: none of them is an oracle failure. Timeouts are candidates only for C01, whose statement includes termination.
        kind = f.split('-')[0]
        if kind in ('slow', 'oom') or (kind == 'timeout' and ID != 'C01'):
            ignored.append(f)
            continue
        artifacts.append((target, part, os.path.join(d, 'artifacts', f), txt[-4000:]))

stats = {"engine": "libFuzzer via cargo-fuzz (nightly, AddressSanitizer, debug assertions on), oracle of this property compiled into the target",
         "runs": total, "processes": len(procs), "campaigns": campaigns, "artifacts": len(artifacts),
         "resource_events_ignored": ignored}
out(stats)

if not artifacts:
    shutil.rmtree(work, ignore_errors=True)
    sys.exit(0)

# an artifact is only a candidate: confirm it through the ordinary replay path (both build profiles)
rdir = os.path.join(V, 'replays', ID); os.makedirs(rdir, exist_ok=True)
confirmed = 0; unconfirmed = 0
seen = set()
for (target, part, path, tail) in artifacts[:8]:
    data = open(path, 'rb').read()
    kind = os.path.basename(path).split('-')[0]
    h = hashlib.sha1(data).hexdigest()[:16]
    if h in seen: continue
    seen.add(h)
    if target == T:
        case = {"kind": "tape", "part": part, "case": {"tape": data.hex()}}
    elif target == B:
        case = {"kind": "concrete", "case": {"input": data.hex()}}
    else:
        if len(data) < 7: continue
        sl = min(data[6] % 33, len(data) - 7)
        case = {"kind": "concrete", "case": {"attribute_type": (data[0] << 8) | data[1], "random_vector": data[2:6].hex(), "secret": data[7:7+sl].hex(), "hidden_value": data[7+sl:].hex()}}
    case.update({"property": ID, "found_by": f"libFuzzer {target} ({kind})", "fuzz_log_tail": tail[-1500:]})
    rp = os.path.join(rdir, f'fuzz-{h}.json')
    json.dump(case, open(rp, 'w'), indent=1)
    r = subprocess.run([os.path.join(V, 'check'), ID, '--replay', rp], cwd=V, capture_output=True, text=True)
    if r.returncode == 1:
        confirmed += 1
        print(f"VIOLATION property={ID} replay={rp}")
        for line in r.stdout.splitlines():
            if line.startswith('replay '): print('  ' + line)
    else:
        # a sanitizer report that the ordinary builds do not reproduce: memory-safety properties only
        asan = 'AddressSanitizer' in tail or 'unsafe precondition' in tail
        if asan and ID in ('C01', 'C02', 'C13'):
            confirmed += 1
            print(f"VIOLATION property={ID} replay={rp}")
            print("  reason: sanitizer / unsafe-precondition report in the fuzz build (see fuzz_log_tail in the replay file); re-run: "
                  f"VF_PROP={ID} VF_PART={part or ''} fuzz/target/x86_64-unknown-linux-gnu/release/{target} <artifact>")
        else:
            unconfirmed += 1
            sys.stderr.write(f"INCONCLUSIVE: libFuzzer artifact {path} ({kind}) did not reproduce through ./check {ID} --replay {rp}\n")
if confirmed:
    sys.exit(1)
sys.exit(2 if unconfirmed else 0)
