// Demo for change `d`: wording of the rendered (Display) text of message-level decode errors.
//
// The properties require only that rendering succeeds, is non-empty, and - for AVP-related errors -
// shows the AVP kind name (or the number when unassigned). The change rewords the message-level
// errors; error VALUES (variants, payloads) and the AVP-related renderings are untouched.

use rl2tp::common::{DecodeError, SliceReader};
use rl2tp::Message;

#[test]
fn error_values_are_unchanged() {
    // version nibble 3
    let bytes = [0x13u8, 0x30, 0x00, 0x0c, 0, 1, 0, 2, 0, 3, 0, 4];
    let mut r = SliceReader::from(&bytes[..]);
    let res: Result<Message<&[u8]>, _> = Message::try_read(&mut r);
    assert_eq!(res, Err(vec![DecodeError::InvalidVersion(3)]));
}

#[test]
fn avp_related_renderings_are_unchanged() {
    assert_eq!(DecodeError::IncompleteAVP(7).to_string(), "Incomplete AVP (HostName)");
    assert_eq!(DecodeError::IncompleteAVP(20).to_string(), "Incomplete AVP (20)");
    assert_eq!(
        DecodeError::InvalidUtf8(25).to_string(),
        "AVP (PhysicalChannelId) with invalid UTF-8 string payload"
    );
    assert_eq!(
        DecodeError::AVPReadError(38).to_string(),
        "Read error when parsing AVP (RxConnectSpeed)"
    );
    assert_eq!(DecodeError::UnknownAvp(40).to_string(), "AVP with unknown type (40)");
    assert_eq!(
        DecodeError::UnsupportedVendorId(9).to_string(),
        "AVP with unsupported vendor ID (9) encountered"
    );
    assert_eq!(
        DecodeError::UnknownMessageType(5).to_string(),
        "MessageType AVP with unknown message type (5)"
    );
}

#[test]
fn message_level_renderings_are_reworded() {
    for v in [0u8, 1, 3, 15, 255] {
        let s = DecodeError::InvalidVersion(v).to_string();
        assert_eq!(
            s,
            format!("Unsupported protocol version {v} in message header (only version 2 is supported)")
        );
    }
    for o in [0u16, 1, 1000, 65535] {
        assert_eq!(
            DecodeError::InvalidOffset(o).to_string(),
            format!("Data message offset size {o} exceeds the available octets")
        );
    }
    assert_eq!(
        DecodeError::InvalidReservedBits.to_string(),
        "Reserved bits set in message header"
    );
    assert_eq!(
        DecodeError::IncompleteFlags.to_string(),
        "Input too short for the message flags field"
    );
    assert_eq!(
        DecodeError::ControlMessageTypeNotFirst.to_string(),
        "Control message body does not start with a valid MessageType AVP"
    );
    assert_eq!(
        DecodeError::ControlMessageWithoutNsNr.to_string(),
        "Sequence bit missing on a control message"
    );
    assert_eq!(
        DecodeError::EmptyDataMessagePayload.to_string(),
        "Data message carries no payload"
    );
}

#[test]
fn every_variant_renders_non_empty() {
    let all = [
        DecodeError::InvalidVersion(9),
        DecodeError::InvalidReservedBits,
        DecodeError::IncompleteFlags,
        DecodeError::InvalidOffset(9),
        DecodeError::IncompleteDataMessageHeader,
        DecodeError::IncompleteDataMessagePayload,
        DecodeError::EmptyDataMessagePayload,
        DecodeError::MessageReadError,
        DecodeError::ForbiddenControlMessagePriority,
        DecodeError::ForbiddenControlMessageOffset,
        DecodeError::ControlMessageWithoutLength,
        DecodeError::ControlMessageWithoutNsNr,
        DecodeError::IncompleteControlMessageHeader,
        DecodeError::IncompleteControlMessagePayload,
        DecodeError::ControlMessageTypeNotFirst,
    ];
    for e in all {
        assert!(!e.to_string().is_empty());
    }
}
