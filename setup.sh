#!/bin/bash
# Run once after a fresh restore, offline: build the harness in both profiles and self-test it.
cd "$(dirname "$0")" || exit 2
exec ./check build
