// Demo for change `a`: order of the header-flag validations.
//
// Every input below carries TWO independent header faults. Which of the two
// applicable errors is reported is left open by the properties; the change
// reports the other one. Single-fault inputs are unaffected (checked too).

use rl2tp::common::{DecodeError, SliceReader};
use rl2tp::{Message, ValidateReserved, ValidateUnused, ValidateVersion, ValidationOptions};

fn strict() -> ValidationOptions {
    ValidationOptions {
        reserved: ValidateReserved::Yes,
        version: ValidateVersion::Yes,
        unused: ValidateUnused::Yes,
    }
}

fn decode(bytes: &[u8], opts: ValidationOptions) -> Result<Message<&[u8]>, Vec<DecodeError>> {
    let mut r = SliceReader::from(bytes);
    Message::try_read_validate(&mut r, opts)
}

// A valid ZLB control message body after the flag word.
const ZLB_TAIL: [u8; 10] = [0x00, 0x0c, 0x00, 0x01, 0x00, 0x02, 0x00, 0x03, 0x00, 0x04];

fn with_flags(flags: u16) -> Vec<u8> {
    let mut v = flags.to_be_bytes().to_vec();
    v.extend_from_slice(&ZLB_TAIL);
    v
}

#[test]
fn single_faults_are_reported_as_before() {
    // sanity: the base message is accepted under the strictest options
    assert!(decode(&with_flags(0x1320), strict()).is_ok());
    // version nibble 3 only
    assert_eq!(
        decode(&with_flags(0x1330), strict()),
        Err(vec![DecodeError::InvalidVersion(3)])
    );
    // reserved bit 0 only
    assert_eq!(
        decode(&with_flags(0x1321), strict()),
        Err(vec![DecodeError::InvalidReservedBits])
    );
    // priority only / offset only
    assert_eq!(
        decode(&with_flags(0x9320), strict()),
        Err(vec![DecodeError::ForbiddenControlMessagePriority])
    );
    assert_eq!(
        decode(&with_flags(0x5320), strict()),
        Err(vec![DecodeError::ForbiddenControlMessageOffset])
    );
    // missing L only / missing S only
    assert_eq!(
        decode(&with_flags(0x1120), strict()),
        Err(vec![DecodeError::ControlMessageWithoutLength])
    );
    assert_eq!(
        decode(&with_flags(0x0320), strict()),
        Err(vec![DecodeError::ControlMessageWithoutNsNr])
    );
}

#[test]
fn wrong_version_and_reserved_bit_reports_reserved_bits() {
    // version nibble 3 AND reserved bit 0 set, both checks enabled
    assert_eq!(
        decode(&with_flags(0x1331), strict()),
        Err(vec![DecodeError::InvalidReservedBits])
    );
    // same for a data message
    let data = [0x00u8, 0x31, 0x00, 0x01, 0x00, 0x02, 0xaa];
    assert_eq!(
        decode(&data, strict()),
        Err(vec![DecodeError::InvalidReservedBits])
    );
}

#[test]
fn priority_and_offset_reports_offset() {
    assert_eq!(
        decode(&with_flags(0xd320), strict()),
        Err(vec![DecodeError::ForbiddenControlMessageOffset])
    );
}

#[test]
fn missing_length_and_missing_ns_nr_reports_ns_nr() {
    assert_eq!(
        decode(&with_flags(0x0120), strict()),
        Err(vec![DecodeError::ControlMessageWithoutNsNr])
    );
}
