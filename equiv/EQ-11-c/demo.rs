// Demo for change `c`: the data-message payload is taken through Reader::subreader
// (a sub-range of exactly the payload length) and then bytes() on that sub-range, instead of
// bytes() on the message reader. A recording Reader (public trait) shows the changed call
// sequence; results and the final reader position are identical.
use rl2tp::common::{Reader, SliceReader};
use rl2tp::Message;
use std::cell::RefCell;
use std::rc::Rc;

struct Rec<'a> {
    inner: SliceReader<'a>,
    log: Rc<RefCell<Vec<String>>>,
}

impl<'a> Rec<'a> {
    fn new(data: &'a [u8]) -> Self {
        Rec {
            inner: SliceReader::from(data),
            log: Rc::new(RefCell::new(Vec::new())),
        }
    }
    fn note(&self, what: &str, n: usize) {
        assert!(n <= self.inner.len(), "request {} of {} octets out of bounds", what, n);
        self.log.borrow_mut().push(format!("{}({})", what, n));
    }
}

impl<'a> Reader<&'a [u8]> for Rec<'a> {
    fn is_empty(&self) -> bool {
        self.inner.is_empty()
    }
    fn len(&self) -> usize {
        self.inner.len()
    }
    fn subreader(&mut self, length: usize) -> Self {
        self.note("sub", length);
        Rec {
            inner: self.inner.subreader(length),
            log: self.log.clone(),
        }
    }
    fn bytes(&mut self, length: usize) -> Option<&'a [u8]> {
        self.log.borrow_mut().push(format!("bytes({})/{}", length, self.inner.len()));
        self.inner.bytes(length)
    }
    unsafe fn read_u8_unchecked(&mut self) -> u8 {
        self.note("u8", 1);
        self.inner.read_u8_unchecked()
    }
    unsafe fn read_u16_be_unchecked(&mut self) -> u16 {
        self.note("u16", 2);
        self.inner.read_u16_be_unchecked()
    }
    unsafe fn read_u32_be_unchecked(&mut self) -> u32 {
        self.note("u32", 4);
        self.inner.read_u32_be_unchecked()
    }
    unsafe fn read_u64_be_unchecked(&mut self) -> u64 {
        self.note("u64", 8);
        self.inner.read_u64_be_unchecked()
    }
    fn skip_bytes(&mut self, length: usize) {
        self.note("skip", length);
        self.inner.skip_bytes(length)
    }
}

#[test]
fn payload_with_length_field_is_taken_from_a_subreader() {
    let input = [
        0x42, 0x20, // flags: L + O, version 2
        0x00, 0x0d, // Length = 13
        0x12, 0x34, // tunnel id
        0x56, 0x78, // session id
        0x00, 0x01, // Offset Size = 1
        0x00, // offset padding
        0xaa, 0xbb, // payload
        0xcc, 0xdd, 0xee, // octets of the next message
    ];
    let mut r = Rec::new(&input);
    let m = Message::try_read(&mut r).unwrap();
    match m {
        Message::Data(d) => {
            assert_eq!(d.length, Some(13));
            assert_eq!(d.data, &[0xaa, 0xbb][..]);
        }
        _ => panic!("not a data message"),
    }
    // exactly the declared length consumed
    assert_eq!(r.len(), 3);
    let log = r.log.borrow().join(",");
    // the final bytes(2) request is served by a reader holding 2 octets (the sub-range),
    // not by the message reader that still holds 5.
    assert_eq!(
        log,
        "u16(2),u16(2),u16(2),u16(2),u16(2),skip(1),sub(2),bytes(2)/2"
    );
}

#[test]
fn payload_without_length_field_is_taken_from_a_subreader() {
    let input = [0x00, 0x20, 0x12, 0x34, 0x56, 0x78, 0xaa, 0xbb, 0xcc];
    let mut r = Rec::new(&input);
    let m = Message::try_read(&mut r).unwrap();
    match m {
        Message::Data(d) => assert_eq!(d.data, &[0xaa, 0xbb, 0xcc][..]),
        _ => panic!("not a data message"),
    }
    assert_eq!(r.len(), 0);
    let log = r.log.borrow().join(",");
    assert_eq!(log, "u16(2),u16(2),u16(2),sub(3),bytes(3)/3");
}
