// Contract monitors: harness-supplied implementations of the crate's public Reader / Writer
// traits that check every call against the trait contract before serving it.
use rl2tp::common::{Reader, Writer};
use std::cell::RefCell;
use std::collections::VecDeque;
use std::rc::Rc;

/// Raised with panic_any when the decoder issues a request whose precondition does not hold.
#[derive(Debug, Clone)]
pub struct ContractViolation {
    pub method: &'static str,
    pub requested: usize,
    pub remaining: usize,
}

pub const METHODS: [&str; 6] = ["subreader", "skip", "u8", "u16", "u32", "u64"];

#[derive(Default, Debug, Clone)]
pub struct Log {
    pub calls: u64,
    /// per method: (calls, minimum slack remaining - requested)
    pub per: [(u64, usize); 6],
    pub bytes_calls: u64,
    pub bytes_refused: u64,
}

impl Log {
    pub fn new() -> Self {
        Log { calls: 0, per: [(0, usize::MAX); 6], bytes_calls: 0, bytes_refused: 0 }
    }
}

pub struct MonReader<'a> {
    d: &'a [u8],
    log: Rc<RefCell<Log>>,
}

impl<'a> MonReader<'a> {
    pub fn new(d: &'a [u8]) -> (Self, Rc<RefCell<Log>>) {
        let l = Rc::new(RefCell::new(Log::new()));
        (MonReader { d, log: l.clone() }, l)
    }
    fn need(&self, m: usize, n: usize) {
        let mut l = self.log.borrow_mut();
        l.calls += 1;
        if n > self.d.len() {
            drop(l);
            std::panic::panic_any(ContractViolation { method: METHODS[m], requested: n, remaining: self.d.len() });
        }
        let s = self.d.len() - n;
        l.per[m].0 += 1;
        if s < l.per[m].1 {
            l.per[m].1 = s;
        }
    }
    fn take(&mut self, n: usize) -> &'a [u8] {
        let (a, b) = self.d.split_at(n);
        self.d = b;
        a
    }
}

impl<'a> Reader<&'a [u8]> for MonReader<'a> {
    fn is_empty(&self) -> bool {
        self.d.is_empty()
    }
    fn len(&self) -> usize {
        self.d.len()
    }
    fn subreader(&mut self, n: usize) -> Self {
        self.need(0, n);
        let a = self.take(n);
        MonReader { d: a, log: self.log.clone() }
    }
    fn bytes(&mut self, n: usize) -> Option<&'a [u8]> {
        let mut l = self.log.borrow_mut();
        l.bytes_calls += 1;
        if n > self.d.len() {
            l.bytes_refused += 1;
            return None;
        }
        drop(l);
        Some(self.take(n))
    }
    unsafe fn read_u8_unchecked(&mut self) -> u8 {
        self.need(2, 1);
        self.take(1)[0]
    }
    unsafe fn read_u16_be_unchecked(&mut self) -> u16 {
        self.need(3, 2);
        u16::from_be_bytes(self.take(2).try_into().unwrap())
    }
    unsafe fn read_u32_be_unchecked(&mut self) -> u32 {
        self.need(4, 4);
        u32::from_be_bytes(self.take(4).try_into().unwrap())
    }
    unsafe fn read_u64_be_unchecked(&mut self) -> u64 {
        self.need(5, 8);
        u64::from_be_bytes(self.take(8).try_into().unwrap())
    }
    fn skip_bytes(&mut self, n: usize) {
        self.need(1, n);
        self.take(n);
    }
}

/// A second conforming reader with a different `T` (owned Vec<u8>) and different storage.
pub struct OwnedReader {
    d: VecDeque<u8>,
}
impl OwnedReader {
    pub fn new(d: &[u8]) -> Self {
        OwnedReader { d: d.iter().copied().collect() }
    }
    fn take(&mut self, m: &'static str, n: usize) -> Vec<u8> {
        if n > self.d.len() {
            std::panic::panic_any(ContractViolation { method: m, requested: n, remaining: self.d.len() });
        }
        self.d.drain(..n).collect()
    }
}
impl Reader<Vec<u8>> for OwnedReader {
    fn is_empty(&self) -> bool {
        self.d.is_empty()
    }
    fn len(&self) -> usize {
        self.d.len()
    }
    fn subreader(&mut self, n: usize) -> Self {
        OwnedReader { d: self.take("subreader", n).into() }
    }
    fn bytes(&mut self, n: usize) -> Option<Vec<u8>> {
        if n > self.d.len() {
            None
        } else {
            Some(self.take("bytes", n))
        }
    }
    unsafe fn read_u8_unchecked(&mut self) -> u8 {
        self.take("u8", 1)[0]
    }
    unsafe fn read_u16_be_unchecked(&mut self) -> u16 {
        u16::from_be_bytes(self.take("u16", 2).try_into().unwrap())
    }
    unsafe fn read_u32_be_unchecked(&mut self) -> u32 {
        u32::from_be_bytes(self.take("u32", 4).try_into().unwrap())
    }
    unsafe fn read_u64_be_unchecked(&mut self) -> u64 {
        u64::from_be_bytes(self.take("u64", 8).try_into().unwrap())
    }
    fn skip_bytes(&mut self, n: usize) {
        self.take("skip", n);
    }
}

// ---------------------------------------------------------------- writer monitor

#[derive(Debug, Clone)]
pub struct Overwrite {
    pub offset: usize,
    pub len: usize,
    pub writer_len: usize,
}

/// A Writer that records every positional overwrite together with the writer length at that time.
/// It applies overwrites itself (bounds-checked), independent of VecWriter.
#[derive(Default)]
pub struct MonWriter {
    pub data: Vec<u8>,
    /// number of octets the writer holds *before* `data` without storing them (a writer that is already 4 GiB into a
    /// stream, say): positions reported and accepted are `base + index into data`
    pub base: usize,
    pub overwrites: Vec<Overwrite>,
    /// an overwrite that did not lie inside the written data (recorded, not applied)
    pub out_of_range: Vec<Overwrite>,
    /// an overwrite that landed in the implicit first `base` octets (recorded, not applied)
    pub into_base: Vec<Overwrite>,
    /// a journalling writer: every append also encodes a small AVP with the crate into a private side buffer (re-entrancy)
    pub reentrant: bool,
    pub journal: Vec<u8>,
}

impl MonWriter {
    pub fn with_prefix(p: &[u8]) -> Self {
        MonWriter { data: p.to_vec(), ..Default::default() }
    }
    pub fn with_virtual_base(base: usize, p: &[u8]) -> Self {
        MonWriter { data: p.to_vec(), base, ..Default::default() }
    }
    fn journal_entry(&mut self, n: usize) {
        if self.reentrant {
            // re-entrant use of the crate from inside a Writer method
            let mut side = rl2tp::common::VecWriter::new();
            rl2tp::avp::AVP::FirmwareRevision((n as u16).into()).write(&mut side);
            self.journal.extend_from_slice(&side.data);
        }
    }
}

impl Writer for MonWriter {
    fn is_empty(&self) -> bool {
        self.data.is_empty()
    }
    fn len(&self) -> usize {
        self.base + self.data.len()
    }
    fn write_bytes(&mut self, bytes: &[u8]) {
        self.journal_entry(bytes.len());
        self.data.extend_from_slice(bytes);
    }
    fn write_bytes_at(&mut self, bytes: &[u8], offset: usize) {
        let total = self.base + self.data.len();
        let ow = Overwrite { offset, len: bytes.len(), writer_len: total };
        if offset < self.base {
            self.into_base.push(ow);
            return;
        }
        match offset.checked_add(bytes.len()) {
            Some(end) if end <= total => {
                let (a, b) = (offset - self.base, end - self.base);
                self.data[a..b].copy_from_slice(bytes);
                self.overwrites.push(ow);
            }
            _ => self.out_of_range.push(ow),
        }
    }
    fn write_u8(&mut self, value: u8) {
        self.journal_entry(1);
        self.data.push(value);
    }
    fn write_u16_be(&mut self, value: u16) {
        self.journal_entry(2);
        self.data.extend_from_slice(&value.to_be_bytes());
    }
    fn write_u32_be(&mut self, value: u32) {
        self.journal_entry(4);
        self.data.extend_from_slice(&value.to_be_bytes());
    }
    fn write_u64_be(&mut self, value: u64) {
        self.journal_entry(8);
        self.data.extend_from_slice(&value.to_be_bytes());
    }
}

// ---------------------------------------------------------------- a writer that keeps only the head of what it is given

/// A conforming Writer that stores the first `keep` octets and counts the rest (a writer streaming to a socket or file keeps
/// no copy either). Appending a slice of several GiB costs nothing, so values far beyond every wire limit can be offered to
/// the encoder. Positional overwrites inside the kept head are applied, others are recorded.
pub struct SparseWriter {
    pub head: Vec<u8>,
    pub keep: usize,
    pub total: usize,
    pub overwrites: Vec<Overwrite>,
    pub out_of_range: Vec<Overwrite>,
}

impl SparseWriter {
    pub fn new(keep: usize) -> Self {
        SparseWriter { head: Vec::new(), keep, total: 0, overwrites: Vec::new(), out_of_range: Vec::new() }
    }
    fn push(&mut self, b: &[u8]) {
        if self.head.len() < self.keep {
            let n = (self.keep - self.head.len()).min(b.len());
            self.head.extend_from_slice(&b[..n]);
        }
        self.total += b.len();
    }
}

impl Writer for SparseWriter {
    fn is_empty(&self) -> bool {
        self.total == 0
    }
    fn len(&self) -> usize {
        self.total
    }
    fn write_bytes(&mut self, bytes: &[u8]) {
        self.push(bytes)
    }
    fn write_bytes_at(&mut self, bytes: &[u8], offset: usize) {
        let ow = Overwrite { offset, len: bytes.len(), writer_len: self.total };
        match offset.checked_add(bytes.len()) {
            Some(end) if end <= self.total => {
                if end <= self.head.len() {
                    self.head[offset..end].copy_from_slice(bytes);
                }
                self.overwrites.push(ow);
            }
            _ => self.out_of_range.push(ow),
        }
    }
    fn write_u8(&mut self, value: u8) {
        self.push(&[value])
    }
    fn write_u16_be(&mut self, value: u16) {
        self.push(&value.to_be_bytes())
    }
    fn write_u32_be(&mut self, value: u32) {
        self.push(&value.to_be_bytes())
    }
    fn write_u64_be(&mut self, value: u64) {
        self.push(&value.to_be_bytes())
    }
}

// ---------------------------------------------------------------- a reader whose bytes() may decline

/// The trait lets `bytes(n)` return None (a scatter/gather or ring-buffer reader may hold the octets without being able
/// to lend them contiguously). FlakyReader serves everything like a slice cursor but declines the k-th `bytes` call
/// (k counted over the reader and all its sub-readers). Decoding through it must still end in Ok or Err, never in a panic.
pub struct FlakyReader<'a> {
    d: &'a [u8],
    st: Rc<RefCell<(u64, u64)>>, // (bytes calls so far, index of the call to decline)
}

impl<'a> FlakyReader<'a> {
    pub fn new(d: &'a [u8], decline_at: u64) -> Self {
        FlakyReader { d, st: Rc::new(RefCell::new((0, decline_at))) }
    }
    pub fn declined(&self) -> bool {
        let s = self.st.borrow();
        s.0 > s.1
    }
    fn take(&mut self, m: &'static str, n: usize) -> &'a [u8] {
        if n > self.d.len() {
            std::panic::panic_any(ContractViolation { method: m, requested: n, remaining: self.d.len() });
        }
        let (a, b) = self.d.split_at(n);
        self.d = b;
        a
    }
}

impl<'a> Reader<&'a [u8]> for FlakyReader<'a> {
    fn is_empty(&self) -> bool {
        self.d.is_empty()
    }
    fn len(&self) -> usize {
        self.d.len()
    }
    fn subreader(&mut self, n: usize) -> Self {
        let a = self.take("subreader", n);
        FlakyReader { d: a, st: self.st.clone() }
    }
    fn bytes(&mut self, n: usize) -> Option<&'a [u8]> {
        let mut s = self.st.borrow_mut();
        let idx = s.0;
        s.0 += 1;
        if idx == s.1 || n > self.d.len() {
            return None;
        }
        drop(s);
        Some(self.take("bytes", n))
    }
    unsafe fn read_u8_unchecked(&mut self) -> u8 {
        self.take("u8", 1)[0]
    }
    unsafe fn read_u16_be_unchecked(&mut self) -> u16 {
        u16::from_be_bytes(self.take("u16", 2).try_into().unwrap())
    }
    unsafe fn read_u32_be_unchecked(&mut self) -> u32 {
        u32::from_be_bytes(self.take("u32", 4).try_into().unwrap())
    }
    unsafe fn read_u64_be_unchecked(&mut self) -> u64 {
        u64::from_be_bytes(self.take("u64", 8).try_into().unwrap())
    }
    fn skip_bytes(&mut self, n: usize) {
        self.take("skip", n);
    }
}
