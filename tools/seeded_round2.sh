#!/bin/bash
# confirm and measure the 60 round-2 changes: owning check + a few broad ones
cd "$(dirname "$0")/.." || exit 2
for i in 01 02 03 04 05 06 07 08 09 10 11 12 13 14 15 16 17 18 19 20; do
  for x in a b c; do
    id=C$i
    checks=$(echo "$id C01 C05 C06 C12 C19" | tr ' ' '\n' | awk '!seen[$0]++' | tr '\n' ' ')
    SEEDED_SRC=/nonexistent SEEDED_NAME=R2-$id-$x SEEDED_CHECKS="$checks" tools/seeded.sh $id $x 2>&1 | grep -E "confirmed=|CAUGHT|OTHER|^  C"
  done
done
