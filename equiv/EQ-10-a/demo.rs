// Demo for change `a`: an oversize AVP is refused BEFORE the writer is touched.
//
// With the change: the panic happens before any octet is written, so a writer
// that survives the unwinding still holds exactly what it held before, and
// the panic carries an explicit message naming the size.
// Without the change: the dummy header, the vendor id, the attribute type and
// the whole payload have already been appended when the assertion in
// make_flags_and_length fires.

use rl2tp::avp::types::{HostName, MessageType};
use rl2tp::avp::AVP;
use rl2tp::common::{SliceReader, VecWriter, Writer};
use rl2tp::{ControlMessage, Message};
use std::panic::{catch_unwind, AssertUnwindSafe};

fn panic_text(payload: Box<dyn std::any::Any + Send>) -> String {
    if let Some(s) = payload.downcast_ref::<String>() {
        s.clone()
    } else if let Some(s) = payload.downcast_ref::<&'static str>() {
        (*s).to_owned()
    } else {
        String::new()
    }
}

#[test]
fn oversize_avp_is_refused_before_anything_is_written() {
    std::panic::set_hook(Box::new(|_| {}));

    // 6 + 1018 = 1024 octets: one more than the 10-bit length field can say
    let avp = AVP::HostName(HostName {
        value: vec![0x41; 1018],
    });

    let mut w = VecWriter::new();
    w.write_bytes(b"prefix");
    let result = catch_unwind(AssertUnwindSafe(|| avp.write(&mut w)));
    let text = panic_text(result.expect_err("an oversize AVP must be refused"));

    // The writer is exactly as it was
    assert_eq!(w.data, b"prefix".to_vec());
    assert!(text.contains("1024 octets"), "panic message was: {text}");

    // Inside a control message the refusal leaves the header and the earlier AVP only
    let msg = Message::<Vec<u8>>::Control(ControlMessage {
        length: 0,
        tunnel_id: 1,
        session_id: 2,
        ns: 3,
        nr: 4,
        avps: vec![
            AVP::MessageType(MessageType::Hello),
            AVP::HostName(HostName {
                value: vec![0x42; 5000],
            }),
        ],
    });
    let mut w = VecWriter::new();
    let result = catch_unwind(AssertUnwindSafe(|| msg.write(&mut w)));
    assert!(result.is_err());
    assert_eq!(w.data.len(), 12 + 8);

    // The largest encodable AVP is untouched by the change
    let avp = AVP::HostName(HostName {
        value: vec![0x43; 1017],
    });
    let mut w = VecWriter::new();
    avp.write(&mut w);
    assert_eq!(w.data.len(), 1023);
    assert_eq!(&w.data[..6], &[0xc1, 0xff, 0x00, 0x00, 0x00, 0x07]);
    let decoded = AVP::try_read_greedy(&mut SliceReader::from(&w.data));
    assert_eq!(decoded, vec![Ok(avp)]);
}
