//! Demo for change `c`: `DecodeError` has a hand-written `Debug` (qualified variant name,
//! labelled payload) and a hand-written, equivalent `PartialEq`.
//! Passes with the change, fails on the unmodified crate (derived `IncompleteAVP(7)` style).

use rl2tp::common::{DecodeError, SliceReader};
use rl2tp::Message;

#[test]
fn debug_text_is_qualified_and_labelled() {
    assert_eq!(
        format!("{:?}", DecodeError::IncompleteAVP(7)),
        "DecodeError::IncompleteAVP { attribute_type: 7 }"
    );
    assert_eq!(
        format!("{:?}", DecodeError::InvalidVersion(3)),
        "DecodeError::InvalidVersion { version: 3 }"
    );
    assert_eq!(
        format!("{:?}", DecodeError::UnknownMessageType(65535)),
        "DecodeError::UnknownMessageType { code: 65535 }"
    );
    assert_eq!(
        format!("{:?}", DecodeError::ControlMessageTypeNotFirst),
        "DecodeError::ControlMessageTypeNotFirst"
    );
    assert_eq!(
        format!(
            "{:?}",
            vec![DecodeError::UnsupportedVendorId(9), DecodeError::IncompleteFlags]
        ),
        "[DecodeError::UnsupportedVendorId { vendor_id: 9 }, DecodeError::IncompleteFlags]"
    );

    // From an actual decode: version nibble 3 in an otherwise fine ZLB.
    let bytes = [0x13u8, 0x30, 0, 12, 0, 1, 0, 2, 0, 3, 0, 4];
    let mut r = SliceReader::from(&bytes[..]);
    let err = Message::<&[u8]>::try_read(&mut r).unwrap_err();
    assert_eq!(
        format!("{:?}", err),
        "[DecodeError::InvalidVersion { version: 3 }]"
    );
}

#[test]
fn display_and_equality_unchanged() {
    // Display (the rendering the crate promises) is untouched.
    assert_eq!(
        DecodeError::IncompleteAVP(7).to_string(),
        "Incomplete AVP (HostName)"
    );
    assert_eq!(
        DecodeError::InvalidUtf8(20).to_string(),
        "AVP (20) with invalid UTF-8 string payload"
    );
    assert_eq!(
        DecodeError::InvalidVersion(3).to_string(),
        "Message with invalid version field (3)"
    );

    // Equality: same variant and same carried value, nothing else.
    assert!(DecodeError::IncompleteAVP(7) == DecodeError::IncompleteAVP(7));
    assert!(DecodeError::IncompleteAVP(7) != DecodeError::IncompleteAVP(8));
    assert!(DecodeError::IncompleteAVP(7) != DecodeError::InvalidUtf8(7));
    assert!(DecodeError::IncompleteAVP(7) != DecodeError::AVPReadError(7));
    assert!(DecodeError::InvalidVersion(7) != DecodeError::UnknownAvp(7));
    assert!(DecodeError::EmptyHiddenAVP == DecodeError::EmptyHiddenAVP);
    assert!(DecodeError::EmptyHiddenAVP != DecodeError::MisalignedHiddenAVP);
    assert!(DecodeError::InvalidOffset(0) != DecodeError::IncompleteFlags);

    // The decoder reports the same error values as before.
    let mut r = SliceReader::from(&[0x13u8][..]);
    assert!(Message::<&[u8]>::try_read(&mut r) == Err(vec![DecodeError::IncompleteFlags]));
    // Control message, first AVP is a MessageType with unassigned code 5.
    let bytes = [
        0x13u8, 0x20, 0, 20, 0, 1, 0, 2, 0, 3, 0, 4, 0x01, 8, 0, 0, 0, 0, 0, 5,
    ];
    let mut r = SliceReader::from(&bytes[..]);
    let got = Message::<&[u8]>::try_read(&mut r);
    assert!(got == Err(vec![DecodeError::ControlMessageTypeNotFirst]));
}
