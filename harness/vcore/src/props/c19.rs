// C19 — the codec is pure: nothing on stdout/stderr, no state between calls, same result on every thread.
use crate::capture::Capture;
use crate::cx::*;
use crate::gen::*;
use crate::glue::*;
use crate::prop::*;
use crate::spec::*;
use rl2tp::avp::AVP;
use serde_json::{json, Value};
use std::sync::Arc;

pub static DEF: PropDef = PropDef {
    id: "C19",
    title: "The codec is pure",
    rule: "Call histories of 200..1200 calls over a pool of 8..24 generated operations: message decode under any options (G-wire inputs, accepted control messages with several AVPs always among them), bare \
AVP-list decode, message / AVP encode, hide, reveal, and rendering of the returned errors; half of the pools contain the same hidden value revealed (and the same AVP hidden) under related secrets, a third a control message with 65..104 undecodable records. (silence) while the history runs, file descriptors 1 and 2 of the process are redirected to a memory file (in a third of the histories to a pseudo-terminal): any octet \
captured is a violation, and the offending call is isolated by re-running the distinct operations one at a time. (history independence) every call in a random order with repetitions returns the result \
it returned in the canonical first pass. (threads) 8 threads run different orders concurrently and every result equals the single-threaded one. (caller contexts) in a quarter of the histories every operation is also called from a destructor \
while the thread unwinds and from thread-local destructors at the exit of a fresh thread: same results. Non-trivial = the history contains an accepted control message \
with at least one AVP and at least 2 distinct kinds of call; distinct by hash of the pool.",
    assumptions: &[
        "thread schedules are whatever the OS produces; the harness does not own the schedule (the crate uses no synchronisation primitive and no shared mutable state that a controlled scheduler could intercept)",
        "oversize encodes (which are specified to panic) are not part of the histories; the harness's panic hook is silent",
    ],
    parts,
    run_tape,
    run_enum: no_enum,
    run_concrete,
    both_profiles: true,
    exhaustive_note: "",
};

fn parts(t: Tier) -> Vec<Part> {
    let a = match t {
        Tier::Quick => 4_800,
        Tier::Thorough => 60_000,
    };
    vec![tape("histories", a, 4000)]
}

#[derive(Clone, Debug)]
pub enum Op {
    Decode(Vec<u8>, Opts),
    DecodeAvps(Vec<u8>),
    EncodeMsg(SMsg),
    EncodeAvp(SAvp),
    Hide(SAvp, Vec<u8>, [u8; 4], Vec<u8>),
    Reveal(u16, Vec<u8>, Vec<u8>, [u8; 4]),
}

impl Op {
    fn kind(&self) -> u8 {
        match self {
            Op::Decode(..) => 0,
            Op::DecodeAvps(..) => 1,
            Op::EncodeMsg(..) => 2,
            Op::EncodeAvp(..) => 3,
            Op::Hide(..) => 4,
            Op::Reveal(..) => 5,
        }
    }
    pub fn describe(&self) -> String {
        match self {
            Op::Decode(b, o) => format!("decode({}, [{}])", hex_short(b), opts_str(*o)),
            Op::DecodeAvps(b) => format!("decode_avps({})", hex_short(b)),
            Op::EncodeMsg(m) => format!("encode({:?})", crate::props::c04::short(m)).chars().take(300).collect(),
            Op::EncodeAvp(a) => format!("encode({:?})", crate::props::c07_abbrev(a)),
            Op::Hide(a, s, _, lp) => format!("hide({:?}, secret {} octets, lp {} octets)", crate::props::c07_abbrev(a), s.len(), lp.len()),
            Op::Reveal(t, v, s, _) => format!("reveal(type {}, value {}, secret {} octets)", t, hex_short(v), s.len()),
        }
    }
    /// run the call; the result is rendered to a string (value or error list, plus the errors' Display text)
    pub fn run(&self) -> String {
        let r = guard(|| match self {
            Op::Decode(b, o) => match crate_decode(b, *o) {
                Caught::Ok(Ok(v)) => format!("Ok({:?})", v),
                Caught::Ok(Err(e)) => format!("Err({:?}) [{}]", e, e.iter().map(|x| x.to_string()).collect::<Vec<_>>().join("; ")),
                _ => "panic".to_string(),
            },
            Op::DecodeAvps(b) => match crate_decode_avps(b) {
                Caught::Ok((v, left)) => format!("{:?} left {} [{}]", v, left, v.iter().filter_map(|x| x.as_ref().err()).map(|e| e.to_string()).collect::<Vec<_>>().join("; ")),
                _ => "panic".to_string(),
            },
            Op::EncodeMsg(m) => match crate_encode_msg(m) {
                Caught::Ok(e) => hex(&e),
                _ => "panic".to_string(),
            },
            Op::EncodeAvp(a) => match crate_encode_avp(a) {
                Caught::Ok(e) => hex(&e),
                _ => "panic".to_string(),
            },
            Op::Hide(a, s, rv, lp) => {
                let h = to_crate(a).hide(s, &(*rv).into(), lp, &[0x5a; 16]);
                format!("{:?}", from_crate(&h))
            }
            Op::Reveal(t, v, s, rv) => {
                let h = AVP::Hidden(rl2tp::avp::types::Hidden { attribute_type: *t, value: v.clone() });
                match h.reveal(s, &(*rv).into()) {
                    Ok(a) => format!("Ok({:?})", from_crate(&a)),
                    Err(e) => format!("Err({:?}) [{}]", e, e),
                }
            }
        });
        match r {
            Caught::Ok(s) => s,
            _ => "panic".to_string(),
        }
    }
}

pub fn gen_pool(t: &mut Tape) -> Vec<Op> {
    let n = 8 + t.below(17);
    let mut pool = Vec::new();
    // always: an accepted control message with several AVPs, decoded under two option sets
    let k = 2 + t.below(5);
    let m = gen_control_k(t, k);
    let e = encode_message(&m);
    pool.push(Op::Decode(e.clone(), STRICT));
    pool.push(Op::Decode(e, DEFAULT_OPTS));
    // a control message with more than 64 undecodable records carrying different values (long error lists)
    if t.chance(30) {
        let nb = 65 + t.below(40);
        let mut body = Vec::new();
        encode_avp(&msg_type_avp(t), &mut body);
        for i in 0..nb {
            let v = (i + 1) as u16;
            body.extend_from_slice(&[0x01, 0x06]);
            body.extend_from_slice(&v.to_be_bytes());
            body.extend_from_slice(&[0, 7]);
        }
        pool.push(Op::Decode(control_around(t, &body), STRICT));
    }
    // the same hidden value revealed under related secrets (a weak cache key would confuse them)
    if t.chance(50) {
        let h = gen_hide(t);
        let v = hide(h.avp.attr, &h.payload, &h.secret, &h.rv, &h.lp, &h.ap);
        let s2 = related_secret_for(t, &h.secret, Some(h.avp.attr.to_be_bytes()));
        let s3 = related_secret_for(t, &h.secret, Some(h.avp.attr.to_be_bytes()));
        pool.push(Op::Reveal(h.avp.attr, v.clone(), h.secret.clone(), h.rv));
        pool.push(Op::Reveal(h.avp.attr, v.clone(), s2.clone(), h.rv));
        pool.push(Op::Reveal(h.avp.attr, v, s3, h.rv));
        pool.push(Op::Hide(h.avp.clone(), h.secret.clone(), h.rv, h.lp.clone()));
        pool.push(Op::Hide(h.avp, s2, h.rv, h.lp));
    }
    // two accepted messages that an FNV-1a-32 digest of a natural region cannot tell apart (a memo keyed by a weak digest)
    if t.chance(8) {
        if let Some((b1, b2, _)) = fnv_twin_messages(t) {
            pool.push(Op::Decode(b1, STRICT));
            pool.push(Op::Decode(b2, STRICT));
        }
    }
    while pool.len() < n {
        let op = match t.below(9) {
            0 | 1 => {
                let b = gen_wire(t);
                Op::Decode(b, all_opts()[t.below(8)])
            }
            2 => {
                let (b, o, _, _) = encode_noncanon(t);
                Op::Decode(b, o)
            }
            3 => {
                let mut b = Vec::new();
                let k = 1 + t.below(4);
                for _ in 0..k {
                    gen_record(t, &mut b);
                }
                Op::DecodeAvps(b)
            }
            4 => Op::EncodeMsg(if t.chance(50) {
                let k = t.below(5);
                gen_control_k(t, k)
            } else {
                gen_data_small(t)
            }),
            5 => Op::EncodeAvp(gen_avp(t)),
            6 => {
                let attr = ASSIGNED[t.below(39)];
                let a = SAvp { attr, hidden: false, body: gen_body_max(t, attr, 100) };
                let sl = t.below(12);
                let s = t.blob(sl);
                let ll = t.below(20);
                Op::Hide(a, s, t.u32().to_be_bytes(), t.blob(ll))
            }
            _ => {
                let h = gen_hidden(t);
                Op::Reveal(h.attr, h.value, h.secret, h.rv)
            }
        };
        pool.push(op);
    }
    pool
}

fn check(t: &mut Tape, cx: &mut Cx) -> Res {
    cx.eval();
    // decisions first, so that a short tape still reaches every mode; the call order is a pure function of a tape-drawn seed
    let threaded = t.chance(50);
    let contexts = t.chance(25);
    let calls = 200 + t.below(1001);
    let mut seed = t.u64() | 1;
    let mut next = move |n: usize| -> usize {
        seed ^= seed << 13;
        seed ^= seed >> 7;
        seed ^= seed << 17;
        ((seed >> 11) % n as u64) as usize
    };
    let pool = gen_pool(t);
    let order: Vec<usize> = (0..calls).map(|_| next(pool.len())).collect();
    let render = |extra: Value| json!({"pool": pool.iter().map(|o| o.describe()).collect::<Vec<_>>(), "calls": calls, "detail": extra});

    // a process death here is a crash of the codec, which C01/C02/C13 report; purity is about output and results
    cx.stage(STAGE_UNATTRIBUTED);
    // (silence) + canonical pass + history pass, all under capture
    // in a third of the histories fds 1 and 2 are a pseudo-terminal instead of a memory file (a library that prints only
    // when attached to a terminal); if no pty can be had the memory file is used
    let want_pty = next(3) == 0;
    let cap = match if want_pty { Capture::start_pty().or_else(Capture::start) } else { Capture::start() } {
        Some(c) => c,
        None => return fail("harness: could not redirect fds 1/2", json!({"harness_bug": true})),
    };
    if want_pty {
        cx.class("history run with fds 1 and 2 on a pseudo-terminal (if one was available)");
    }
    let canonical: Vec<String> = pool.iter().map(|o| o.run()).collect();
    let mut mismatch: Option<(usize, usize, String)> = None;
    for (pos, &i) in order.iter().enumerate() {
        let r = pool[i].run();
        if r != canonical[i] && mismatch.is_none() {
            mismatch = Some((pos, i, r));
        }
    }
    // (caller contexts) in a quarter of the histories every operation of the pool is also called from a destructor while the
    // thread unwinds, and from thread-local destructors at the exit of a fresh thread (before and after that thread's own calls)
    let mut ctx_mismatch: Option<(&'static str, usize, String)> = None;
    if contexts {
        for (i, o) in pool.iter().enumerate() {
            let r = match crate::props::history::while_unwinding(|| o.run()) {
                Caught::Ok(s) => s,
                _ => "panic".to_string(),
            };
            if r != canonical[i] && ctx_mismatch.is_none() {
                ctx_mismatch = Some(("from a destructor while the calling thread unwinds", i, r));
            }
        }
        let p = Arc::new(pool.clone());
        let f: Arc<dyn Fn() -> Vec<String> + Send + Sync> = Arc::new(move || p.iter().map(|o| o.run()).collect());
        if let Some(rs) = crate::props::history::at_thread_exit(f) {
            for (k, r) in rs.into_iter().enumerate() {
                for (i, x) in r.into_iter().enumerate() {
                    if x != canonical[i] && ctx_mismatch.is_none() {
                        ctx_mismatch = Some((["on a fresh thread", "from a thread-local destructor at thread exit (registered before the thread's own calls)", "from a thread-local destructor at thread exit (registered after the thread's own calls)"][k], i, x));
                    }
                }
            }
            cx.class("pool also run while unwinding and from thread-local destructors at thread exit");
            cx.evals_n(4);
        }
    }
    let out = cap.finish();
    if !out.is_empty() {
        // isolate the offending call
        let mut culprit = None;
        for (i, o) in pool.iter().enumerate() {
            if let Some(c) = if want_pty { Capture::start_pty().or_else(Capture::start) } else { Capture::start() } {
                let _ = o.run();
                let w = c.finish();
                if !w.is_empty() {
                    culprit = Some((i, w));
                    break;
                }
            }
        }
        let (who, what) = match &culprit {
            Some((i, w)) => (pool[*i].describe(), String::from_utf8_lossy(&w[..w.len().min(200)]).to_string()),
            None => ("(not reproducible call by call)".to_string(), String::from_utf8_lossy(&out[..out.len().min(200)]).to_string()),
        };
        return fail(
            format!("the library wrote {} octets to stdout/stderr during the history; offending call: {}", out.len(), who),
            render(json!({"captured_prefix": what, "offending_call": who})),
        );
    }
    if let Some((pos, i, r)) = mismatch {
        return fail(
            format!("call #{} of the history ({}) returned a different result than in the canonical pass", pos, pool[i].describe()),
            render(json!({"canonical": canonical[i].chars().take(400).collect::<String>(), "in_history": r.chars().take(400).collect::<String>()})),
        );
    }
    if let Some((how, i, r)) = ctx_mismatch {
        return fail(
            format!("called {}, {} returned a different result than in the canonical pass", how, pool[i].describe()),
            render(json!({"canonical": canonical[i].chars().take(400).collect::<String>(), "in_context": r.chars().take(400).collect::<String>()})),
        );
    }
    // (threads)
    if threaded {
        let nthreads = 8;
        let pool_a = Arc::new(pool.clone());
        let canon_a = Arc::new(canonical.clone());
        let per = (calls / 4).max(50);
        let seeds: Vec<Vec<usize>> = (0..nthreads).map(|_| (0..per).map(|_| next(pool.len())).collect()).collect();
        let cap = Capture::start();
        let handles: Vec<_> = seeds
            .into_iter()
            .map(|ord| {
                let p = pool_a.clone();
                let c = canon_a.clone();
                std::thread::spawn(move || {
                    for (pos, i) in ord.into_iter().enumerate() {
                        let r = p[i].run();
                        if r != c[i] {
                            return Some((pos, i, r));
                        }
                    }
                    None
                })
            })
            .collect();
        let mut bad = None;
        for h in handles {
            match h.join() {
                Ok(Some(x)) => bad = Some(x),
                Ok(None) => {}
                Err(_) => bad = Some((0, 0, "thread panicked".to_string())),
            }
        }
        let out = cap.map(|c| c.finish()).unwrap_or_default();
        if let Some((pos, i, r)) = bad {
            return fail(
                format!("under 8 concurrent threads, call #{} ({}) returned a different result than single-threaded", pos, pool[i].describe()),
                render(json!({"canonical": canonical[i].chars().take(400).collect::<String>(), "threaded": r.chars().take(400).collect::<String>()})),
            );
        }
        if !out.is_empty() {
            return fail(format!("the library wrote {} octets to stdout/stderr while running on 8 threads", out.len()), render(json!({"captured_prefix": String::from_utf8_lossy(&out[..out.len().min(200)])})));
        }
        cx.class("history also run on 8 concurrent threads");
        cx.evals_n(8);
    }
    cx.stage(STAGE_SETUP);
    let kinds: std::collections::BTreeSet<u8> = pool.iter().map(|o| o.kind()).collect();
    let accepted_ctrl = canonical[0].starts_with("Ok(");
    if accepted_ctrl && kinds.len() >= 2 {
        cx.nontrivial(&pool.iter().map(|o| o.describe()).collect::<Vec<_>>());
    }
    cx.class_n("calls executed", (calls + pool.len()) as u64);
    cx.class(if accepted_ctrl { "history with an accepted control message with AVPs" } else { "history without an accepted control message" });
    cx.sample("histories", || json!({"pool": pool.iter().take(6).map(|o| o.describe()).collect::<Vec<_>>(), "pool_size": pool.len(), "calls": calls, "threads": if threaded { 8 } else { 1 }, "family": "histories"}));
    Ok(())
}

fn run_tape(_part: &str, tape: &[u8], cx: &mut Cx) -> Res {
    let mut t = Tape::new(tape);
    check(&mut t, cx)
}

fn run_concrete(case: &Value, cx: &mut Cx) -> Res {
    // {"input": hex}: decoding it under all 8 option sets must write nothing to fds 1/2
    match case.get("input").and_then(|x| x.as_str()).and_then(unhex) {
        Some(b) => {
            cx.eval();
            cx.stage(STAGE_ARMED);
            let cap = match Capture::start() {
                Some(c) => c,
                None => return fail("harness: could not redirect fds 1/2", json!({"harness_bug": true})),
            };
            for o in all_opts() {
                let _ = Op::Decode(b.clone(), o).run();
            }
            let out = cap.finish();
            if !out.is_empty() {
                return fail(format!("decoding wrote {} octets to stdout/stderr", out.len()), json!({"input": hex(&b), "captured_prefix": String::from_utf8_lossy(&out[..out.len().min(200)])}));
            }
            Ok(())
        }
        None => fail("bad concrete case", case.clone()),
    }
}
