use rl2tp::common::Reader;
use std::cell::RefCell;
use std::rc::Rc;

/// One entry per trait call issued by the crate.
#[allow(dead_code)]
#[derive(Clone, Debug, PartialEq, Eq)]
enum Call {
    IsEmpty { depth: usize },
    Len { depth: usize },
    Subreader { depth: usize, n: usize },
    Bytes { depth: usize, n: usize, served: bool },
    Skip { depth: usize, n: usize },
    U8 { depth: usize },
    U16 { depth: usize },
    U32 { depth: usize },
    U64 { depth: usize },
}

/// A bounds-checking reader over an owned buffer that hands out owned byte vectors (as a
/// scatter/gather reader has to). Every unchecked request is asserted to fit, `len()` is honest,
/// and a declined `bytes(n)` consumes nothing. `decline_from`: `bytes(n)` with `n >= decline_from`
/// is declined although `n` octets remain (`usize::MAX` = never decline, i.e. fully conforming).
struct TestReader {
    data: Rc<Vec<u8>>,
    pos: usize,
    end: usize,
    depth: usize,
    decline_from: usize,
    log: Rc<RefCell<Vec<Call>>>,
}

#[allow(dead_code)]
impl TestReader {
    fn new(data: &[u8], decline_from: usize) -> Self {
        Self {
            data: Rc::new(data.to_vec()),
            pos: 0,
            end: data.len(),
            depth: 0,
            decline_from,
            log: Rc::new(RefCell::new(Vec::new())),
        }
    }

    fn calls(&self) -> Vec<Call> {
        self.log.borrow().clone()
    }

    fn remaining(&self) -> usize {
        self.end - self.pos
    }

    fn take(&mut self, n: usize) -> &[u8] {
        assert!(n <= self.end - self.pos, "request outside the remaining octets");
        let start = self.pos;
        self.pos += n;
        &self.data[start..start + n]
    }
}

impl Reader<Vec<u8>> for TestReader {
    fn is_empty(&self) -> bool {
        self.log.borrow_mut().push(Call::IsEmpty { depth: self.depth });
        self.pos == self.end
    }

    fn len(&self) -> usize {
        self.log.borrow_mut().push(Call::Len { depth: self.depth });
        self.end - self.pos
    }

    fn subreader(&mut self, length: usize) -> Self {
        self.log.borrow_mut().push(Call::Subreader {
            depth: self.depth,
            n: length,
        });
        assert!(length <= self.end - self.pos, "subreader outside the remaining octets");
        let sub = Self {
            data: self.data.clone(),
            pos: self.pos,
            end: self.pos + length,
            depth: self.depth + 1,
            decline_from: self.decline_from,
            log: self.log.clone(),
        };
        self.pos += length;
        sub
    }

    fn bytes(&mut self, length: usize) -> Option<Vec<u8>> {
        let served = length <= self.end - self.pos && length < self.decline_from;
        self.log.borrow_mut().push(Call::Bytes {
            depth: self.depth,
            n: length,
            served,
        });
        if !served {
            return None;
        }
        Some(self.take(length).to_vec())
    }

    unsafe fn read_u8_unchecked(&mut self) -> u8 {
        self.log.borrow_mut().push(Call::U8 { depth: self.depth });
        self.take(1)[0]
    }

    unsafe fn read_u16_be_unchecked(&mut self) -> u16 {
        self.log.borrow_mut().push(Call::U16 { depth: self.depth });
        u16::from_be_bytes(self.take(2).try_into().unwrap())
    }

    unsafe fn read_u32_be_unchecked(&mut self) -> u32 {
        self.log.borrow_mut().push(Call::U32 { depth: self.depth });
        u32::from_be_bytes(self.take(4).try_into().unwrap())
    }

    unsafe fn read_u64_be_unchecked(&mut self) -> u64 {
        self.log.borrow_mut().push(Call::U64 { depth: self.depth });
        u64::from_be_bytes(self.take(8).try_into().unwrap())
    }

    fn skip_bytes(&mut self, length: usize) {
        self.log.borrow_mut().push(Call::Skip {
            depth: self.depth,
            n: length,
        });
        self.take(length);
    }
}

// ---------------------------------------------------------------------------------------------

use rl2tp::avp::{types, AVP};
use rl2tp::common::{DecodeError, SliceReader, VecWriter};
use rl2tp::{ControlMessage, Message};

fn encode_avps(avps: &[AVP]) -> Vec<u8> {
    let mut w = VecWriter::new();
    for a in avps {
        a.write(&mut w);
    }
    w.data
}

fn hidden_then_rws() -> Vec<AVP> {
    vec![
        AVP::Hidden(types::Hidden {
            attribute_type: 7,
            value: vec![0u8; 16],
        }),
        AVP::ReceiveWindowSize(types::ReceiveWindowSize { value: 0x1234 }),
    ]
}

/// A reader that serves every request (conforming): same result as SliceReader. Holds with and
/// without the change.
#[test]
fn conforming_reader_is_unaffected() {
    let avps = hidden_then_rws();
    let bytes = encode_avps(&avps);
    let mut r = TestReader::new(&bytes, usize::MAX);
    let got = AVP::try_read_greedy(&mut r);
    let want = AVP::try_read_greedy(&mut SliceReader::from(&bytes));
    assert_eq!(got, want);
    assert_eq!(got, avps.into_iter().map(Ok).collect::<Vec<_>>());
    assert_eq!(r.remaining(), 0);
}

/// The reader declines bytes(16) for the hidden value although 16 octets remain.
/// With the change: the list ends with AVPReadError(7) and parsing stops there.
/// Without it: an Ok(Hidden) with an empty value is fabricated and the hidden octets are then
/// parsed as AVP headers.
#[test]
fn declined_hidden_value_is_a_read_error_and_stops() {
    let bytes = encode_avps(&hidden_then_rws());
    let mut r = TestReader::new(&bytes, 1);
    let got = AVP::try_read_greedy(&mut r);
    assert_eq!(got, vec![Err(DecodeError::AVPReadError(7))]);
    // nothing was requested from the reader after the declined bytes(16)
    let calls = r.calls();
    assert_eq!(
        calls.last(),
        Some(&Call::Bytes {
            depth: 0,
            n: 16,
            served: false
        })
    );
    // header consumed, value and following AVP untouched
    assert_eq!(r.remaining(), bytes.len() - 6);
}

/// Same situation inside a control message: the error list names the read error.
#[test]
fn declined_hidden_value_in_control_message() {
    let mut avps = vec![AVP::MessageType(types::MessageType::Hello)];
    avps.extend(hidden_then_rws());
    let msg: Message<Vec<u8>> = Message::Control(ControlMessage {
        length: 0,
        tunnel_id: 1,
        session_id: 2,
        ns: 3,
        nr: 4,
        avps,
    });
    let mut w = VecWriter::new();
    msg.write(&mut w);

    // conforming: decodes
    let mut ok_reader = TestReader::new(&w.data, usize::MAX);
    assert!(Message::<Vec<u8>>::try_read(&mut ok_reader).is_ok());

    // declining: non-empty error list, naming the AVP whose value could not be read
    let mut r = TestReader::new(&w.data, 1);
    let got = Message::<Vec<u8>>::try_read(&mut r);
    assert_eq!(got, Err(vec![DecodeError::AVPReadError(7)]));
    // the message's octets are consumed as a whole regardless
    assert_eq!(r.remaining(), 0);
}
