// vf: driver for the rl2tp property checks.
//   vf supervise <ID> <quick|thorough> --bins vdbg=<path>,vrel=<path> --verif <dir> [--replay <file>]
//   vf shard ...      (child: one shard of a property's generated parts)
//   vf files ...      (child: run concrete / replay case files)
//   vf list           (print the property ids)
mod shard;
mod sup;

use std::path::PathBuf;
use vcore::prop::Tier;

fn arg_val(args: &[String], name: &str) -> Option<String> {
    args.iter().position(|a| a == name).and_then(|i| args.get(i + 1)).cloned()
}

fn parse_tier(s: &str) -> Tier {
    if s == "thorough" {
        Tier::Thorough
    } else {
        Tier::Quick
    }
}

fn main() {
    let args: Vec<String> = std::env::args().collect();
    let code = real_main(&args);
    std::process::exit(code);
}

fn real_main(args: &[String]) -> i32 {
    if args.len() < 2 {
        eprintln!("usage: vf supervise|shard|files|list ...");
        return 2;
    }
    match args[1].as_str() {
        "list" => {
            for p in vcore::prop::registry() {
                println!("{}", p.id);
            }
            0
        }
        "corpus" => {
            // vf corpus <bytes|tape> <dir> <n> <seed> [max_tape]: seed corpus for the libFuzzer targets
            if args.len() < 6 {
                eprintln!("usage: vf corpus <bytes|tape> <dir> <n> <seed> [max_tape]");
                return 2;
            }
            let kind = args[2].as_str();
            let dir = PathBuf::from(&args[3]);
            let n: u64 = args[4].parse().unwrap_or(100);
            let mut seed: u64 = args[5].parse::<u64>().unwrap_or(1).wrapping_mul(0x9E3779B97F4A7C15) | 1;
            let max_tape: usize = args.get(6).and_then(|x| x.parse().ok()).unwrap_or(900);
            let _ = std::fs::create_dir_all(&dir);
            let mut next = move || {
                seed ^= seed << 13;
                seed ^= seed >> 7;
                seed ^= seed << 17;
                seed
            };
            if kind == "bytes" {
                // the repository's own decode vectors are part of every seeded corpus
                for (i, v) in vcore::selftest::repo_vectors().iter().enumerate() {
                    let _ = std::fs::write(dir.join(format!("repo-vector-{:03}", i)), v);
                }
            }
            for i in 0..n {
                let len = (next() % (max_tape as u64 + 1)) as usize;
                let tape: Vec<u8> = (0..len).map(|_| (next() >> 24) as u8).collect();
                let data = if kind == "bytes" {
                    let mut t = vcore::gen::Tape::new(&tape);
                    if i % 3 == 0 {
                        vcore::gen::encode_noncanon(&mut t).0
                    } else {
                        vcore::gen::gen_wire(&mut t)
                    }
                } else {
                    tape
                };
                if data.len() <= 65536 {
                    let _ = std::fs::write(dir.join(format!("seed-{:05}", i)), &data);
                }
            }
            0
        }
        "selftest" => match vcore::selftest::run() {
            Ok(n) => {
                println!("selftest ok ({} checks)", n);
                0
            }
            Err(e) => {
                eprintln!("selftest FAILED: {}", e);
                2
            }
        },
        "shard" => {
            let a = shard::ShardArgs {
                prop: arg_val(args, "--prop").unwrap_or_default(),
                tier: parse_tier(&arg_val(args, "--tier").unwrap_or_default()),
                shard: arg_val(args, "--shard").and_then(|x| x.parse().ok()).unwrap_or(0),
                nshards: arg_val(args, "--nshards").and_then(|x| x.parse().ok()).unwrap_or(1),
                seed: arg_val(args, "--seed").and_then(|x| x.parse().ok()).unwrap_or(0),
                scratch: arg_val(args, "--scratch"),
                out: arg_val(args, "--out").unwrap_or_else(|| "/dev/stdout".into()),
                resume_after: arg_val(args, "--resume-after").and_then(|x| x.parse().ok()),
                known: arg_val(args, "--known").map(|s| s.split(',').filter(|x| !x.is_empty()).map(|x| x.to_string()).collect()).unwrap_or_default(),
                scale_pct: arg_val(args, "--scale").and_then(|x| x.parse().ok()).unwrap_or(100),
            };
            shard::run_shard(a)
        }
        "files" => {
            let prop = arg_val(args, "--prop").unwrap_or_default();
            let scratch = arg_val(args, "--scratch");
            let out = arg_val(args, "--out").unwrap_or_else(|| "/dev/stdout".into());
            let strict = args.iter().any(|a| a == "--strict");
            let known: Vec<String> = arg_val(args, "--known").map(|s| s.split(',').filter(|x| !x.is_empty()).map(|x| x.to_string()).collect()).unwrap_or_default();
            let files: Vec<String> = match args.iter().position(|a| a == "--") {
                Some(i) => args[i + 1..].to_vec(),
                None => Vec::new(),
            };
            shard::run_files(&prop, &files, scratch.as_deref(), &out, strict, &known)
        }
        "supervise" => {
            if args.len() < 3 {
                eprintln!("usage: vf supervise <ID> <quick|thorough> --bins ...");
                return 2;
            }
            let prop = args[2].clone();
            let tier = parse_tier(args.get(3).map(|s| s.as_str()).unwrap_or("quick"));
            let bins: Vec<(String, String)> = arg_val(args, "--bins")
                .unwrap_or_default()
                .split(',')
                .filter_map(|kv| kv.split_once('=').map(|(k, v)| (k.to_string(), v.to_string())))
                .collect();
            if bins.is_empty() {
                eprintln!("--bins missing");
                return 2;
            }
            let seed = std::env::var("VERIF_SEED").ok().and_then(|x| x.trim().parse::<i128>().ok()).map(|x| x as u64).unwrap_or(0);
            let jobs = std::env::var("VERIF_JOBS").ok().and_then(|x| x.parse().ok()).unwrap_or(16usize).max(1);
            let scale_pct = std::env::var("VERIF_SCALE_PCT").ok().and_then(|x| x.parse().ok()).unwrap_or(100u64).max(1);
            let a = sup::SupArgs {
                prop,
                tier,
                seed,
                bins,
                verif: PathBuf::from(arg_val(args, "--verif").unwrap_or_else(|| "/verif".into())),
                replay: arg_val(args, "--replay"),
                jobs,
                scale_pct,
                fuzz_stats: arg_val(args, "--fuzz-stats"),
            };
            let replay = a.replay.clone();
            let mut s = match sup::Sup::new(a) {
                Ok(s) => s,
                Err(e) => {
                    eprintln!("{}", e);
                    return 2;
                }
            };
            match replay {
                Some(p) => s.run_replay(&p),
                None => s.run(),
            }
        }
        other => {
            eprintln!("unknown subcommand {}", other);
            2
        }
    }
}
