// C05 — the decoder accepts exactly the specified language with the specified values
// (differential against the independent reference decoder in vcore::spec).
use crate::cx::*;
use crate::gen::*;
use crate::glue::*;
use crate::prop::*;
use crate::props::c01::{grid_input, GRID_SIZE};
use crate::spec::*;
use serde_json::{json, Value};

pub static DEF: PropDef = PropDef {
    id: "C05",
    title: "The decoder accepts exactly the specified language",
    rule: "Inputs: G-wire tapes, G-noncanon tapes (accepted non-canonical encodings by construction), G-rec AVP record lists through the bare AVP-list decoder, \
the complete attribute-type x payload-length grid, and all 65 536 flag words in front of bodies that are structurally valid for the word's T/L/S/O bits. \
Every message input is decoded under all 8 option sets by the crate and by the reference decoder; acceptance, every field of the value and the number of \
octets consumed must agree. Non-trivial = past the 2-octet flags guard and (accepted, or rejected at or after the header stage); distinct by hash of (input, options).",
    assumptions: &["the reference decoder (vcore::spec, ~500 lines, written from RFC 2661 and DESIGN.md section 0, self-tested at start-up) is the trusted base"],
    parts,
    run_tape,
    run_enum,
    run_concrete,
    both_profiles: true,
    exhaustive_note: "flag words (65 536) and the type x payload-length grid are enumerated completely",
};

fn parts(t: Tier) -> Vec<Part> {
    let (a, b, c) = match t {
        Tier::Quick => (1_200_000, 450_000, 900_000),
        Tier::Thorough => (12_000_000, 4_000_000, 8_000_000),
    };
    vec![tape("wire", a, 900), tape("noncanon", b, 900), tape("records", c, 700), enumerate("grid", GRID_SIZE), enumerate("flagwords", 65536)]
}

/// a body that is structurally valid for the flag word's T/L/S/O bits
pub fn body_for_flagword(w: u16, variant: u64) -> Vec<u8> {
    let mut b = w.to_be_bytes().to_vec();
    if w & T != 0 {
        // control: Length, ids, Ns, Nr, one Message Type AVP (+ one more AVP)
        b.extend_from_slice(&[0, 0, 0, 7, 0, 9, 0, 1, 0, 2]);
        b.extend_from_slice(&[0x01, 0x08, 0, 0, 0, 0, 0, 6]);
        if variant == 1 {
            b.extend_from_slice(&[0x01, 0x08, 0, 0, 0, 10, 0, 4]);
        }
        let l = b.len() as u16;
        b[2..4].copy_from_slice(&l.to_be_bytes());
    } else {
        if w & L != 0 {
            b.extend_from_slice(&[0, 0]);
        }
        b.extend_from_slice(&[0, 3, 0, 4]);
        if w & S != 0 {
            b.extend_from_slice(&[0, 5, 0, 6]);
        }
        if w & O != 0 {
            let n = if variant == 1 { 3u16 } else { 0 };
            b.extend_from_slice(&n.to_be_bytes());
            for i in 0..n {
                b.push(0xa0 + i as u8);
            }
        }
        b.extend_from_slice(&[0xde, 0xad, 0xbe]);
        if w & L != 0 {
            let l = b.len() as u16;
            b[2..4].copy_from_slice(&l.to_be_bytes());
        }
    }
    b
}

fn stage_of(e: &[SErr]) -> &'static str {
    match e.first() {
        Some(SErr::Other("flags")) => "rejected: flags",
        Some(SErr::Version(_)) => "rejected: version",
        Some(SErr::Other("reserved")) => "rejected: reserved bits",
        Some(SErr::Other("prio")) | Some(SErr::Other("offset")) => "rejected: unused field",
        Some(SErr::Other("nolen")) | Some(SErr::Other("nons")) => "rejected: control without L/S",
        Some(SErr::Other("hdr")) | Some(SErr::Other("dhdr")) => "rejected: header incomplete",
        Some(SErr::Other("length")) | Some(SErr::Other("dlen")) => "rejected: length field",
        Some(SErr::Offset(_)) => "rejected: offset size",
        Some(SErr::Other("empty")) => "rejected: empty payload",
        Some(SErr::Other("notfirst")) => "rejected: first AVP not Message Type",
        _ => "rejected: AVP errors",
    }
}

fn ignored_fields_nonzero(b: &[u8]) -> bool {
    // cheap indicator: a control message with M unset or AVP reserved bits set somewhere in the first AVP,
    // or message reserved bits set
    if b.len() < 14 {
        return false;
    }
    let w = ((b[0] as u16) << 8) | b[1] as u16;
    w & RESERVED != 0 || (w & T != 0 && (b[12] & 0x01 == 0 || b[12] & 0x3c != 0))
}

pub fn check_message(b: &[u8], family: &'static str, cx: &mut Cx) -> Res {
    for o in all_opts() {
        cx.eval();
        let s = decode_message(b, o);
        // a process death counts against C05 only where the specification accepts
        cx.stage(if s.is_ok() { STAGE_ARMED } else { STAGE_UNATTRIBUTED });
        let c = crate_decode(b, o);
        cx.stage(STAGE_SETUP);
        let render = |why: &str| json!({"input": hex(b), "opts": opts_str(o), "spec": format!("{:?}", s), "why": why});
        match (&s, c) {
            (Ok((sm, sn)), Caught::Ok(Ok((cm, cn)))) => {
                if *sm != cm {
                    return cx.fail_sig(crate::props::c01::sig_of(b), "decoded value differs from the specified value", || {
                        let mut r = render("value");
                        r["crate"] = json!(format!("{:?}", cm));
                        r
                    });
                }
                if *sn != cn {
                    return cx.fail_sig(crate::props::c01::sig_of(b), format!("octets consumed differ: specification {} crate {}", sn, cn), || render("consumed"));
                }
                cx.nontrivial(&(b, o.reserved, o.version, o.unused));
                cx.class(match sm {
                    SMsg::Control { .. } => "accepted control",
                    SMsg::Data { .. } => "accepted data",
                });
                if let SMsg::Control { avps, .. } = sm {
                    for a in avps {
                        if a.hidden { cx.class("accepted avp hidden (opaque)") } else { cx.class_dyn(format!("accepted avp {:02}", a.attr)) }
                    }
                }
                if ignored_fields_nonzero(b) {
                    cx.class("accepted with a non-zero ignored field");
                }
                cx.sample(family, || json!({"input": hex_short(b), "opts": opts_str(o), "result": "accepted", "family": family}));
            }
            (Err(se), Caught::Ok(Err(ce))) => {
                if ce.is_empty() {
                    return fail("crate rejected with an empty error list", render("empty"));
                }
                let st = stage_of(se);
                cx.class(st);
                if st != "rejected: flags" && st != "rejected: version" && st != "rejected: reserved bits" {
                    cx.nontrivial(&(b, o.reserved, o.version, o.unused));
                }
            }
            (Ok(_), Caught::Ok(Err(ce))) => {
                return cx.fail_sig(crate::props::c01::sig_of(b), format!("specification accepts, crate rejects with {:?}", ce), || render("spec ok / crate err"));
            }
            (Ok(_), Caught::Panic(p)) => {
                return cx.fail_sig(crate::props::c01::sig_of(b), format!("specification accepts, crate panics: {}", p.short()), || render("spec ok / crate panic"));
            }
            (Err(_), Caught::Ok(Ok((cm, _)))) => {
                return cx.fail_sig(crate::props::c01::sig_of(b), "specification rejects, crate accepts", || {
                    let mut r = render("spec err / crate ok");
                    r["crate"] = json!(format!("{:?}", cm));
                    r
                });
            }
            (Err(_), Caught::Panic(_)) => {
                // a panic is "not accepted": C01 owns it
                cx.class("rejected by panic (C01 territory)");
            }
            (_, Caught::Monitor(_)) => return fail("unexpected monitor payload", render("monitor")),
        }
    }
    Ok(())
}

pub fn check_avps(b: &[u8], family: &'static str, cx: &mut Cx) -> Res {
    cx.eval();
    let s = decode_avps(b);
    cx.stage(if s.iter().any(|x| x.is_ok()) { STAGE_ARMED } else { STAGE_UNATTRIBUTED });
    let c = crate_decode_avps(b);
    cx.stage(STAGE_SETUP);
    let render = || json!({"avp_region": hex(b), "spec": format!("{:?}", s)});
    match c {
        Caught::Panic(p) => {
            if s.iter().all(|x| x.is_err()) {
                cx.class("avps: panic where nothing is accepted (C01 territory)");
                return Ok(());
            }
            fail(format!("AVP list decode panics where the specification yields values: {}", p.short()), render())
        }
        Caught::Monitor(_) => fail("unexpected monitor payload", render()),
        Caught::Ok((c, left)) => {
            if c.len() != s.len() {
                let mut r = render();
                r["crate"] = json!(format!("{:?}", c));
                return fail(format!("AVP list length differs: specification {} crate {}", s.len(), c.len()), r);
            }
            for (i, (x, y)) in s.iter().zip(c.iter()).enumerate() {
                match (x, y) {
                    (Ok(a), Ok(b2)) => {
                        if a != b2 {
                            let mut r = render();
                            r["crate"] = json!(format!("{:?}", b2));
                            return fail(format!("AVP #{} decodes to a different value", i), r);
                        }
                        if a.hidden { cx.class("accepted avp hidden (opaque)") } else { cx.class_dyn(format!("accepted avp {:02}", a.attr)) }
                    }
                    (Err(e), Err(_)) => {
                        cx.class(match e {
                            SErr::Incomplete(_) => "avp err: incomplete",
                            SErr::UnknownMsgType(_) => "avp err: unknown message type",
                            SErr::BadUtf8(_) => "avp err: invalid utf-8",
                            SErr::BadErrorType(_) => "avp err: bad error type",
                            SErr::BadProxyType(_) => "avp err: bad proxy type",
                            SErr::BadAvpLength(_) => "avp err: unusable length",
                            SErr::UnknownAvp(_) => "avp err: unknown type",
                            SErr::Vendor(_) => "avp err: vendor",
                            _ => "avp err: other",
                        });
                    }
                    _ => {
                        let mut r = render();
                        r["crate"] = json!(format!("{:?}", c));
                        return fail(format!("AVP #{}: specification {} / crate {}", i, if x.is_ok() { "accepts" } else { "rejects" }, if y.is_ok() { "accepts" } else { "rejects" }), r);
                    }
                }
            }
            // octets left unread: fewer than 6 trailing octets, or everything after an unusable length
            let unusable = matches!(s.last(), Some(Err(SErr::BadAvpLength(_))));
            if !unusable && left >= 6 {
                return fail(format!("{} octets left unread although no length field was unusable", left), render());
            }
            if !s.is_empty() {
                cx.nontrivial(b);
                cx.sample(family, || json!({"avp_region": hex_short(b), "elements": s.len(), "family": family}));
            }
            Ok(())
        }
    }
}

fn run_tape(part: &str, tape: &[u8], cx: &mut Cx) -> Res {
    let mut t = Tape::new(tape);
    match part {
        "wire" => {
            if t.below(300) == 0 {
                // two accepted messages that an FNV-1a-32 digest of a natural region cannot tell apart, decoded back to back
                if let Some((b1, b2, what)) = fnv_twin_messages(&mut t) {
                    cx.class("two messages colliding under FNV-1a-32 decoded back to back");
                    cx.class_dyn(format!("fnv twins: digest over {}", what));
                    check_message(&b1, "fnv-twins", cx)?;
                    check_message(&b2, "fnv-twins", cx)?;
                    return check_message(&b1, "fnv-twins", cx);
                }
            }
            let mut b = gen_wire(&mut t);
            check_message(&b, "wire", cx)?;
            // the same buffer, changed in place (same address, same length), decoded again: a result must depend on the
            // octets only, not on what was decoded from that memory before
            if !b.is_empty() && b.len() < 4096 && t.chance(50) {
                let k = 1 + t.below(3);
                for _ in 0..k {
                    let i = t.below(b.len());
                    match t.below(6) {
                        // an edit that keeps one of the common weak digests unchanged (sum, xor, 31- and 33-polynomial, Adler-32, CRC-32)
                        5 => {
                            let _ = digest_preserving_edit(&mut t, &mut b);
                        }
                        0 => b[i] = 0xff,
                        1 => b[i] ^= 1 << t.below(8),
                        // edits that keep simple digests (sum, xor, 31-polynomial) unchanged: swap two octets; +1 / -31 on neighbours
                        2 => {
                            let j = t.below(b.len());
                            b.swap(i, j);
                        }
                        3 if i + 1 < b.len() => {
                            b[i] = b[i].wrapping_add(1);
                            b[i + 1] = b[i + 1].wrapping_sub(31);
                        }
                        _ => b[i] = t.byte(),
                    }
                }
                check_message(&b, "wire-mutated-in-place", cx)?;
            }
            Ok(())
        }
        "noncanon" => {
            let (b, o, v, _d) = encode_noncanon(&mut t);
            // the construction itself is checked against the specification first (a generator bug is not a finding)
            match decode_message(&b, o) {
                Ok((m, _)) if m == v => {}
                other => return fail(format!("harness: G-noncanon produced an input the specification does not map to its value: {:?}", other.map(|x| x.1)), json!({"input": hex(&b), "harness_bug": true})),
            }
            check_message(&b, "noncanon", cx)
        }
        _ => {
            if t.chance(1) {
                // a bare AVP list of 64 KiB and more: one generated record, then a stream of small valid AVPs chosen so that
                // the octets remaining after some header are 65 536 + a few
                let mut b = Vec::new();
                gen_record_opt(&mut t, &mut b, false);
                let total = 65536 + t.below(16) + if t.chance(30) { t.below(70000) } else { 0 };
                let rest = cheap_avp_stream(&mut t, total);
                b.extend_from_slice(&rest);
                return check_avps(&b, "records-64k", cx);
            }
            let k = if t.chance(4) { 7 + t.below(90) } else { t.below(7) };
            let mut b = Vec::new();
            for _ in 0..k {
                gen_record(&mut t, &mut b);
            }
            if t.chance(15) {
                let n = t.below(6);
                for _ in 0..n {
                    b.push(t.byte());
                }
            }
            check_avps(&b, "records", cx)
        }
    }
}

fn run_enum(part: &str, index: u64, cx: &mut Cx) -> Res {
    match part {
        "grid" => {
            let b = grid_input(index);
            check_message(&b, "grid", cx)?;
            check_avps(&b[12..], "grid", cx)
        }
        _ => {
            for variant in 0..2 {
                let b = body_for_flagword(index as u16, variant);
                check_message(&b, "flagwords", cx)?;
            }
            Ok(())
        }
    }
}

fn run_concrete(case: &Value, cx: &mut Cx) -> Res {
    if let Some(b) = case.get("input").and_then(|x| x.as_str()).and_then(unhex) {
        return check_message(&b, "concrete", cx);
    }
    if let Some(b) = case.get("avp_region").and_then(|x| x.as_str()).and_then(unhex) {
        return check_avps(&b, "concrete", cx);
    }
    fail("bad concrete case", case.clone())
}
