// Independent MD5 (RFC 1321), written for the reference model.
const S: [u32; 64] = [
    7, 12, 17, 22, 7, 12, 17, 22, 7, 12, 17, 22, 7, 12, 17, 22, 5, 9, 14, 20, 5, 9, 14, 20, 5, 9,
    14, 20, 5, 9, 14, 20, 4, 11, 16, 23, 4, 11, 16, 23, 4, 11, 16, 23, 4, 11, 16, 23, 6, 10, 15,
    21, 6, 10, 15, 21, 6, 10, 15, 21, 6, 10, 15, 21,
];
fn k(i: usize) -> u32 {
    // floor(2^32 * abs(sin(i+1))), computed once
    static K: std::sync::OnceLock<[u32; 64]> = std::sync::OnceLock::new();
    K.get_or_init(|| {
        let mut t = [0u32; 64];
        for (j, x) in t.iter_mut().enumerate() {
            *x = ((j as f64 + 1.0).sin().abs() * 4294967296.0) as u32;
        }
        t
    })[i]
}
pub fn md5(msg: &[u8]) -> [u8; 16] {
    let mut a0: u32 = 0x67452301;
    let mut b0: u32 = 0xefcdab89;
    let mut c0: u32 = 0x98badcfe;
    let mut d0: u32 = 0x10325476;
    let bitlen = (msg.len() as u64).wrapping_mul(8);
    let mut m = Vec::with_capacity(msg.len() + 72);
    m.extend_from_slice(msg);
    m.push(0x80);
    while m.len() % 64 != 56 {
        m.push(0);
    }
    m.extend_from_slice(&bitlen.to_le_bytes());
    for chunk in m.chunks(64) {
        let mut w = [0u32; 16];
        for i in 0..16 {
            w[i] = u32::from_le_bytes([chunk[4 * i], chunk[4 * i + 1], chunk[4 * i + 2], chunk[4 * i + 3]]);
        }
        let (mut a, mut b, mut c, mut d) = (a0, b0, c0, d0);
        for i in 0..64 {
            let (mut f, g);
            if i < 16 {
                f = (b & c) | (!b & d);
                g = i;
            } else if i < 32 {
                f = (d & b) | (!d & c);
                g = (5 * i + 1) % 16;
            } else if i < 48 {
                f = b ^ c ^ d;
                g = (3 * i + 5) % 16;
            } else {
                f = c ^ (b | !d);
                g = (7 * i) % 16;
            }
            f = f.wrapping_add(a).wrapping_add(k(i)).wrapping_add(w[g]);
            a = d;
            d = c;
            c = b;
            b = b.wrapping_add(f.rotate_left(S[i]));
        }
        a0 = a0.wrapping_add(a);
        b0 = b0.wrapping_add(b);
        c0 = c0.wrapping_add(c);
        d0 = d0.wrapping_add(d);
    }
    let mut out = [0u8; 16];
    out[0..4].copy_from_slice(&a0.to_le_bytes());
    out[4..8].copy_from_slice(&b0.to_le_bytes());
    out[8..12].copy_from_slice(&c0.to_le_bytes());
    out[12..16].copy_from_slice(&d0.to_le_bytes());
    out
}
pub fn hex(b: &[u8]) -> String {
    b.iter().map(|x| format!("{:02x}", x)).collect()
}
pub fn self_test() -> Result<(), String> {
    let v: [(&str, &str); 7] = [
        ("", "d41d8cd98f00b204e9800998ecf8427e"),
        ("a", "0cc175b9c0f1b6a831c399e269772661"),
        ("abc", "900150983cd24fb0d6963f7d28e17f72"),
        ("message digest", "f96b697d7cb7938d525a2f31aaf161d0"),
        ("abcdefghijklmnopqrstuvwxyz", "c3fcd3d76192e4007dfb496cca67e13b"),
        ("ABCDEFGHIJKLMNOPQRSTUVWXYZabcdefghijklmnopqrstuvwxyz0123456789", "d174ab98d277d9f5a5611c2c9f419d9f"),
        ("12345678901234567890123456789012345678901234567890123456789012345678901234567890", "57edf4a22be3c955ac49da2e2107b67a"),
    ];
    for (i, o) in v {
        let h = hex(&md5(i.as_bytes()));
        if h != o {
            return Err(format!("md5({:?}) = {} != {}", i, h, o));
        }
    }
    Ok(())
}
