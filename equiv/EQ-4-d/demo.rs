// Demo for change `d`: a hidden AVP is now encoded with its final flags/length octets written
// up front, so the encoder issues NO positional overwrite (write_bytes_at) for it. The emitted
// octets are identical; only the sequence of Writer trait calls differs, which this demo
// observes with a logging Writer implementation. Regular AVPs keep the placeholder + overwrite.

use rl2tp::avp::types::{Hidden, RandomVector};
use rl2tp::avp::AVP;
use rl2tp::common::{VecWriter, Writer};

#[derive(Default)]
struct LogWriter {
    data: Vec<u8>,
    log: Vec<String>,
}

impl Writer for LogWriter {
    fn is_empty(&self) -> bool {
        self.data.is_empty()
    }
    fn len(&self) -> usize {
        self.data.len()
    }
    fn write_bytes(&mut self, bytes: &[u8]) {
        self.log.push(format!("bytes({})", bytes.len()));
        self.data.extend_from_slice(bytes);
    }
    fn write_bytes_at(&mut self, bytes: &[u8], offset: usize) {
        self.log.push(format!("at({},{})", bytes.len(), offset));
        assert!(offset + bytes.len() <= self.data.len());
        self.data[offset..offset + bytes.len()].copy_from_slice(bytes);
    }
    fn write_u8(&mut self, value: u8) {
        self.log.push("u8".to_owned());
        self.data.push(value);
    }
    fn write_u16_be(&mut self, value: u16) {
        self.log.push("u16".to_owned());
        self.data.extend_from_slice(&value.to_be_bytes());
    }
    fn write_u32_be(&mut self, value: u32) {
        self.log.push("u32".to_owned());
        self.data.extend_from_slice(&value.to_be_bytes());
    }
    fn write_u64_be(&mut self, value: u64) {
        self.log.push("u64".to_owned());
        self.data.extend_from_slice(&value.to_be_bytes());
    }
}

#[test]
fn hidden_avp_is_written_without_overwrite() {
    let rv: RandomVector = [1, 2, 3, 4].into();
    let hidden = AVP::HostName(b"host".to_vec().into()).hide(b"secret", &rv, &[], &[9u8; 16]);

    let mut lw = LogWriter::default();
    lw.write_bytes(&[0xaa, 0xbb, 0xcc]); // pre-existing content
    lw.log.clear();
    hidden.write(&mut lw);

    // identical octets to VecWriter, appended after the prefix
    let mut vw = VecWriter::new();
    hidden.write(&mut vw);
    assert_eq!(&lw.data[..3], &[0xaa, 0xbb, 0xcc]);
    assert_eq!(&lw.data[3..], &vw.data[..]);
    assert_eq!(vw.data.len(), 6 + 16);
    assert_eq!(&vw.data[..6], &[0x03, 22, 0, 0, 0, 7]);

    // flags+length, vendor id, attribute type, value - and nothing patched afterwards
    assert_eq!(lw.log, ["bytes(2)", "u16", "u16", "bytes(16)"]);
}

#[test]
fn all_hidden_sizes_encode_identically_and_regular_avps_still_patch() {
    for n in 0..=1017usize {
        let h = AVP::Hidden(Hidden {
            attribute_type: (n as u16).wrapping_mul(77),
            value: (0..n).map(|i| i as u8).collect(),
        });
        let mut lw = LogWriter::default();
        h.write(&mut lw);
        assert!(!lw.log.iter().any(|l| l.starts_with("at(")), "n={n}");
        let total = n + 6;
        assert_eq!(lw.data.len(), total);
        assert_eq!(lw.data[0], (((total >> 8) as u8) << 6) | 0x03);
        assert_eq!(lw.data[1], total as u8);
        assert_eq!(&lw.data[2..4], &[0, 0]);
    }

    let mut lw = LogWriter::default();
    AVP::FirmwareRevision(7.into()).write(&mut lw);
    assert_eq!(lw.log.last().unwrap(), "at(2,0)");
}

#[test]
fn oversize_hidden_avp_is_still_refused() {
    let h = AVP::Hidden(Hidden {
        attribute_type: 7,
        value: vec![0; 1018],
    });
    let r = std::panic::catch_unwind(|| {
        let mut w = VecWriter::new();
        h.write(&mut w);
    });
    assert!(r.is_err());
}
