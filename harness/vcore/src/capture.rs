// Capture of everything the process writes to file descriptors 1 and 2 while a closure runs.
use std::io::Write;

pub struct Capture {
    saved1: i32,
    saved2: i32,
    fd: i32,
}

impl Capture {
    pub fn start() -> Option<Capture> {
        let _ = std::io::stdout().flush();
        let _ = std::io::stderr().flush();
        unsafe {
            let fd = libc::memfd_create(b"vf-capture\0".as_ptr() as *const libc::c_char, 0);
            if fd < 0 {
                return None;
            }
            let saved1 = libc::dup(1);
            let saved2 = libc::dup(2);
            if saved1 < 0 || saved2 < 0 || libc::dup2(fd, 1) < 0 || libc::dup2(fd, 2) < 0 {
                return None;
            }
            Some(Capture { saved1, saved2, fd })
        }
    }

    /// restore fds 1 and 2 and return what was written to them meanwhile
    pub fn finish(self) -> Vec<u8> {
        // push anything Rust's line-buffered stdout still holds
        let _ = std::io::stdout().flush();
        let _ = std::io::stderr().flush();
        let mut out = Vec::new();
        unsafe {
            libc::dup2(self.saved1, 1);
            libc::dup2(self.saved2, 2);
            libc::close(self.saved1);
            libc::close(self.saved2);
            let end = libc::lseek(self.fd, 0, libc::SEEK_END);
            if end > 0 {
                out.resize(end as usize, 0);
                libc::lseek(self.fd, 0, libc::SEEK_SET);
                let mut got = 0usize;
                while got < out.len() {
                    let n = libc::read(self.fd, out.as_mut_ptr().add(got) as *mut libc::c_void, out.len() - got);
                    if n <= 0 {
                        break;
                    }
                    got += n as usize;
                }
                out.truncate(got);
            }
            libc::close(self.fd);
        }
        out
    }
}
