//! Demo for change `d`: hand-written `Debug` for `AVP` (renders as the wrapped kind),
//! `Message` (renders as the wrapped message), `ControlMessage` (identifiers first) and
//! `DataMessage` (identifiers first, absent optional fields omitted).
//! Passes with the change, fails on the unmodified crate (derived layouts).

use rl2tp::avp::types::{Hidden, HostName, MessageType};
use rl2tp::avp::AVP;
use rl2tp::common::{SliceReader, VecWriter};
use rl2tp::{
    ControlMessage, DataMessage, Message, ValidateReserved, ValidateUnused, ValidateVersion,
    ValidationOptions,
};

#[test]
fn debug_layouts() {
    let host = AVP::HostName(HostName {
        value: vec![b'a', b'b'],
    });
    assert_eq!(format!("{:?}", host), "HostName { value: [97, 98] }");
    assert_eq!(
        format!("{:?}", AVP::MessageType(MessageType::Hello)),
        "Hello"
    );
    assert_eq!(
        format!(
            "{:?}",
            AVP::Hidden(Hidden {
                attribute_type: 7,
                value: vec![1, 2]
            })
        ),
        "Hidden { attribute_type: 7, value: [1, 2] }"
    );

    let control = ControlMessage {
        length: 30,
        tunnel_id: 1,
        session_id: 2,
        ns: 3,
        nr: 4,
        avps: vec![AVP::MessageType(MessageType::Hello), host],
    };
    let expect = "ControlMessage { tunnel_id: 1, session_id: 2, ns: 3, nr: 4, length: 30, \
                  avps: [Hello, HostName { value: [97, 98] }] }";
    assert_eq!(format!("{:?}", control), expect);
    assert_eq!(
        format!("{:?}", Message::<Vec<u8>>::Control(control)),
        expect
    );

    let data = DataMessage {
        is_prioritized: true,
        length: None,
        tunnel_id: 5,
        session_id: 6,
        ns_nr: None,
        offset: None,
        data: vec![0xde_u8, 0xad],
    };
    let expect = "DataMessage { tunnel_id: 5, session_id: 6, is_prioritized: true, data: [222, 173] }";
    assert_eq!(format!("{:?}", data), expect);
    assert_eq!(format!("{:?}", Message::Data(data)), expect);

    let data = DataMessage {
        is_prioritized: false,
        length: Some(16),
        tunnel_id: 5,
        session_id: 6,
        ns_nr: Some((7, 8)),
        offset: Some(0),
        data: &[1u8][..],
    };
    assert_eq!(
        format!("{:?}", data),
        "DataMessage { tunnel_id: 5, session_id: 6, is_prioritized: false, length: 16, ns: 7, nr: 8, offset: 0, data: [1] }"
    );
}

#[test]
fn codec_behaviour_unchanged() {
    let strict = || ValidationOptions {
        reserved: ValidateReserved::Yes,
        version: ValidateVersion::Yes,
        unused: ValidateUnused::Yes,
    };
    let control = ControlMessage {
        length: 0,
        tunnel_id: 1,
        session_id: 2,
        ns: 3,
        nr: 4,
        avps: vec![
            AVP::MessageType(MessageType::Hello),
            AVP::HostName(HostName {
                value: vec![b'a', b'b'],
            }),
        ],
    };
    let mut w = VecWriter::new();
    Message::<Vec<u8>>::Control(control.clone()).write(&mut w);
    assert_eq!(
        w.data,
        [
            0x13, 0x20, 0, 28, 0, 1, 0, 2, 0, 3, 0, 4, // header
            0x01, 8, 0, 0, 0, 0, 0, 6, // MessageType Hello
            0x01, 8, 0, 0, 0, 7, b'a', b'b', // HostName
        ]
    );
    let mut r = SliceReader::from(&w.data[..]);
    let got = Message::<&[u8]>::try_read_validate(&mut r, strict()).unwrap();
    let mut want = control;
    want.length = 28;
    assert!(got == Message::Control(want));

    let payload = [9u8, 8, 7];
    let data = DataMessage {
        is_prioritized: true,
        length: Some(15),
        tunnel_id: 5,
        session_id: 6,
        ns_nr: Some((7, 8)),
        offset: None,
        data: &payload[..],
    };
    let mut w = VecWriter::new();
    Message::Data(data).write(&mut w);
    let mut r = SliceReader::from(&w.data[..]);
    let got = Message::<&[u8]>::try_read_validate(&mut r, strict()).unwrap();
    assert!(
        got == Message::Data(DataMessage {
            is_prioritized: true,
            length: Some(15),
            tunnel_id: 5,
            session_id: 6,
            ns_nr: Some((7, 8)),
            offset: None,
            data: &payload[..],
        })
    );
}
