#!/usr/bin/env python3
"""Regenerate /verif/MANIFEST.json from the table below (kept in one place so that it stays valid)."""
import json, os
V = os.path.dirname(os.path.dirname(os.path.abspath(__file__)))
props = [json.loads(l) for l in open(os.path.join(V, 'properties.jsonl'))]

T = {
 'C01': ("generated-input search for panics, aborts, overflows and hangs: structured mutations of valid encodings, AVP-record lists, the complete type x payload-length grid and all inputs of <= 2 octets, each under all 8 option sets and as a bare AVP list, in both build profiles, in child processes so that aborts and hangs are observed; inputs of 32 KiB .. 135 KiB, every 16-bit code of six enumerated fields, a reader that declines bytes() requests, a 64 KiB-stack thread, and calls made from a destructor during unwinding and from thread-local destructors at thread exit are part of the quick tier; thorough adds coverage-guided libFuzzer campaigns (ASan, debug assertions)",
         "sampling outside the enumerated sub-spaces; non-termination decided by a 20 s watchdog with re-confirmation",
         "property-based testing (proptest byte tapes + exhaustive grids) with a crash/abort/hang oracle; libFuzzer in thorough"),
 'C02': ("every decode is run through a harness-supplied monitoring Reader that checks each unchecked request against the octets remaining (in every build mode), and through two further conforming readers (SliceReader, an owned-Vec reader); zero contract violations and identical results are required; per-kind try_read on every payload length 0..40 is exhaustive; reveal's private reader is observed by debug-assertion builds in child processes",
         "'conforming reader' as stated in DESIGN.md section 3.4; reveal's leg relies on debug-assertion aborts/panics, not on the monitor",
         "property-based testing with contract-monitor readers + differential between three Reader implementations"),
 'C03': ("round-trip of generated control messages (0..10 921 AVPs, all 39 kinds + opaque hidden AVPs, boundary-biased values and specially treated characters, messages up to exactly 65 535 octets, writers that already hold up to ~200 000 octets, unrelated and refused codec calls on the same thread just before) and single AVPs through encode then strict decode, compared with the crate's own PartialEq and field for field",
         "sampling of the value space; values are built through public fields/constructors only",
         "property-based testing, round-trip oracle"),
 'C04': ("round-trip of generated data messages over all 16 L/S/O/P flag combinations, payloads from 1 octet to the 65 535-octet total (and 16..40 MiB without a Length field), exact or absent Length, offsets 0..|data|-1; the same encode / decode repeated on one thread until more than 2^32 octets have passed through it",
         "sampling of the value space",
         "property-based testing, round-trip oracle with offset-skipping expectation"),
 'C05': ("differential testing of the decoder against an independent executable reference decoder on generated near-valid inputs, accepted non-canonical inputs, AVP-record lists, the complete type x payload-length grid and all 65 536 flag words, under all 8 option sets: acceptance, every field and octets consumed must agree; consecutive inputs include pairs that common weak digests (sum, xor, 31/33-polynomial, Adler-32, CRC-32, FNV-1a-32) cannot tell apart",
         "the reference decoder (vcore::spec) is the trusted base; sampling outside the enumerated sub-spaces",
         "property-based differential testing against a reference model"),
 'C06': ("differential testing of the encoder against an independent reference encoder, byte for byte, on generated AVPs of every kind, control messages and data messages (with arbitrary Length / Offset Size values)",
         "the reference encoder (vcore::spec) is the trusted base",
         "property-based differential testing against a reference model"),
 'C07': ("an independent length walker over the emitted octets checks every length field against the extent it describes, for in-range values and for generated oversize values (AVPs of 1024..~5000 octets, message bodies crossing 65 535, hide() at the limits, values of 2^31 / 2^32 + n octets through a writer that keeps only the head): either the call fails loudly or every length is exact, also when the call is made from a destructor while the thread unwinds",
         "'fails loudly' observed as a panic",
         "property-based testing with an independent length-walker oracle and oversize generators"),
 'C08': ("metamorphic testing: accepted messages followed by arbitrary suffixes (up to 64 KiB, and a 4 GiB lazily mapped buffer), back-to-back message streams (from the reference and from the crate's own encoder), and concatenations of well-delimited AVP records (good and bad) must decode exactly as their parts",
         "sampling",
         "property-based metamorphic testing (suffix independence, concatenation homomorphism)"),
 'C09': ("metamorphic testing: sequences of values encoded into a writer that already holds a prefix must equal prefix ++ individual encodings; a monitoring Writer (optionally with a virtual base of up to 2^62 octets, optionally re-entering the crate) checks that every positional overwrite lies inside the value being encoded",
         "sampling",
         "property-based metamorphic testing with a contract-monitor writer"),
 'C10': ("accepted inputs that are non-canonical by construction (reserved bits, M unset, surplus octets, trailing octets, P/O on control ...) and accepted mutated inputs are decoded, re-encoded, strictly re-decoded and re-encoded again: one step must reach the fixed point",
         "sampling",
         "property-based testing, idempotence / fixed-point oracle"),
 'C11': ("hide then reveal (directly and through encode/decode of the hidden AVP) on generated AVPs of all 39 kinds, secrets incl. empty, paddings steered to block counts 1, 2, 3, >= 4 and exact multiples of 16; identity cases for hidden/non-hidden arguments",
         "sampling",
         "property-based testing, round-trip oracle"),
 'C12': ("differential testing of hide (forward) and reveal (backward, on random and crafted ciphertexts) against an independent implementation of RFC 2661 section 4.3 with the harness's own MD5; secrets of 0..8192 octets, related-secret sequences, degenerate ciphertext blocks, four concurrent threads, length paddings of 16..48 MiB, secrets that weak digests cannot tell apart, calls from unwinding and thread-exit destructors; plus determinism and independence from the unused padding tail",
         "the harness's MD5 and reference cipher are the trusted base (self-tested at start-up)",
         "property-based differential testing against an independent cipher implementation"),
 'C13': ("generated random and crafted hidden values (crafted = chosen plaintext incl. every interesting original-length value, encrypted with the reference key schedule) are revealed in child processes in both build profiles: no panic/abort, right attribute type, the three stated rejections; also when called from unwinding and thread-exit destructors",
         "sampling; crafted inputs reach the length-field regions random ciphertexts hit with probability < 1 %",
         "property-based testing with crafted-ciphertext generators, crash oracle + rejection predicates"),
 'C14': ("all 65 536 flag words x 3 bodies x 8 option sets (exhaustive) plus generated inputs: monotonicity over the option lattice, exactness of each check against the same options with that check off, independence from the bits owned by disabled checks, and try_read = version-only",
         "the flag-word sub-space is exhaustive; other inputs sampled",
         "exhaustive enumeration + property-based metamorphic testing over the option lattice"),
 'C15': ("control messages assembled from generated good records and a chosen subset of individually undecodable records (7 fault kinds, each with an identifying value), optional unusable-length tail, bodies of up to ~700 records with up to 512 bad ones, every vendor id exhaustively: acceptance iff no bad record and Message Type first; the error list must equal the stated errors in wire order",
         "for bad proxy-authen type and unusable length no property states the variant (any single attributable error accepted)",
         "property-based fault-injection testing with a constructed expected error list"),
 'C16': ("complete enumeration of all 65 536 codes for each of six enumerated fields plus every named value, against the harness's own RFC 2661 number/name tables",
         "the harness's RFC tables are the trusted base; the space is covered completely",
         "exhaustive enumeration against independent RFC tables"),
 'C17': ("complete enumeration of constructor argument pairs and structured raw words (0, !0, single bits, bit pairs) plus random words for the four bitmask kinds: accessors named after constructor parameters, 32-bit preservation through decode/encode, one bit per accessor",
         "raw word observed through encoder output and Debug text",
         "exhaustive enumeration + property-based testing"),
 'C18': ("model-based testing: generated operation sequences on SliceReader (pool of readers incl. sub-readers, boundary arguments) and VecWriter (appends and positional overwrites incl. out-of-range and wrapping offsets) against a reference cursor / Vec model",
         "state after a refused bytes() request is not asserted",
         "model-based (stateful) property testing against a reference cursor / vector"),
 'C19': ("generated call histories (decode, AVP-list decode, encode, hide, reveal, error rendering) run with file descriptors 1 and 2 redirected to a memory file or a pseudo-terminal: no octet may be written; every call must return its canonical result in any order, on 8 concurrent threads, from a destructor while the thread unwinds and from thread-local destructors at thread exit",
         "thread schedules are the OS's; the crate has no synchronisation or shared state a controlled scheduler could intercept",
         "property-based testing over call histories with fd-level output capture and order/thread-independence oracle"),
 'C20': ("single-fault injection into generated valid messages (8 fault kinds with offending values) with the exact expected error, through the message decoder and the bare AVP-list decoder; complete enumeration of all 655 631 error values for rendering, AVP-kind names checked against the crate's actual dispatch",
         "kind names are taken from the Debug text of AVPs the crate decodes",
         "property-based fault-injection testing + exhaustive enumeration of error renderings"),
}

checks = []
for p in props:
    i = p['id']
    text, note, tech = T[i]
    checks.append({
        "property_id": i,
        "quick_cmd": f"./check {i} quick",
        "thorough_cmd": f"./check {i} thorough",
        "evidence_file": f"/verif/evidence/{i}.json",
        "replay_cmd_template": f"./check {i} --replay {{path}}",
        "engine": "vf",
        "level_claimed": {"category": "exploration", "text": text, "design_ref": f"DESIGN.md section 4, {i}"},
        "level_note": note,
        "technique": tech,
    })

m = {
 "version": 1,
 "setup_cmd": "./setup.sh",
 "hooks": {
   "guard": "rl2tp_verif",
   "enable": "no source hooks exist: the checks use only the crate's public API (public Reader/Writer traits, public fields and constructors); the cfg name --cfg rl2tp_verif is reserved and unused",
   "baseline_off_cmd": "cd /repo && cargo test --workspace --no-fail-fast --offline",
   "source_commits": [],
   "add_only": True,
 },
 "engines": [
   {"name": "vf", "path": "harness/", "serves_properties": [p['id'] for p in props],
    "kind_free_text": "proptest TestRunner over byte tapes (cases are pure functions of the tape) plus exhaustive enumerators, sharded over 16 child processes in two build profiles (debug assertions + overflow checks / release), with supervisor-side abort and hang detection; oracles: independent reference decoder/encoder/cipher (vcore::spec), contract-monitor Reader/Writer, round-trip, metamorphic and model-based relations"},
   {"name": "libfuzzer", "path": "fuzz/", "serves_properties": ["C01", "C02", "C05", "C08", "C10", "C13", "C14"],
    "kind_free_text": "cargo-fuzz / libFuzzer targets (nightly, ASan, debug assertions) with the same oracles compiled into the target; used by the thorough tier"},
 ],
 "checks": checks,
 "not_applicable": [],
 "notes": "All 20 properties are claimed at level 'exploration' (generated-input search against explicit oracles); the enumerated sub-spaces named in each evidence file are covered completely. Nine genuine defects of the pinned tree were repaired by separate 'fix:' commits in /repo (see KNOWN_FINDINGS.txt and DESIGN.md section 5). VERIF_SEED seeds every random choice; VERIF_SCALE_PCT scales case counts; exit 2 = inconclusive (never a violation).",
}
json.dump(m, open(os.path.join(V, 'MANIFEST.json'), 'w'), indent=1)
print("MANIFEST.json written:", len(checks), "checks")
