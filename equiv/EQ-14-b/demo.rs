// Demo for change `b`: ControlMessage::write hands the 12-octet header to the
// writer in one call, lets the Length field provisionally carry the message's
// own `length` member, back-patches it only when that member is not already
// exact, and refuses an oversize message with a different panic text.

use rl2tp::avp::types::{HostName, MessageType};
use rl2tp::avp::AVP;
use rl2tp::common::{VecWriter, Writer};
use rl2tp::{ControlMessage, Message};
use std::panic::{catch_unwind, AssertUnwindSafe};

#[derive(Default)]
struct Rec {
    data: Vec<u8>,
    calls: Vec<String>,
}

impl Writer for Rec {
    fn is_empty(&self) -> bool {
        self.data.is_empty()
    }
    fn len(&self) -> usize {
        self.data.len()
    }
    fn write_bytes(&mut self, bytes: &[u8]) {
        self.calls.push(format!("write_bytes({:?})", bytes));
        self.data.extend_from_slice(bytes);
    }
    fn write_bytes_at(&mut self, bytes: &[u8], offset: usize) {
        self.calls
            .push(format!("write_bytes_at({:?},{})", bytes, offset));
        assert!(offset + bytes.len() <= self.data.len());
        self.data[offset..offset + bytes.len()].copy_from_slice(bytes);
    }
    fn write_u8(&mut self, value: u8) {
        self.calls.push(format!("write_u8({value})"));
        self.data.push(value);
    }
    fn write_u16_be(&mut self, value: u16) {
        self.calls.push(format!("write_u16_be({value})"));
        self.data.extend_from_slice(&value.to_be_bytes());
    }
    fn write_u32_be(&mut self, value: u32) {
        self.calls.push(format!("write_u32_be({value})"));
        self.data.extend_from_slice(&value.to_be_bytes());
    }
    fn write_u64_be(&mut self, value: u64) {
        self.calls.push(format!("write_u64_be({value})"));
        self.data.extend_from_slice(&value.to_be_bytes());
    }
}

const EXPECTED: [u8; 20] = [
    0x13, 0x20, 0x00, 0x14, 0x00, 0x02, 0x00, 0x03, 0x00, 0x04, 0x00, 0x05, 0x01, 0x08, 0x00, 0x00,
    0x00, 0x00, 0x00, 0x01,
];

fn msg(length: u16) -> Message<Vec<u8>> {
    Message::Control(ControlMessage {
        length,
        tunnel_id: 2,
        session_id: 3,
        ns: 4,
        nr: 5,
        avps: vec![AVP::MessageType(
            MessageType::StartControlConnectionRequest,
        )],
    })
}

#[test]
fn header_is_one_write_and_an_exact_length_member_needs_no_patch() {
    let mut w = Rec::default();
    msg(20).write(&mut w);
    assert_eq!(w.data, EXPECTED);
    // First call carries the whole fixed header, Length already final.
    assert_eq!(
        w.calls[0],
        format!("write_bytes({:?})", &EXPECTED[..12]),
        "calls: {:?}",
        w.calls
    );
    // No message-level patch at offset 2.
    assert!(
        !w.calls.iter().any(|c| c.ends_with(",2)")),
        "calls: {:?}",
        w.calls
    );
}

#[test]
fn inexact_length_member_is_provisional_and_then_patched() {
    let mut w = Rec::default();
    w.write_bytes(&[9, 9, 9]);
    msg(0xBEEF).write(&mut w);
    assert_eq!(&w.data[..3], &[9, 9, 9]);
    assert_eq!(&w.data[3..], &EXPECTED);
    // calls[0] is the prefix written by the test itself
    assert!(
        w.calls[1].starts_with("write_bytes([19, 32, 190, 239,"),
        "calls: {:?}",
        w.calls
    );
    assert_eq!(
        w.calls.last().unwrap(),
        "write_bytes_at([0, 20],5)",
        "calls: {:?}",
        w.calls
    );
}

#[test]
fn oversize_message_panic_text() {
    // 70 AVPs of 1006 octets: 12 + 8 + 70*1006 > 65535
    let mut avps = vec![AVP::MessageType(MessageType::Hello)];
    for _ in 0..70 {
        avps.push(AVP::HostName(HostName {
            value: vec![0x61; 1000],
        }));
    }
    let m: Message<Vec<u8>> = Message::Control(ControlMessage {
        length: 0,
        tunnel_id: 0,
        session_id: 0,
        ns: 0,
        nr: 0,
        avps,
    });
    let mut w = VecWriter::new();
    let payload = catch_unwind(AssertUnwindSafe(|| m.write(&mut w)))
        .expect_err("oversize message must be refused by a panic");
    let text = payload
        .downcast_ref::<String>()
        .cloned()
        .or_else(|| payload.downcast_ref::<&str>().map(|s| s.to_string()))
        .unwrap_or_default();
    assert!(
        text.contains("does not fit the 16-bit Length field"),
        "panic text was: {text}"
    );
}
