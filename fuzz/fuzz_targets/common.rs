// Shared by the libFuzzer targets: the property whose oracle is armed is chosen with VF_PROP (and VF_PART
// for tape targets). Only that property's oracle aborts; crate panics are caught in-target by vcore's guard
// (which replaces libfuzzer-sys's aborting panic hook with a silent one).
use std::sync::OnceLock;
use vcore::cx::{Cx, Failure};

pub struct Conf {
    pub prop: String,
    pub part: String,
    pub def: &'static vcore::prop::PropDef,
}

pub fn conf() -> &'static Conf {
    static C: OnceLock<Conf> = OnceLock::new();
    C.get_or_init(|| {
        let prop = std::env::var("VF_PROP").unwrap_or_else(|_| "C01".to_string());
        let part = std::env::var("VF_PART").unwrap_or_else(|_| "wire".to_string());
        let def = vcore::prop::find(&prop).expect("VF_PROP names no property");
        vcore::cx::install_silent_hook();
        vcore::cx::FUZZ_MODE.store(true, std::sync::atomic::Ordering::Relaxed);
        Conf { prop, part, def }
    })
}

thread_local! {
    pub static CX: std::cell::RefCell<Cx> = std::cell::RefCell::new({
        let mut c = Cx::new();
        c.strict = true;
        c.sample_cap = 0;
        c
    });
}

pub fn verdict(r: Result<(), Failure>) {
    // the Cx only accumulates counters here; keep it from growing
    CX.with(|c| {
        let mut c = c.borrow_mut();
        if c.nontrivial.len() > 100_000 {
            c.nontrivial.clear();
        }
    });
    if let Err(f) = r {
        if f.rendered.get("harness_bug").is_some() {
            eprintln!("HARNESS-BUG: {}", f.reason);
        } else {
            eprintln!("ORACLE-FAILURE property={} reason={}", conf().prop, f.reason);
            eprintln!("ORACLE-RENDERED {}", f.rendered);
        }
        std::process::abort();
    }
}
