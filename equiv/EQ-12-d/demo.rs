// Demo for change `d`: hide() assembles plaintext and padding in ONE buffer that is sized up
// front, and feeds MD5 incrementally instead of concatenating its input into a scratch Vec.
// The hidden value is octet-for-octet the same; what differs is the allocation pattern and the
// spare capacity of the returned `Hidden::value`, both observable through public means.
use rl2tp::avp::types::RandomVector;
use rl2tp::avp::AVP;
use std::alloc::{GlobalAlloc, Layout, System};
use std::cell::Cell;

thread_local! {
    static CALLS: Cell<usize> = const { Cell::new(0) };
}

struct Counting;

fn record() {
    let _ = CALLS.try_with(|c| c.set(c.get() + 1));
}

unsafe impl GlobalAlloc for Counting {
    unsafe fn alloc(&self, layout: Layout) -> *mut u8 {
        record();
        System.alloc(layout)
    }
    unsafe fn dealloc(&self, ptr: *mut u8, layout: Layout) {
        System.dealloc(ptr, layout)
    }
    unsafe fn realloc(&self, ptr: *mut u8, layout: Layout, new_size: usize) -> *mut u8 {
        record();
        System.realloc(ptr, layout, new_size)
    }
}

#[global_allocator]
static GLOBAL: Counting = Counting;

/// allocator calls (alloc + realloc) made by `f` on this thread
fn measure<T>(f: impl FnOnce() -> T) -> (T, usize) {
    let c0 = CALLS.with(|c| c.get());
    let result = f();
    let c1 = CALLS.with(|c| c.get());
    (result, c1 - c0)
}

const SECRET: &[u8] = b"my_super_secret";

fn rv() -> RandomVector {
    [0xde, 0xad, 0xbe, 0xef].into()
}

fn value_of(avp: AVP) -> Vec<u8> {
    match avp {
        AVP::Hidden(h) => h.value,
        other => panic!("not hidden: {other:?}"),
    }
}

#[test]
fn hide_allocates_exactly_once_and_exactly_enough() {
    let cases: Vec<(AVP, usize, usize)> = vec![
        // (avp, length padding octets, expected hidden value size)
        (AVP::AssignedTunnelId(0x1234.into()), 0, 16),
        (AVP::AssignedTunnelId(0x1234.into()), 13, 32),
        (AVP::HostName(vec![b'x'; 40].into()), 100, 144),
        (AVP::HostName(vec![b'x'; 14].into()), 0, 16),
        (AVP::HostName(vec![b'x'; 500].into()), 300, 816),
    ];
    for (avp, lp_len, expected_size) in cases {
        let lp = vec![0x77u8; lp_len];
        let rv = rv();
        let (hidden, calls) = measure(|| avp.hide(SECRET, &rv, &lp, &[0xaa; 16]));
        let value = value_of(hidden);
        assert_eq!(value.len(), expected_size);
        // one buffer, requested once, no spare room (before: amortised Vec growth from empty
        // plus a separate MD5 scratch buffer, i.e. 2 to 7 allocator calls and usually slack)
        assert_eq!(calls, 1, "allocator calls for value of {expected_size} octets");
        assert_eq!(value.capacity(), value.len());
    }
}

#[test]
fn hidden_octets_are_what_they_were() {
    // the vector of the crate's own unit test, value computed with the unmodified crate
    let avp = AVP::VendorName("test vendor".to_owned().into());
    let lp = [0u8, 1, 2, 3, 4, 5, 6, 7];
    let ap: [u8; 16] = core::array::from_fn(|i| i as u8);
    let hidden = avp.clone().hide(SECRET, &rv(), &lp, &ap);
    assert_eq!(hidden.clone().reveal(SECRET, &rv()), Ok(avp));
    let value = value_of(hidden);
    assert_eq!(
        value,
        [
            247, 199, 169, 136, 205, 84, 74, 44, 195, 31, 37, 63, 144, 42, 213, 151, 115, 155,
            156, 68, 21, 35, 58, 242, 13, 200, 182, 219, 158, 211, 135, 85
        ]
    );
}
