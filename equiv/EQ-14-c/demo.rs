// Demo for change `c`: DataMessage::write assembles the header on the stack and
// issues exactly one write_bytes call for it, one more for a non-empty payload
// and none for an empty payload.

use rl2tp::common::Writer;
use rl2tp::{DataMessage, Message};

#[derive(Default)]
struct Rec {
    data: Vec<u8>,
    calls: Vec<String>,
}

impl Writer for Rec {
    fn is_empty(&self) -> bool {
        self.data.is_empty()
    }
    fn len(&self) -> usize {
        self.data.len()
    }
    fn write_bytes(&mut self, bytes: &[u8]) {
        self.calls.push(format!("write_bytes({})", bytes.len()));
        self.data.extend_from_slice(bytes);
    }
    fn write_bytes_at(&mut self, bytes: &[u8], offset: usize) {
        self.calls
            .push(format!("write_bytes_at({},{})", bytes.len(), offset));
        assert!(offset + bytes.len() <= self.data.len());
        self.data[offset..offset + bytes.len()].copy_from_slice(bytes);
    }
    fn write_u8(&mut self, value: u8) {
        self.calls.push("write_u8".to_owned());
        self.data.push(value);
    }
    fn write_u16_be(&mut self, value: u16) {
        self.calls.push("write_u16_be".to_owned());
        self.data.extend_from_slice(&value.to_be_bytes());
    }
    fn write_u32_be(&mut self, value: u32) {
        self.calls.push("write_u32_be".to_owned());
        self.data.extend_from_slice(&value.to_be_bytes());
    }
    fn write_u64_be(&mut self, value: u64) {
        self.calls.push("write_u64_be".to_owned());
        self.data.extend_from_slice(&value.to_be_bytes());
    }
}

#[test]
fn full_header_is_one_call() {
    let m = Message::Data(DataMessage {
        is_prioritized: true,
        length: Some(18),
        tunnel_id: 0x0102,
        session_id: 0x0304,
        ns_nr: Some((0x0506, 0x0708)),
        offset: None,
        data: vec![0xde, 0xad, 0xbe, 0xef, 0x00, 0x01],
    });
    let mut w = Rec::default();
    m.write(&mut w);
    assert_eq!(
        w.data,
        vec![
            0x92, 0x20, 0x00, 0x12, 0x01, 0x02, 0x03, 0x04, 0x05, 0x06, 0x07, 0x08, 0xde, 0xad,
            0xbe, 0xef, 0x00, 0x01
        ]
    );
    assert_eq!(
        w.calls,
        vec!["write_bytes(12)".to_owned(), "write_bytes(6)".to_owned()]
    );
}

#[test]
fn minimal_header_and_empty_payload() {
    let m = Message::Data(DataMessage {
        is_prioritized: false,
        length: None,
        tunnel_id: 5,
        session_id: 6,
        ns_nr: None,
        offset: None,
        data: Vec::<u8>::new(),
    });
    let mut w = Rec::default();
    m.write(&mut w);
    assert_eq!(w.data, vec![0x00, 0x20, 0x00, 0x05, 0x00, 0x06]);
    // one call for the header, none for the empty payload
    assert_eq!(w.calls, vec!["write_bytes(6)".to_owned()]);
}
