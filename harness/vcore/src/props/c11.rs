// C11 — hiding then revealing an AVP with the same secret and random vector returns it.
use crate::cx::*;
use crate::gen::*;
use crate::glue::*;
use crate::prop::*;
use rl2tp::avp::AVP;
use rl2tp::common::{SliceReader, VecWriter};
use serde_json::{json, Value};

pub static DEF: PropDef = PropDef {
    id: "C11",
    title: "Hiding then revealing returns the AVP",
    rule: "G-hide tapes: any of the 39 non-hidden kinds over its encodable value range with payload <= 1006 octets (Sequencing Required is the empty-payload case), secret of 0..64 octets (incl. empty), \
any 4-octet random vector, length padding chosen so that 2 + |payload| + |lp| <= 1008 by construction with sizes steered to block counts 1, 2, 3, >= 4 and to exact multiples of 16, any alignment padding. \
Oracle: reveal(hide(a,s,rv,lp,ap),s,rv) = Ok(a) directly, and again after the hidden AVP went through AVP::write -> try_read_greedy, and again after it travelled inside an encoded and decoded control message next to the Random Vector AVP carrying rv; hide(h) = h for hidden h; reveal(a) = Ok(a) for non-hidden a. \
Non-trivial = at least 2 cipher blocks, or empty secret, or empty length padding, or plaintext an exact multiple of 16; distinct by hash of (AVP, secret, rv, paddings).",
    assumptions: &[],
    parts,
    run_tape,
    run_enum: no_enum,
    run_concrete,
    both_profiles: true,
    exhaustive_note: "",
};

fn parts(t: Tier) -> Vec<Part> {
    let (a, b) = match t {
        Tier::Quick => (600_000, 180_000),
        Tier::Thorough => (8_000_000, 2_000_000),
    };
    vec![tape("hide-reveal", a, 1500), tape("identity", b, 1300), tape("related-secrets", a / 3, 1500)]
}

pub fn block_class(n: usize) -> &'static str {
    match n {
        0 => "blocks 0",
        1 => "blocks 1",
        2 => "blocks 2",
        3 => "blocks 3",
        4..=8 => "blocks 4..8",
        _ => "blocks > 8",
    }
}

fn check_hide_reveal(h: &HideCase, cx: &mut Cx) -> Res {
    cx.eval();
    let render = || json!({"avp": format!("{:?}", h.avp), "secret": hex(&h.secret), "random_vector": hex(&h.rv), "length_padding": hex_short(&h.lp), "alignment_padding": hex(&h.ap)});
    let ca = to_crate(&h.avp);
    cx.stage(STAGE_ARMED);
    let r = guard(|| {
        let hid = ca.clone().hide(&h.secret, &h.rv.into(), &h.lp, &h.ap);
        let blocks = match &hid {
            AVP::Hidden(x) => x.value.len() / 16,
            _ => return Err("hide() of a non-hidden AVP did not return a hidden AVP".to_string()),
        };
        match hid.clone().reveal(&h.secret, &h.rv.into()) {
            Ok(b) if b == ca => {}
            Ok(b) => return Err(format!("reveal(hide(a)) returned a different AVP: {:?}", from_crate(&b))),
            Err(e) => return Err(format!("reveal(hide(a)) returned an error: {:?}", e)),
        }
        // through the wire
        let mut w = VecWriter::new();
        hid.write(&mut w);
        let mut rd = SliceReader::from(&w.data[..]);
        let v = AVP::try_read_greedy(&mut rd);
        if v.len() != 1 {
            return Err(format!("the encoded hidden AVP decoded to {} elements", v.len()));
        }
        let back = match v.into_iter().next().unwrap() {
            Ok(x) => x,
            Err(e) => return Err(format!("the encoded hidden AVP did not decode: {:?}", e)),
        };
        if back != hid {
            return Err("the hidden AVP changed on its way through encode/decode".to_string());
        }
        // inside a control message, next to the Random Vector AVP that carries rv
        {
            use rl2tp::avp::types::{MessageType, RandomVector};
            let msg: rl2tp::Message<&[u8]> = rl2tp::Message::Control(rl2tp::ControlMessage {
                length: 0,
                tunnel_id: 7,
                session_id: 0,
                ns: 1,
                nr: 2,
                avps: vec![AVP::MessageType(MessageType::IncomingCallRequest), AVP::RandomVector(RandomVector::from(h.rv)), hid.clone()],
            });
            let mut mw = VecWriter::new();
            msg.write(&mut mw);
            let mut mr = SliceReader::from(&mw.data[..]);
            let d: Result<rl2tp::Message<&[u8]>, _> = rl2tp::Message::try_read(&mut mr);
            match d {
                Ok(rl2tp::Message::Control(c)) if c.avps.len() == 3 => {
                    let rv = match &c.avps[1] {
                        AVP::RandomVector(r) => *r,
                        other => return Err(format!("the Random Vector AVP came back as {:?}", from_crate(other))),
                    };
                    match c.avps[2].clone().reveal(&h.secret, &rv) {
                        Ok(b) if b == ca => {}
                        other => return Err(format!("reveal of the hidden AVP taken from a decoded control message returned {:?}", other.map(|x| from_crate(&x)))),
                    }
                }
                other => return Err(format!("a control message carrying the hidden AVP did not decode to 3 AVPs: {:?}", other.map(|m| from_crate_msg(&m)))),
            }
        }
        match back.reveal(&h.secret, &h.rv.into()) {
            Ok(b) if b == ca => Ok(blocks),
            Ok(b) => Err(format!("reveal(decode(encode(hide(a)))) returned a different AVP: {:?}", from_crate(&b))),
            Err(e) => Err(format!("reveal(decode(encode(hide(a)))) returned an error: {:?}", e)),
        }
    });
    cx.stage(STAGE_SETUP);
    let blocks = match r {
        Caught::Ok(Ok(b)) => b,
        Caught::Ok(Err(why)) => return fail(why, render()),
        Caught::Panic(p) => return fail(format!("hide/reveal panicked inside the stated size limits: {}", p.short()), render()),
        Caught::Monitor(_) => return fail("unexpected panic payload", render()),
    };
    let exact = (2 + h.payload.len() + h.lp.len()) % 16 == 0;
    if blocks >= 2 || h.secret.is_empty() || h.lp.is_empty() || exact {
        cx.nontrivial(&(h.avp.attr, &h.payload, &h.secret, h.rv, &h.lp, h.ap));
    }
    cx.class(block_class(blocks));
    if h.secret.is_empty() {
        cx.class("empty secret");
    }
    if h.lp.is_empty() {
        cx.class("empty length padding");
    }
    if exact {
        cx.class("plaintext an exact multiple of 16 (no alignment padding)");
    }
    cx.class_dyn(format!("kind {:02}", h.avp.attr));
    cx.sample(block_class(blocks), || json!({"attribute_type": h.avp.attr, "payload_octets": h.payload.len(), "secret_octets": h.secret.len(), "length_padding_octets": h.lp.len(), "blocks": blocks, "family": "hide-reveal"}));
    Ok(())
}

fn check_identity(t: &mut Tape, cx: &mut Cx) -> Res {
    cx.eval();
    let a = gen_avp(t);
    let sl = t.below(20);
    let secret = t.blob(sl);
    let rv = t.u32().to_be_bytes();
    let lpn = t.below(30);
    let lp = t.blob(lpn);
    let ap = [t.byte(); 16];
    let ca = to_crate(&a);
    let render = || json!({"avp": format!("{:?}", a), "secret": hex(&secret)});
    cx.stage(STAGE_ARMED);
    let r = guard(|| {
        if a.hidden {
            let h = ca.clone().hide(&secret, &rv.into(), &lp, &ap);
            if h != ca {
                return Err("hide() changed an already hidden AVP".to_string());
            }
        } else {
            match ca.clone().reveal(&secret, &rv.into()) {
                Ok(b) if b == ca => {}
                Ok(_) => return Err("reveal() changed a non-hidden AVP".to_string()),
                Err(e) => return Err(format!("reveal() of a non-hidden AVP returned an error: {:?}", e)),
            }
        }
        Ok(())
    });
    cx.stage(STAGE_SETUP);
    match r {
        Caught::Ok(Ok(())) => {}
        Caught::Ok(Err(why)) => return fail(why, render()),
        Caught::Panic(p) => return fail(format!("identity case panicked: {}", p.short()), render()),
        Caught::Monitor(_) => return fail("unexpected panic payload", render()),
    }
    cx.class(if a.hidden { "hide(h) = h" } else { "reveal(a) = Ok(a)" });
    cx.nontrivial(&(format!("{:?}", a), &secret, 9u8));
    cx.sample("identity", || json!({"avp": format!("{:?}", crate::props::c07_abbrev(&a)), "family": "identity"}));
    Ok(())
}

fn run_tape(part: &str, tape: &[u8], cx: &mut Cx) -> Res {
    let mut t = Tape::new(tape);
    match part {
        "related-secrets" => {
            // two round trips back to back on one thread that differ only in a related secret
            let h1 = gen_hide(&mut t);
            let s2 = related_secret_for(&mut t, &h1.secret, Some(h1.avp.attr.to_be_bytes()));
            let h2 = HideCase { avp: h1.avp.clone(), payload: h1.payload.clone(), secret: s2, rv: h1.rv, lp: h1.lp.clone(), ap: h1.ap };
            check_hide_reveal(&h1, cx)?;
            check_hide_reveal(&h2, cx)?;
            check_hide_reveal(&h1, cx)
        }
        "hide-reveal" => {
            crate::props::history::prior_ops(&mut t, cx, true);
            check_hide_reveal(&gen_hide(&mut t), cx)
        }
        _ => check_identity(&mut t, cx),
    }
}

fn run_concrete(case: &Value, _cx: &mut Cx) -> Res {
    fail("C11 has no concrete case format (replay the tape)", case.clone())
}
