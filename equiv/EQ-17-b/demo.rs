// Change `b`: behaviour of SliceReader / VecWriter on calls that VIOLATE their
// precondition. skip_bytes / subreader past the end clamp instead of panicking;
// a refused write_bytes_at is refused with a descriptive message computed with
// overflow-proof arithmetic. Every in-contract call behaves as before.
use rl2tp::common::{Reader, SliceReader, VecWriter, Writer};
use std::panic::{catch_unwind, AssertUnwindSafe};

#[test]
fn skip_past_the_end_leaves_the_reader_empty() {
    let input = [1u8, 2, 3];
    let mut r = SliceReader::from(&input);
    r.skip_bytes(10); // precondition violated: used to panic
    assert!(r.is_empty());
    assert_eq!(r.len(), 0);
    assert_eq!(r.bytes(1), None);

    let mut r = SliceReader::from(&input);
    r.skip_bytes(usize::MAX);
    assert!(r.is_empty());
}

#[test]
fn subreader_past_the_end_is_clamped() {
    let input = [1u8, 2, 3];
    let mut r = SliceReader::from(&input);
    r.skip_bytes(1); // in contract
    let mut sub = r.subreader(7); // precondition violated: used to panic
    assert_eq!(sub.len(), 2);
    assert_eq!(sub.bytes(2), Some(&input[1..]));
    assert!(r.is_empty());
}

#[test]
fn in_contract_reader_calls_are_unchanged() {
    let input = [1u8, 2, 3, 4];
    let mut r = SliceReader::from(&input);
    r.skip_bytes(0);
    assert_eq!(r.len(), 4);
    let mut sub = r.subreader(1);
    assert_eq!(unsafe { sub.read_u8_unchecked() }, 1);
    r.skip_bytes(1);
    assert_eq!(r.bytes(3), None);
    assert_eq!(r.len(), 2);
    let mut all = r.subreader(2);
    assert!(r.is_empty());
    assert_eq!(unsafe { all.read_u16_be_unchecked() }, 0x0304);
    r.skip_bytes(0);
    let empty = r.subreader(0);
    assert!(empty.is_empty());
}

fn refusal_message(w: &mut VecWriter, bytes: &[u8], offset: usize) -> String {
    let before = w.data.clone();
    let err = catch_unwind(AssertUnwindSafe(|| w.write_bytes_at(bytes, offset)))
        .expect_err("an overwrite outside the written data must be refused");
    assert_eq!(w.data, before, "a refused overwrite must not touch the buffer");
    if let Some(s) = err.downcast_ref::<String>() {
        s.clone()
    } else if let Some(s) = err.downcast_ref::<&str>() {
        s.to_string()
    } else {
        String::new()
    }
}

#[test]
fn refused_overwrite_says_why() {
    let mut w = VecWriter::new();
    w.write_bytes(&[1, 2, 3, 4]);

    // in contract: applied in place, length unchanged
    w.write_bytes_at(&[9, 8], 2);
    w.write_bytes_at(&[], 4);
    assert_eq!(w.data, [1, 2, 9, 8]);

    assert_eq!(
        refusal_message(&mut w, &[7, 7], 3),
        "write_bytes_at refused: 2 octet(s) at offset 3 do not lie inside the 4 octet(s) written"
    );
    assert_eq!(
        refusal_message(&mut w, &[7, 7], usize::MAX),
        format!(
            "write_bytes_at refused: 2 octet(s) at offset {} do not lie inside the 4 octet(s) written",
            usize::MAX
        )
    );
    assert_eq!(
        refusal_message(&mut w, &[], 5),
        "write_bytes_at refused: 0 octet(s) at offset 5 do not lie inside the 4 octet(s) written"
    );
}
