#![no_main]
// the fuzz input is the generator tape: coverage-guided mutation works on structure
mod common;
use libfuzzer_sys::fuzz_target;

fuzz_target!(|data: &[u8]| {
    let c = common::conf();
    let r = common::CX.with(|cx| (c.def.run_tape)(&c.part, data, &mut cx.borrow_mut()));
    common::verdict(r);
});
