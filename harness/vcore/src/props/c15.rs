// C15 — control messages: all-or-nothing acceptance and a complete, ordered error list.
use crate::cx::*;
use crate::gen::*;
use crate::glue::*;
use crate::prop::*;
use crate::spec::*;
use rl2tp::common::DecodeError;
use serde_json::{json, Value};

pub static DEF: PropDef = PropDef {
    id: "C15",
    title: "Control messages: all-or-nothing acceptance, complete ordered error list",
    rule: "Control messages assembled from k = 0..12 well-delimited AVP records (and, in 4 % of the cases, long bodies of 33..~700 records with up to 512 bad ones carrying pairwise different identifying values) of which a chosen subset J is made individually undecodable, each bad record carrying an identifying value: unknown attribute type, \
vendor id != 0, payload below the kind's minimum, invalid UTF-8 (kinds 8, 21, 22, 23, 12, 1), unknown message-type code in a non-first Message Type, bad error-type code, bad proxy-authen type. The first record \
is a valid Message Type (main case), absent (ZLB), a different valid kind, or undecodable; optionally a final record with an unusable length field (< 6 or beyond the region) followed by junk. \
Oracle: Ok iff J is empty and the first record is a Message Type (or k = 0), and then the value equals the good records' values; otherwise Err with a non-empty list; with a valid first Message Type the list \
equals, element for element and in wire order, the stated error of each bad record (+ exactly one final error for the unusable-length record); records after an unusable length contribute nothing. \
Non-trivial = |J| >= 1; distinct by hash of the message octets.",
    assumptions: &["for a bad proxy-authen type no property states the variant: any single error carrying 29 or the code is accepted; for the unusable-length record any single error is accepted"],
    parts,
    run_tape,
    run_enum,
    run_concrete,
    both_profiles: true,
    exhaustive_note: "",
};

fn parts(t: Tier) -> Vec<Part> {
    let a = match t {
        Tier::Quick => 900_000,
        Tier::Thorough => 10_000_000,
    };
    vec![tape("faults", a, 1500), enumerate("vendor-ids", 65536)]
}

#[derive(Debug)]
enum Expect {
    Exactly(DecodeError),
    /// any single error whose payload is one of these
    Carrying(Vec<u16>),
    Any,
}

fn rec(w: &mut Vec<u8>, o1_extra: u8, vendor: u16, attr: u16, payload: &[u8]) {
    let len = 6 + payload.len();
    w.extend_from_slice(&[(((len >> 8) as u8) << 6) | o1_extra, len as u8]);
    w.extend_from_slice(&vendor.to_be_bytes());
    w.extend_from_slice(&attr.to_be_bytes());
    w.extend_from_slice(payload);
}

const UNASSIGNED_SMALL: [u16; 6] = [20, 40, 41, 42, 100, 255];

/// a bad record and the error it must produce
fn gen_bad(t: &mut Tape, w: &mut Vec<u8>, cx: &mut Cx) -> Expect {
    let m = t.byte() & 0x01;
    match t.below(8) {
        0 => {
            cx.class("fault: unknown attribute type");
            let x = if t.chance(50) { UNASSIGNED_SMALL[t.below(6)] } else { 40 + t.below(65496) as u16 };
            let n = t.below(12);
            let p = t.blob(n);
            rec(w, m, 0, x, &p);
            Expect::Exactly(DecodeError::UnknownAvp(x))
        }
        1 => {
            cx.class("fault: vendor id");
            let v = 1 + t.below(65535) as u16;
            let attr = if t.chance(70) { ASSIGNED[t.below(39)] } else { t.u16() };
            let h = if t.chance(20) { 0x02 } else { 0 };
            let n = t.below(12);
            let p = t.blob(n);
            rec(w, m | h, v, attr, &p);
            Expect::Exactly(DecodeError::UnsupportedVendorId(v))
        }
        2 => {
            cx.class("fault: payload below the minimum");
            // kinds with a minimum >= 1
            let kinds: Vec<u16> = ASSIGNED.iter().copied().filter(|a| fmt_of(*a).map(min_len).unwrap_or(0) >= 1).collect();
            let attr = kinds[t.below(kinds.len())];
            let min = min_len(fmt_of(attr).unwrap());
            let n = t.below(min);
            let p = t.blob(n);
            rec(w, m, 0, attr, &p);
            Expect::Exactly(DecodeError::IncompleteAVP(attr))
        }
        3 => {
            cx.class("fault: invalid utf-8");
            let attr = [8u16, 21, 22, 23, 12, 1][t.below(6)];
            let mut p = match attr {
                12 => vec![t.byte(), t.byte(), t.byte()],
                1 => vec![t.byte(), t.byte(), 0, t.below(9) as u8],
                _ => vec![],
            };
            let n = t.below(6);
            p.extend_from_slice(t.utf8(n).as_bytes());
            p.push([0xff, 0xc0, 0x80, 0xf8, 0xed][t.below(5)]);
            if p[p.len() - 1] == 0xed {
                p.extend_from_slice(&[0xa0, 0x80]); // a UTF-16 surrogate
            }
            let n2 = t.below(4);
            p.extend_from_slice(t.utf8(n2).as_bytes());
            rec(w, m, 0, attr, &p);
            Expect::Exactly(DecodeError::InvalidUtf8(attr))
        }
        4 => {
            cx.class("fault: unknown message-type code");
            let x = loop {
                let x = if t.chance(50) { [0u16, 5, 13, 17, 18, 255, 256][t.below(7)] } else { t.u16() };
                if !MSG_TYPES.contains(&x) {
                    break x;
                }
            };
            rec(w, m, 0, 0, &x.to_be_bytes());
            Expect::Exactly(DecodeError::UnknownMessageType(x))
        }
        5 => {
            cx.class("fault: bad error-type code");
            let x = 9 + t.below(65527) as u16;
            let mut p = t.u16().to_be_bytes().to_vec();
            p.extend_from_slice(&x.to_be_bytes());
            if t.chance(50) {
                p.extend_from_slice(b"why");
            }
            rec(w, m, 0, 1, &p);
            Expect::Exactly(DecodeError::InvalidResultCodeErrorType(x))
        }
        6 => {
            cx.class("fault: bad proxy-authen type");
            let x = 6 + t.below(65530) as u16;
            rec(w, m, 0, 29, &x.to_be_bytes());
            Expect::Carrying(vec![29, x])
        }
        _ => {
            cx.class("fault: unknown attribute type");
            let x = 20;
            rec(w, m, 0, x, &[]);
            Expect::Exactly(DecodeError::UnknownAvp(x))
        }
    }
}

/// long bodies: 33 .. ~700 records, bad ones with pairwise different identifying values (unknown types 40, 41, ... or vendor
/// ids 1, 2, ...), the number of bad records sometimes exactly 8, 9, 64, 65, 255, 256, 257 or 512
fn check_many(t: &mut Tape, cx: &mut Cx) -> Res {
    cx.eval();
    let n_bad = match t.below(4) {
        0 => [8usize, 9, 16, 17, 64, 65, 255, 256, 257, 512][t.below(10)],
        _ => 1 + t.below(120),
    };
    let n_good = match t.below(3) {
        0 => 0,
        1 => 1 + t.below(40),
        _ => n_bad / 2 + t.below(200),
    };
    let vendor_mode = t.chance(40);
    let total = n_bad + n_good;
    // positions of the bad records: spread deterministically from two tape octets
    let step = 1 + t.below(7);
    let phase = t.below(total.max(1));
    let mut is_bad = vec![false; total];
    let mut placed = 0;
    let mut p = phase;
    while placed < n_bad {
        if !is_bad[p % total] {
            is_bad[p % total] = true;
            placed += 1;
            p += step;
        } else {
            p += 1;
        }
    }
    let mut body = Vec::new();
    let mut good: Vec<SAvp> = vec![SAvp { attr: 0, hidden: false, body: Body::U16(MSG_TYPES[t.below(14)]) }];
    encode_avp(&good[0], &mut body);
    let mut expected: Vec<DecodeError> = Vec::new();
    for (i, bad) in is_bad.iter().enumerate() {
        if *bad {
            let id = (expected.len() + 1) as u16;
            if vendor_mode {
                rec(&mut body, 1, id, 7, &[0x41]);
                expected.push(DecodeError::UnsupportedVendorId(id));
            } else {
                rec(&mut body, 1, 0, 39 + id, &[]);
                expected.push(DecodeError::UnknownAvp(39 + id));
            }
        } else {
            let a = SAvp { attr: 9, hidden: false, body: Body::U16(i as u16) };
            encode_avp(&a, &mut body);
            good.push(a);
        }
    }
    let msg = control_around(t, &body);
    let render = || json!({"input": hex_short(&msg), "records": total + 1, "bad_records": n_bad, "bad_kind": if vendor_mode { "vendor id 1.." } else { "unknown type 40.." }});
    cx.stage(STAGE_ARMED);
    let r = crate_decode(&msg, STRICT);
    cx.stage(STAGE_SETUP);
    match r {
        Caught::Ok(Err(errs)) => {
            if errs != expected {
                let first = errs.iter().zip(expected.iter()).position(|(a, b)| a != b).unwrap_or(errs.len().min(expected.len()));
                let mut v = render();
                v["errors_reported"] = json!(errs.len());
                v["first_difference_at"] = json!(first);
                v["reported_there"] = json!(format!("{:?}", errs.get(first)));
                v["expected_there"] = json!(format!("{:?}", expected.get(first)));
                return fail(format!("{} errors reported for {} undecodable records, or not in wire order (first difference at #{})", errs.len(), expected.len(), first), v);
            }
        }
        Caught::Ok(Ok(_)) => return fail(format!("a control message with {} undecodable records was accepted", n_bad), render()),
        Caught::Panic(p) => return fail(format!("decoder panicked: {}", p.short()), render()),
        Caught::Monitor(_) => return fail("unexpected monitor payload", render()),
    }
    cx.nontrivial(&msg);
    cx.class(match n_bad {
        0..=8 => "long body: <= 8 bad records",
        9..=64 => "long body: 9..64 bad records",
        65..=255 => "long body: 65..255 bad records",
        _ => "long body: >= 256 bad records",
    });
    cx.sample("long-bodies", || json!({"records": total + 1, "bad_records": n_bad, "input": hex_short(&msg), "family": "long-bodies"}));
    Ok(())
}

fn check(t: &mut Tape, cx: &mut Cx) -> Res {
    if t.chance(4) {
        return check_many(t, cx);
    }
    cx.eval();
    let k = match t.below(10) {
        0 => 0,
        9 => 1 + t.below(12),
        _ => 1 + t.below(6),
    };
    let mut body = Vec::new();
    let mut good: Vec<SAvp> = Vec::new();
    let mut expected: Vec<Expect> = Vec::new();
    let mut first_is_msgtype = true;
    let mut good_after_bad = false;
    for i in 0..k {
        if i == 0 {
            match t.below(10) {
                0 => {
                    // a different, valid kind first
                    let attr = ASSIGNED[1 + t.below(38)];
                    let a = SAvp { attr, hidden: false, body: gen_body_max(t, attr, 60) };
                    encode_avp(&a, &mut body);
                    good.push(a);
                    first_is_msgtype = false;
                    cx.class("first record: a different valid kind");
                }
                1 => {
                    let e = gen_bad(t, &mut body, cx);
                    expected.push(e);
                    first_is_msgtype = false;
                    cx.class("first record: undecodable");
                }
                _ => {
                    let a = msg_type_avp(t);
                    encode_avp(&a, &mut body);
                    good.push(a);
                }
            }
            continue;
        }
        if t.chance(35) {
            let e = gen_bad(t, &mut body, cx);
            expected.push(e);
        } else {
            let a = if t.chance(10) {
                let attr = t.b_u16();
                let n = 1 + t.below(40);
                SAvp { attr, hidden: true, body: Body::Opaque(t.blob(n)) }
            } else {
                let attr = ASSIGNED[t.below(39)];
                SAvp { attr, hidden: false, body: gen_body_max(t, attr, 60) }
            };
            encode_avp(&a, &mut body);
            if !expected.is_empty() {
                good_after_bad = true;
            }
            good.push(a);
        }
    }
    // optionally one final record with an unusable length, followed by junk that must contribute nothing
    let mut unusable = false;
    let mut unusable_done = false;
    if k > 0 && t.chance(15) {
        unusable = true;
        let junk_n = t.below(30);
        let junk = t.raw(junk_n);
        let len = if t.chance(50) { t.below(6) } else { 6 + junk.len() + 1 + t.below(40) }.min(0x3ff);
        let attr = ASSIGNED[t.below(39)];
        if t.chance(15) {
            // a header of six zero octets (what a zero-filled buffer looks like): still an AVP with an unusable length
            body.extend_from_slice(&[0, 0, 0, 0, 0, 0]);
            body.extend_from_slice(&junk);
            expected.push(Expect::Any);
            cx.class("final record: an all-zero header");
            unusable_done = true;
        }
        if !unusable_done {
            // ... whatever its other header fields say: H bit, vendor id (the length is judged before anything else)
            let vend: u16 = if t.chance(40) { 1 + t.below(65535) as u16 } else { 0 };
            let hbit = if t.chance(20) { 0x02 } else { 0 };
            body.extend_from_slice(&[(((len >> 8) as u8) << 6) | 1 | hbit, len as u8]);
            body.extend_from_slice(&vend.to_be_bytes());
            body.extend_from_slice(&attr.to_be_bytes());
            body.extend_from_slice(&junk);
        }
        // junk that looks like a bad record must not add an error
        if t.chance(50) && len >= 6 {
            // (only reachable when the length is beyond the region: everything after the header is swallowed)
        }
        if !unusable_done {
            expected.push(Expect::Any);
        }
        cx.class("final record with an unusable length");
    }
    let mut msg = control_around(t, &body);
    // octets after the declared end of the message (another message, a few octets, exactly one header's worth) change nothing
    if t.chance(20) {
        let n = [12usize, 6, 1, 20][t.below(4)] + if t.chance(30) { t.below(30) } else { 0 };
        let extra = if t.chance(50) { vec![0x13, 0x20, 0, 12, 0, 0, 0, 0, 0, 0, 0, 0] } else { t.raw(n) };
        msg.extend_from_slice(&extra[..n.min(extra.len())]);
        cx.class("octets follow the message in the buffer");
    }
    let n_bad = expected.len();
    let render = || json!({"input": hex(&msg), "bad_records": n_bad, "expected_errors": format!("{:?}", expected)});

    // the reference must agree with the construction (a generator bug is not a finding)
    let sref = decode_message(&msg, STRICT);
    let should_accept = n_bad == 0 && (k == 0 || first_is_msgtype);
    if sref.is_ok() != should_accept {
        return fail("harness: C15 construction disagrees with the reference decoder", json!({"input": hex(&msg), "harness_bug": true}));
    }
    cx.stage(STAGE_ARMED);
    let r = crate_decode(&msg, STRICT);
    cx.stage(STAGE_SETUP);
    match r {
        Caught::Panic(p) => return fail(format!("decoder panicked: {}", p.short()), render()),
        Caught::Monitor(_) => return fail("unexpected panic payload", render()),
        Caught::Ok(Ok((m, _))) => {
            if !should_accept {
                let mut v = render();
                v["crate"] = json!(format!("{:?}", m));
                return fail(format!("a control message with {} undecodable record(s){} was accepted", n_bad, if first_is_msgtype { "" } else { " / without a leading Message Type" }), v);
            }
            match &m {
                SMsg::Control { avps, .. } if *avps == good => {}
                _ => {
                    let mut v = render();
                    v["crate"] = json!(format!("{:?}", m));
                    return fail("accepted control message does not carry exactly the encoded AVPs", v);
                }
            }
            cx.class(if k == 0 { "accepted: ZLB" } else { "accepted: all records good" });
        }
        Caught::Ok(Err(errs)) => {
            if should_accept {
                return fail(format!("a control message whose records all decode was rejected: {:?}", errs), render());
            }
            if errs.is_empty() {
                return fail("rejected with an empty error list", render());
            }
            if first_is_msgtype && k > 0 {
                if errs.len() != expected.len() {
                    let mut v = render();
                    v["errors"] = json!(format!("{:?}", errs));
                    return fail(format!("{} errors reported for {} undecodable records", errs.len(), expected.len()), v);
                }
                for (i, (e, x)) in errs.iter().zip(expected.iter()).enumerate() {
                    let ok = match x {
                        Expect::Exactly(d) => e == d,
                        Expect::Carrying(vals) => error_payload(e).map(|p| vals.contains(&p)).unwrap_or(false),
                        Expect::Any => true,
                    };
                    if !ok {
                        let mut v = render();
                        v["errors"] = json!(format!("{:?}", errs));
                        return fail(format!("error #{} is {:?}, expected {:?} for the bad record at that position", i, e, x), v);
                    }
                }
            } else {
                cx.class("rejected: first record not a Message Type");
            }
        }
    }
    if n_bad >= 1 {
        cx.nontrivial(&msg);
    }
    cx.class(match n_bad {
        0 => "|J| = 0",
        1 => "|J| = 1",
        2 => "|J| = 2",
        _ => "|J| >= 3",
    });
    if good_after_bad {
        cx.class("a good record after a bad one");
    }
    let _ = unusable;
    cx.sample(if n_bad == 0 { "no-fault" } else { "faults" }, || json!({"input": hex_short(&msg), "records": k, "bad_records": n_bad, "family": "faults"}));
    Ok(())
}

fn run_tape(_part: &str, tape: &[u8], cx: &mut Cx) -> Res {
    let mut t = Tape::new(tape);
    check(&mut t, cx)
}

/// every vendor id, with the M bit set and clear and with the H bit: the message is rejected with exactly that vendor id
fn run_enum(_part: &str, index: u64, cx: &mut Cx) -> Res {
    let v = index as u16;
    for bits in [0x01u8, 0x00, 0x03, 0x3c] {
        cx.eval();
        let mut body = vec![0x01, 0x08, 0, 0, 0, 0, 0, 2];
        rec(&mut body, bits, v, 7, b"host");
        body.extend_from_slice(&[0x01, 0x08, 0, 0, 0, 9, 0, 77]);
        let mut m = vec![0x13, 0x20, 0, 0, 0, 1, 0, 2, 0, 3, 0, 4];
        m.extend_from_slice(&body);
        let l = m.len() as u16;
        m[2..4].copy_from_slice(&l.to_be_bytes());
        cx.stage(STAGE_ARMED);
        let r = crate_decode(&m, STRICT);
        cx.stage(STAGE_SETUP);
        match r {
            Caught::Ok(Ok(_)) if v == 0 && bits & 0x02 != 0 => {} // vendor 0 with H: an opaque hidden AVP
            Caught::Ok(Ok(_)) if v == 0 => {}                     // vendor 0: a plain Host Name
            Caught::Ok(Err(e)) if v != 0 && e.len() == 1 && e[0] == DecodeError::UnsupportedVendorId(v) => {}
            other => {
                let what = match other {
                    Caught::Ok(r) => format!("{:?}", r.map(|x| x.1)),
                    _ => "panic".to_string(),
                };
                return fail(
                    format!("vendor id {} on an AVP with header bits {:#04x} between two valid AVPs: result {} (a vendor-specific AVP makes the message rejected with exactly that vendor id)", v, bits, what),
                    json!({"input": hex(&m)}),
                );
            }
        }
    }
    cx.nontrivial(&(v, 15u8));
    Ok(())
}

fn run_concrete(case: &Value, _cx: &mut Cx) -> Res {
    fail("C15 has no concrete case format (replay the tape)", case.clone())
}
