// Demo for change `b`: ControlMessage::write assembles the whole control message (header, AVPs,
// patched Length field) in a private scratch buffer and hands it to the caller's writer with one
// single write_bytes call. The caller's writer sees no dummy length octets and no write_bytes_at.
//
// PASSES with the change, FAILS without it.

use rl2tp::avp::types::{HostName, MessageType, ReceiveWindowSize};
use rl2tp::avp::AVP;
use rl2tp::common::{VecWriter, Writer};
use rl2tp::{ControlMessage, Message};
use std::panic::{catch_unwind, AssertUnwindSafe};

#[derive(Debug, Clone, PartialEq, Eq)]
enum Call {
    Bytes(Vec<u8>),
    BytesAt(Vec<u8>, usize),
    U8(u8),
    U16(u16),
    U32(u32),
    U64(u64),
}

/// A conforming writer (plain byte vector) that additionally records every mutating call.
#[derive(Default)]
struct RecordingWriter {
    data: Vec<u8>,
    calls: Vec<Call>,
}

impl Writer for RecordingWriter {
    fn is_empty(&self) -> bool {
        self.data.is_empty()
    }
    fn len(&self) -> usize {
        self.data.len()
    }
    fn write_bytes(&mut self, bytes: &[u8]) {
        self.calls.push(Call::Bytes(bytes.to_vec()));
        self.data.extend_from_slice(bytes);
    }
    fn write_bytes_at(&mut self, bytes: &[u8], offset: usize) {
        self.calls.push(Call::BytesAt(bytes.to_vec(), offset));
        assert!(offset + bytes.len() <= self.data.len());
        self.data[offset..offset + bytes.len()].copy_from_slice(bytes);
    }
    fn write_u8(&mut self, value: u8) {
        self.calls.push(Call::U8(value));
        self.data.push(value);
    }
    fn write_u16_be(&mut self, value: u16) {
        self.calls.push(Call::U16(value));
        self.data.extend_from_slice(&value.to_be_bytes());
    }
    fn write_u32_be(&mut self, value: u32) {
        self.calls.push(Call::U32(value));
        self.data.extend_from_slice(&value.to_be_bytes());
    }
    fn write_u64_be(&mut self, value: u64) {
        self.calls.push(Call::U64(value));
        self.data.extend_from_slice(&value.to_be_bytes());
    }
}

fn message(avps: Vec<AVP>) -> Message<Vec<u8>> {
    Message::Control(ControlMessage {
        length: 0,
        tunnel_id: 0x0102,
        session_id: 0x0304,
        ns: 0x0506,
        nr: 0x0708,
        avps,
    })
}

#[test]
fn control_message_reaches_the_writer_in_one_piece() {
    let mut w = RecordingWriter::default();
    w.data.extend_from_slice(&[0xee; 5]); // content that is already there

    let msg = message(vec![
        AVP::MessageType(MessageType::Hello),
        AVP::ReceiveWindowSize(ReceiveWindowSize::from(4)),
    ]);
    msg.write(&mut w);

    let encoded: Vec<u8> = vec![
        0x13, 0x20, 0x00, 28, 0x01, 0x02, 0x03, 0x04, 0x05, 0x06, 0x07, 0x08, // header
        0x01, 8, 0, 0, 0, 0, 0, 6, // Message Type = Hello
        0x01, 8, 0, 0, 0, 10, 0, 4, // Receive Window Size = 4
    ];

    // Same octets as ever, appended behind the existing content ...
    let mut expected = vec![0xee; 5];
    expected.extend_from_slice(&encoded);
    assert_eq!(w.data, expected);

    // ... delivered with exactly one call, which already carries the final Length field.
    assert_eq!(w.calls, vec![Call::Bytes(encoded)]);
}

#[test]
fn oversize_control_message_is_refused_before_the_writer_is_touched() {
    let mut w = VecWriter::new();
    w.data.extend_from_slice(&[1, 2, 3]);

    // 12 + 8 + 65 * 1023 = 66515 > 65535, every AVP on its own is fine
    let mut avps = vec![AVP::MessageType(MessageType::Hello)];
    avps.extend(std::iter::repeat(AVP::HostName(HostName::from(vec![0x41; 1017]))).take(65));
    let msg = message(avps);

    let result = catch_unwind(AssertUnwindSafe(|| msg.write(&mut w)));

    // Refused loudly (as before) ...
    assert!(result.is_err());
    // ... and, new with this change, nothing at all has been appended to the writer.
    assert_eq!(w.data, vec![1, 2, 3]);
}
