// Demo for change `b`: the data-message header is fetched with one wide read
// (u64 for tunnel/session/Ns/Nr, u32 for tunnel/session) instead of 2 or 4 u16 reads.
// A recording Reader (public trait) shows the changed call sequence; results are identical.
use rl2tp::common::{Reader, SliceReader};
use rl2tp::Message;
use std::cell::RefCell;
use std::rc::Rc;

struct Rec<'a> {
    inner: SliceReader<'a>,
    log: Rc<RefCell<Vec<String>>>,
}

impl<'a> Rec<'a> {
    fn new(data: &'a [u8]) -> Self {
        Rec {
            inner: SliceReader::from(data),
            log: Rc::new(RefCell::new(Vec::new())),
        }
    }
    fn note(&self, what: &str, n: usize) {
        assert!(n <= self.inner.len(), "request {} of {} octets out of bounds", what, n);
        self.log.borrow_mut().push(what.to_string());
    }
}

impl<'a> Reader<&'a [u8]> for Rec<'a> {
    fn is_empty(&self) -> bool {
        self.inner.is_empty()
    }
    fn len(&self) -> usize {
        self.inner.len()
    }
    fn subreader(&mut self, length: usize) -> Self {
        self.note("sub", length);
        Rec {
            inner: self.inner.subreader(length),
            log: self.log.clone(),
        }
    }
    fn bytes(&mut self, length: usize) -> Option<&'a [u8]> {
        self.log.borrow_mut().push("bytes".to_string());
        self.inner.bytes(length)
    }
    unsafe fn read_u8_unchecked(&mut self) -> u8 {
        self.note("u8", 1);
        self.inner.read_u8_unchecked()
    }
    unsafe fn read_u16_be_unchecked(&mut self) -> u16 {
        self.note("u16", 2);
        self.inner.read_u16_be_unchecked()
    }
    unsafe fn read_u32_be_unchecked(&mut self) -> u32 {
        self.note("u32", 4);
        self.inner.read_u32_be_unchecked()
    }
    unsafe fn read_u64_be_unchecked(&mut self) -> u64 {
        self.note("u64", 8);
        self.inner.read_u64_be_unchecked()
    }
    fn skip_bytes(&mut self, length: usize) {
        self.note("skip", length);
        self.inner.skip_bytes(length)
    }
}

#[test]
fn header_with_ns_nr_uses_one_u64_read() {
    let input = [
        0x52, 0x20, // flags: L + S + O, version 2
        0x00, 0x10, // Length = 16
        0x12, 0x34, // tunnel id
        0x56, 0x78, // session id
        0x9a, 0xbc, // Ns
        0xde, 0xf0, // Nr
        0x00, 0x01, // Offset Size = 1
        0x00, // offset padding
        0xaa, // payload
    ];
    let mut r = Rec::new(&input);
    let m = Message::try_read(&mut r).unwrap();
    match m {
        Message::Data(d) => {
            assert_eq!(d.tunnel_id, 0x1234);
            assert_eq!(d.session_id, 0x5678);
            assert_eq!(d.ns_nr, Some((0x9abc, 0xdef0)));
            assert_eq!(d.length, Some(16));
            assert_eq!(d.data, &[0xaa][..]);
        }
        _ => panic!("not a data message"),
    }
    assert_eq!(r.len(), 0);
    let log = r.log.borrow().join(",");
    // flags, Length, {tunnel,session,Ns,Nr}, Offset Size, skip padding, payload
    assert_eq!(log, "u16,u16,u64,u16,skip,bytes");
}

#[test]
fn header_without_ns_nr_uses_one_u32_read() {
    let input = [0x00, 0x20, 0x12, 0x34, 0x56, 0x78, 0xaa, 0xbb];
    let mut r = Rec::new(&input);
    let m = Message::try_read(&mut r).unwrap();
    match m {
        Message::Data(d) => {
            assert_eq!(d.tunnel_id, 0x1234);
            assert_eq!(d.session_id, 0x5678);
            assert_eq!(d.ns_nr, None);
            assert_eq!(d.data, &[0xaa, 0xbb][..]);
        }
        _ => panic!("not a data message"),
    }
    let log = r.log.borrow().join(",");
    assert_eq!(log, "u16,u32,bytes");
}
