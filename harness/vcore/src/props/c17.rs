// C17 — bitmask AVPs: accessors return the constructor's arguments; all 32 bits survive.
use crate::cx::*;
use crate::gen::*;
use crate::prop::*;
use rl2tp::avp::types::{BearerCapabilities, BearerType, FramingCapabilities, FramingType};
use rl2tp::avp::AVP;
use rl2tp::common::{SliceReader, VecWriter};
use serde_json::{json, Value};

pub static DEF: PropDef = PropDef {
    id: "C17",
    title: "Bitmask AVPs: accessors return the constructor's arguments; all 32 bits survive",
    rule: "The four bitmask kinds (framing capabilities: async/sync; bearer capabilities: digital/analog; bearer type: analog/digital; framing type: analog/digital, in constructor-parameter order). \
(pairs) all 4 x bool^2 constructions: the accessor named after the first / second parameter returns the first / second argument. (words) raw 32-bit words - 0, !0, every single bit, every pair of bits, and \
random words - received from the wire as an AVP (and through the kind's own try_read): decode then encode reproduces all 32 bits, and each accessor equals the bit that the \
constructor sets for its parameter, whatever the other 31 bits are. Non-trivial = x != y, or a word with bits outside the two flag bits; distinct by (kind, arguments or word).",
    assumptions: &["the private raw word is observed through the encoder output only (the Debug text, which no property constrains, is not used)"],
    parts,
    run_tape,
    run_enum,
    run_concrete,
    both_profiles: true,
    exhaustive_note: "bool pairs (4 kinds x 4) and the structured words (0, !0, 32 single bits, 1024 ordered bit pairs per kind) are enumerated completely",
};

const STRUCT_WORDS: u64 = 2 + 32 + 32 * 32;

fn parts(t: Tier) -> Vec<Part> {
    let a = match t {
        Tier::Quick => 750_000,
        Tier::Thorough => 8_000_000,
    };
    vec![enumerate("pairs", 16), enumerate("bitwords", 4 * STRUCT_WORDS), tape("randomwords", a, 24)]
}

const KIND_NAMES: [&str; 4] = ["FramingCapabilities(async, sync)", "BearerCapabilities(digital, analog)", "BearerType(analog, digital)", "FramingType(analog, digital)"];
const KIND_ATTR: [u16; 4] = [3, 4, 18, 19];

/// build by constructor; returns (first accessor, second accessor, raw word as emitted)
fn by_new(kind: usize, x: bool, y: bool) -> Option<(bool, bool, u32)> {
    let r = guard(|| {
        let (a, f, s) = match kind {
            0 => {
                let v = FramingCapabilities::new(x, y);
                (AVP::FramingCapabilities(v), v.is_async_framing_supported(), v.is_sync_framing_supported())
            }
            1 => {
                let v = BearerCapabilities::new(x, y);
                (AVP::BearerCapabilities(v), v.is_digital_access_supported(), v.is_analog_access_supported())
            }
            2 => {
                let v = BearerType::new(x, y);
                (AVP::BearerType(v), v.is_analog_request(), v.is_digital_request())
            }
            _ => {
                let v = FramingType::new(x, y);
                (AVP::FramingType(v), v.is_analog_request(), v.is_digital_request())
            }
        };
        let mut w = VecWriter::new();
        a.write(&mut w);
        (f, s, w.data)
    });
    match r {
        Caught::Ok((f, s, e)) if e.len() == 10 => Some((f, s, u32::from_be_bytes(e[6..10].try_into().unwrap()))),
        _ => None,
    }
}

/// receive word `w` from the wire; returns (first accessor, second accessor, re-encoded word, debug word)
fn by_wire(kind: usize, w: u32) -> Option<(bool, bool, u32, u32)> {
    let attr = KIND_ATTR[kind];
    let mut b = vec![0x01, 10, 0, 0];
    b.extend_from_slice(&attr.to_be_bytes());
    b.extend_from_slice(&w.to_be_bytes());
    let r = guard(|| {
        let mut rd = SliceReader::from(&b[..]);
        let v = AVP::try_read_greedy(&mut rd);
        if v.len() != 1 {
            return None;
        }
        let a = v.into_iter().next().unwrap().ok()?;
        let (f, s) = match (&a, kind) {
            (AVP::FramingCapabilities(v), 0) => (v.is_async_framing_supported(), v.is_sync_framing_supported()),
            (AVP::BearerCapabilities(v), 1) => (v.is_digital_access_supported(), v.is_analog_access_supported()),
            (AVP::BearerType(v), 2) => (v.is_analog_request(), v.is_digital_request()),
            (AVP::FramingType(v), 3) => (v.is_analog_request(), v.is_digital_request()),
            _ => return None,
        };
        // the kind's own public try_read must give the same value
        let own = w.to_be_bytes();
        let mut r2 = SliceReader::from(&own[..]);
        let same = match kind {
            0 => FramingCapabilities::try_read(&mut r2).ok().map(AVP::FramingCapabilities) == Some(a.clone()),
            1 => BearerCapabilities::try_read(&mut r2).ok().map(AVP::BearerCapabilities) == Some(a.clone()),
            2 => BearerType::try_read(&mut r2).ok().map(AVP::BearerType) == Some(a.clone()),
            _ => FramingType::try_read(&mut r2).ok().map(AVP::FramingType) == Some(a.clone()),
        };
        if !same {
            return None;
        }
        let mut wr = VecWriter::new();
        a.write(&mut wr);
        if wr.data.len() != 10 || wr.data[..6] != b[..6] {
            return None;
        }
        // surplus payload octets after the four-octet word are ignored: the value is made of the first four
        for extra in [&[0xffu8][..], &[0x12, 0x34, 0x56, 0x78][..], &[0, 0, 0, 0, 0xc0][..]] {
            let mut bx = vec![0x01, (10 + extra.len()) as u8, 0, 0];
            bx.extend_from_slice(&attr.to_be_bytes());
            bx.extend_from_slice(&w.to_be_bytes());
            bx.extend_from_slice(extra);
            let mut rx = SliceReader::from(&bx[..]);
            let vx = AVP::try_read_greedy(&mut rx);
            if vx.len() != 1 || vx[0].as_ref().ok() != Some(&a) {
                return None;
            }
        }
        // the same AVP inside a control message decoded under the strictest and the weakest options: same value
        let mut m = vec![0x13, 0x20, 0, 30, 0, 1, 0, 2, 0, 3, 0, 4, 0x01, 0x08, 0, 0, 0, 0, 0, 1];
        m.extend_from_slice(&b);
        for (r, v, u) in [(true, true, true), (false, false, false), (true, false, false)] {
            let o = rl2tp::ValidationOptions {
                reserved: if r { rl2tp::ValidateReserved::Yes } else { rl2tp::ValidateReserved::No },
                version: if v { rl2tp::ValidateVersion::Yes } else { rl2tp::ValidateVersion::No },
                unused: if u { rl2tp::ValidateUnused::Yes } else { rl2tp::ValidateUnused::No },
            };
            let mut mr = SliceReader::from(&m[..]);
            let d: Result<rl2tp::Message<&[u8]>, _> = rl2tp::Message::try_read_validate(&mut mr, o);
            match d {
                Ok(rl2tp::Message::Control(c)) if c.avps.len() == 2 && c.avps[1] == a => {}
                _ => return None,
            }
        }
        let back = u32::from_be_bytes(wr.data[6..10].try_into().unwrap());
        Some((f, s, back, back))
    });
    match r {
        Caught::Ok(x) => x,
        _ => None,
    }
}

fn check_pair(i: u64, cx: &mut Cx) -> Res {
    cx.eval();
    let kind = (i / 4) as usize;
    let x = i & 1 != 0;
    let y = i & 2 != 0;
    cx.stage(STAGE_ARMED);
    let r = by_new(kind, x, y);
    cx.stage(STAGE_SETUP);
    let render = || json!({"kind": KIND_NAMES[kind], "first_argument": x, "second_argument": y});
    match r {
        None => return fail("constructing / encoding a bitmask AVP failed", render()),
        Some((f, s, raw)) => {
            if f != x || s != y {
                let mut v = render();
                v["first_accessor"] = json!(f);
                v["second_accessor"] = json!(s);
                v["raw_word"] = json!(format!("{:#010x}", raw));
                return fail(format!("{}::new({}, {}) reports ({}, {}) through the accessors named after its parameters", KIND_NAMES[kind], x, y, f, s), v);
            }
            cx.sample("pairs", || json!({"kind": KIND_NAMES[kind], "arguments": [x, y], "raw_word": format!("{:#010x}", raw), "family": "pairs"}));
        }
    }
    if x != y {
        cx.nontrivial(&(kind, x, y, 0u8));
    }
    cx.class(if x != y { "pair with x != y" } else { "pair with x == y" });
    Ok(())
}

fn own_bits(kind: usize) -> Option<(u32, u32)> {
    let (_, _, b1) = by_new(kind, true, false)?;
    let (_, _, b2) = by_new(kind, false, true)?;
    let (_, _, z) = by_new(kind, false, false)?;
    let (_, _, both) = by_new(kind, true, true)?;
    if b1.count_ones() == 1 && b2.count_ones() == 1 && b1 != b2 && z == 0 && both == b1 | b2 {
        Some((b1, b2))
    } else {
        None
    }
}

pub fn check_word(kind: usize, w: u32, family: &'static str, cx: &mut Cx) -> Res {
    cx.eval();
    let render = || json!({"kind": KIND_NAMES[kind], "word": format!("{:#010x}", w)});
    cx.stage(STAGE_ARMED);
    let bits = own_bits(kind);
    let r = by_wire(kind, w);
    cx.stage(STAGE_SETUP);
    let (b1, b2) = match bits {
        Some(b) => b,
        None => return fail("the constructor does not set exactly one distinct bit per parameter (new(false,false) != 0, or new(true,true) != the union)", render()),
    };
    match r {
        None => return fail("a 4-octet bitmask payload did not decode, or decoded differently through the kind's own try_read or inside a control message (strict / weak options), or did not re-encode as one AVP", render()),
        Some((f, s, back, dbg)) => {
            if back != w {
                return fail(format!("decode then encode changed the word: {:#010x} -> {:#010x}", w, back), render());
            }
            let _ = dbg;
            if f != (w & b1 != 0) || s != (w & b2 != 0) {
                return fail(
                    format!("accessors report ({}, {}) for word {:#010x}; the constructor's own bits are {:#x} / {:#x}, i.e. ({}, {})", f, s, w, b1, b2, w & b1 != 0, w & b2 != 0),
                    render(),
                );
            }
        }
    }
    if w & !(b1 | b2) != 0 {
        cx.nontrivial(&(kind, w, 1u8));
        cx.class("word with bits outside the two flag bits");
    } else {
        cx.class("word within the two flag bits");
    }
    cx.sample(family, || json!({"kind": KIND_NAMES[kind], "word": format!("{:#010x}", w), "family": family}));
    Ok(())
}

fn run_enum(part: &str, index: u64, cx: &mut Cx) -> Res {
    match part {
        "pairs" => check_pair(index, cx),
        _ => {
            let kind = (index / STRUCT_WORDS) as usize;
            let j = index % STRUCT_WORDS;
            let w = match j {
                0 => 0,
                1 => u32::MAX,
                2..=33 => 1u32 << (j - 2),
                _ => {
                    let k = j - 34;
                    (1u32 << (k / 32)) | (1u32 << (k % 32))
                }
            };
            check_word(kind, w, "bitwords", cx)
        }
    }
}

/// the bitmask AVP at the head of an AVP stream of 64 KiB and more, and through hide / reveal under two secrets of the same length
fn check_word_in_context(kind: usize, w: u32, t: &mut Tape, cx: &mut Cx) -> Res {
    cx.eval();
    let attr = KIND_ATTR[kind];
    let mut b = vec![0x01, 10, 0, 0];
    b.extend_from_slice(&attr.to_be_bytes());
    b.extend_from_slice(&w.to_be_bytes());
    let render = || json!({"kind": KIND_NAMES[kind], "word": format!("{:#010x}", w)});
    cx.stage(STAGE_ARMED);
    if t.chance(20) {
        let n = 65536 - 10 + t.below(12);
        let mut stream = b.clone();
        while stream.len() + 6 <= 10 + n {
            stream.extend_from_slice(&[0x01, 0x06, 0, 0, 0, 39]);
        }
        let r = guard(|| {
            let mut rd = SliceReader::from(&stream[..]);
            let v = AVP::try_read_greedy(&mut rd);
            let mut wr = VecWriter::new();
            if let Some(Ok(a)) = v.first() {
                a.write(&mut wr);
            }
            (v.len(), wr.data)
        });
        match r {
            Caught::Ok((n_el, enc)) if n_el >= 2 && enc == b => cx.class("bitmask AVP at the head of a 64 KiB AVP stream"),
            Caught::Ok((n_el, enc)) => {
                return fail(
                    format!("a bitmask AVP followed by {} more octets of AVPs: {} elements decoded, first re-encodes to {}", stream.len() - 10, n_el, hex(&enc)),
                    render(),
                )
            }
            _ => return fail("decoding a long AVP stream panicked", render()),
        }
    }
    // hidden path: hide under s1, reveal, hide under s2 (same length, different content, same random vector), reveal
    let sl = 1 + t.below(20);
    let s1 = t.blob(sl);
    let mut s2 = s1.clone();
    let i = t.below(sl);
    s2[i] ^= 1 + (t.byte() & 0x7e);
    let rv = t.u32().to_be_bytes();
    let r = guard(|| {
        let mut rd = SliceReader::from(&b[..]);
        let a = AVP::try_read_greedy(&mut rd).into_iter().next().and_then(|x| x.ok())?;
        for s in [&s1, &s2, &s1] {
            let h = a.clone().hide(s, &rv.into(), &[], &[0x11; 16]);
            // the hidden value must be the reference ciphertext of the 4-octet word (a consistent but wrong cipher would
            // survive the round trip, yet the peer could not read it)
            if let AVP::Hidden(hv) = &h {
                if hv.value != crate::spec::hide(attr, &w.to_be_bytes(), s, &rv, &[], &[0x11; 16]) {
                    return Some(false);
                }
            }
            let mut wr = VecWriter::new();
            h.write(&mut wr);
            let mut r2 = SliceReader::from(&wr.data[..]);
            let back = AVP::try_read_greedy(&mut r2).into_iter().next().and_then(|x| x.ok())?;
            match back.reveal(s, &rv.into()) {
                Ok(x) if x == a => {}
                _ => return Some(false),
            }
        }
        Some(true)
    });
    cx.stage(STAGE_SETUP);
    match r {
        Caught::Ok(Some(true)) => {
            cx.class("bitmask word through hide / reveal under two same-length secrets");
            Ok(())
        }
        Caught::Ok(_) => fail("a bitmask AVP did not survive hide / encode / decode / reveal with all 32 bits", render()),
        _ => fail("hide / reveal of a bitmask AVP panicked", render()),
    }
}

fn run_tape(_part: &str, tape: &[u8], cx: &mut Cx) -> Res {
    let mut t = Tape::new(tape);
    if t.chance(8) {
        let kind = t.below(4);
        let w = t.u32();
        return check_word_in_context(kind, w, &mut t, cx);
    }
    for kind in 0..4 {
        let w = match t.below(4) {
            0 => t.b_u32(),
            1 => !t.b_u32(),
            _ => t.u32(),
        };
        check_word(kind, w, "randomwords", cx)?;
    }
    Ok(())
}

fn run_concrete(case: &Value, cx: &mut Cx) -> Res {
    if let (Some(k), Some(x), Some(y)) = (case.get("kind_index").and_then(|v| v.as_u64()), case.get("x").and_then(|v| v.as_bool()), case.get("y").and_then(|v| v.as_bool())) {
        return check_pair(k * 4 + x as u64 + 2 * y as u64, cx);
    }
    fail("bad concrete case", case.clone())
}
