// Demo for change `d`: Debug output of SliceReader / VecWriter and additional
// trait impls (AsRef<[u8]>, From<Vec<u8>>, Hash, Default).
//
// The Debug texts are compared at run time. The presence of the new trait
// impls is probed with autoref-based dispatch so that this file compiles with
// and without the change and the difference shows up as a test failure.

#![allow(dead_code)] // one trait of each probe pair is unused, depending on the crate version

use rl2tp::common::{Reader, SliceReader, VecWriter, Writer};

struct Probe<T>(T);

// Chosen first when the bound holds ...
trait WithAsRef {
    fn octets(&self) -> Option<Vec<u8>>;
}
impl<T: AsRef<[u8]>> WithAsRef for Probe<T> {
    fn octets(&self) -> Option<Vec<u8>> {
        Some(self.0.as_ref().to_vec())
    }
}
// ... otherwise method resolution falls back to this one (one more autoref).
trait WithoutAsRef {
    fn octets(&self) -> Option<Vec<u8>>;
}
impl<T> WithoutAsRef for &Probe<T> {
    fn octets(&self) -> Option<Vec<u8>> {
        None
    }
}

struct Target<T>(core::marker::PhantomData<T>);

trait WithFromVec<T> {
    fn build(&self, v: Vec<u8>) -> Option<T>;
}
impl<T: From<Vec<u8>>> WithFromVec<T> for Target<T> {
    fn build(&self, v: Vec<u8>) -> Option<T> {
        Some(T::from(v))
    }
}
trait WithoutFromVec<T> {
    fn build(&self, v: Vec<u8>) -> Option<T>;
}
impl<T> WithoutFromVec<T> for &Target<T> {
    fn build(&self, _v: Vec<u8>) -> Option<T> {
        None
    }
}

#[test]
fn debug_output_of_slice_reader_shows_cursor_state_only() {
    let input = [1u8, 2, 3, 4, 5];
    let mut r = SliceReader::from(&input);
    assert_eq!(format!("{r:?}"), "SliceReader { remaining: 5 }");
    r.skip_bytes(2);
    assert_eq!(format!("{r:?}"), "SliceReader { remaining: 3 }");
    let sub = r.subreader(3);
    assert_eq!(format!("{sub:?}"), "SliceReader { remaining: 3 }");
    assert_eq!(format!("{r:?}"), "SliceReader { remaining: 0 }");
}

#[test]
fn debug_output_of_vec_writer_is_hexadecimal() {
    let mut w = VecWriter::new();
    assert_eq!(format!("{w:?}"), "VecWriter { len: 0, data: \"\" }");
    w.write_u8(0x0a);
    w.write_u16_be(0xbeef);
    w.write_bytes_at(&[0xff], 0);
    assert_eq!(format!("{w:?}"), "VecWriter { len: 3, data: \"ffbeef\" }");
}

#[test]
fn vec_writer_exposes_its_octets_through_as_ref() {
    let mut w = VecWriter::new();
    w.write_u32_be(0x01020304);
    assert_eq!((&Probe(w)).octets(), Some(vec![1, 2, 3, 4]));
}

#[test]
fn slice_reader_exposes_remaining_octets_through_as_ref() {
    let input = [1u8, 2, 3, 4, 5];
    let mut r = SliceReader::from(&input);
    r.skip_bytes(2);
    assert_eq!((&Probe(r)).octets(), Some(vec![3, 4, 5]));
}

#[test]
fn vec_writer_can_be_built_from_a_vec_and_appends() {
    let target = Target::<VecWriter>(core::marker::PhantomData);
    let mut w: VecWriter = (&target)
        .build(vec![0xaa, 0xbb])
        .expect("VecWriter: From<Vec<u8>>");
    assert_eq!(w.len(), 2);
    w.write_u8(0xcc);
    assert_eq!(w.data, [0xaa, 0xbb, 0xcc]);
}
