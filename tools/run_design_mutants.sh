#!/bin/bash
# run every mutant in mutants/design against the checks expected to report it; log to mutants/design/RESULTS.txt
cd "$(dirname "$0")/.." || exit 2
python3 - <<'PY' > /tmp/design-mutants.list
import json
for m in json.load(open('mutants/design/INDEX.json')):
    print(m['name'], ' '.join(m['expected_checks']))
PY
: > mutants/design/RESULTS.txt
while read -r name ids; do
  echo "=== $name (expected: $ids)" | tee -a mutants/design/RESULTS.txt
  tools/mutate.sh "mutants/design/$name.diff" $ids 2>&1 | grep -E "^(repo tests|  C|CAUGHT|SILENT|OTHER|patch)" | cut -c1-300 | tee -a mutants/design/RESULTS.txt
done < /tmp/design-mutants.list
