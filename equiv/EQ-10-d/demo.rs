// Demo for change `d`: reveal() decrypts the first block, reads the original
// length from it, and then decrypts only the blocks that hold the original
// value. Blocks that can only contain padding are never touched.
//
// The result of reveal() is the same for every input. What changes is the
// amount of work for hidden values far longer than any AVP that fits on the
// wire: the original runs one MD5 per 16-octet block of the hidden value, the
// changed version at most 64 (an original value is at most 1017 octets).
//
// reveal() consumes its argument and returns only the decoded AVP, so the
// skipped work is observed through time. The measurement calibrates itself:
// hide() with a length padding of several MiB runs one MD5 per block of the
// result, exactly as many as the original reveal() runs on that result, so
// without the change both take about the same time, and with the change
// reveal() is orders of magnitude faster than hide().

use rl2tp::avp::types::{HostName, RandomVector};
use rl2tp::avp::AVP;
use std::time::{Duration, Instant};

#[test]
fn reveal_does_not_decrypt_padding_blocks() {
    let secret = b"a shared secret!";
    let rv = RandomVector {
        value: [9, 8, 7, 6],
    };
    let avp = AVP::HostName(HostName {
        value: (0..100u8).collect(),
    });
    let length_padding: Vec<u8> = (0..4 * 1024 * 1024usize).map(|i| (i * 7 + 3) as u8).collect();
    let alignment_padding = [0x5au8; 16];

    let mut best_hide = Duration::MAX;
    let mut best_reveal = Duration::MAX;

    for _ in 0..3 {
        let plain = avp.clone();
        let start = Instant::now();
        let hidden = plain.hide(secret, &rv, &length_padding, &alignment_padding);
        best_hide = best_hide.min(start.elapsed());

        // 2 + 100 + 4 MiB octets, already a multiple of 16 plus 6 -> padded to the next one
        assert_eq!(hidden.get_length(), 4 * 1024 * 1024 + 112);

        let start = Instant::now();
        let revealed = hidden.reveal(secret, &rv);
        best_reveal = best_reveal.min(start.elapsed());

        // Same result as ever, also for a hidden value far beyond any wire AVP
        assert_eq!(revealed, Ok(avp.clone()));
    }

    assert!(
        best_reveal * 20 < best_hide,
        "reveal took {best_reveal:?}, hide took {best_hide:?}"
    );
}
