// Demo for change `a`: hide()/reveal() without heap scratch buffers.
//
// With the change, `AVP::hide` serialises the AVP into a 1 KiB stack scratch area, allocates the
// hidden value exactly once at its final size and feeds MD5 incrementally instead of building
// concatenation buffers on the heap; `AVP::reveal` decodes in place without any scratch `Vec`.
// The produced values are bit-for-bit those of the unmodified crate; what changes is the
// capacity of the returned vector and the number of heap requests.

use rl2tp::avp::types::{Hidden, HostName, RandomVector, ReceiveWindowSize};
use rl2tp::avp::AVP;
use std::alloc::{GlobalAlloc, Layout, System};
use std::cell::Cell;

thread_local! {
    static HEAP_REQUESTS: Cell<usize> = const { Cell::new(0) };
}

struct Counting;

fn bump() {
    let _ = HEAP_REQUESTS.try_with(|c| c.set(c.get() + 1));
}

unsafe impl GlobalAlloc for Counting {
    unsafe fn alloc(&self, layout: Layout) -> *mut u8 {
        bump();
        System.alloc(layout)
    }
    unsafe fn alloc_zeroed(&self, layout: Layout) -> *mut u8 {
        bump();
        System.alloc_zeroed(layout)
    }
    unsafe fn realloc(&self, ptr: *mut u8, layout: Layout, new_size: usize) -> *mut u8 {
        bump();
        System.realloc(ptr, layout, new_size)
    }
    unsafe fn dealloc(&self, ptr: *mut u8, layout: Layout) {
        System.dealloc(ptr, layout)
    }
}

#[global_allocator]
static ALLOCATOR: Counting = Counting;

fn heap_requests<R>(f: impl FnOnce() -> R) -> (R, usize) {
    let before = HEAP_REQUESTS.with(|c| c.get());
    let r = f();
    let after = HEAP_REQUESTS.with(|c| c.get());
    (r, after - before)
}

#[test]
fn hidden_value_is_allocated_once_at_its_final_size() {
    let rv = RandomVector::from([1, 2, 3, 4]);
    let alignment = [0x55u8; 16];
    for n in [1usize, 5, 14, 20, 100, 700] {
        let avp = AVP::HostName(HostName::from(vec![0x41u8; n]));
        let (hidden, requests) =
            heap_requests(|| avp.hide(b"secret", &rv, &[0xee, 0xee, 0xee], &alignment));
        let AVP::Hidden(Hidden { value, .. }) = hidden else {
            panic!("not hidden")
        };
        assert_eq!(value.len(), (2 + n + 3 + 15) / 16 * 16);
        assert_eq!(
            value.capacity(),
            value.len(),
            "hidden value of a {n}-octet host name was not sized up front"
        );
        assert_eq!(requests, 1, "hide() must only allocate its result");
    }
}

#[test]
fn reveal_needs_no_scratch_allocation() {
    let rv = RandomVector::from([9, 8, 7, 6]);
    let alignment = [0u8; 16];
    // A fixed-size AVP decodes without touching the heap, so every heap request seen while
    // revealing it would come from scratch buffers.
    let avp = AVP::ReceiveWindowSize(ReceiveWindowSize::from(0x1234));
    let hidden = avp
        .clone()
        .hide(b"a longer shared secret", &rv, &[0x11; 40], &alignment);
    let (revealed, requests) = heap_requests(|| hidden.reveal(b"a longer shared secret", &rv));
    assert_eq!(revealed, Ok(avp));
    assert_eq!(requests, 0, "reveal() must work in place");
}
