//! Demo for change `a`: `Debug` of a `Hidden` AVP redacts the hidden octets.
//! Passes with the change, fails on the unmodified crate (derived Debug prints the octets).

use rl2tp::avp::types::{Hidden, HostName, RandomVector};
use rl2tp::avp::AVP;
use rl2tp::common::{SliceReader, VecWriter};

fn marker_value() -> Vec<u8> {
    // 16 octets, each of which would be visible as a decimal number in a derived Debug.
    (0..16u8).map(|i| 201 + i).collect()
}

#[test]
fn hidden_debug_is_redacted() {
    let h = Hidden {
        attribute_type: 7,
        value: marker_value(),
    };
    let text = format!("{:?}", h);
    assert!(text.contains("attribute_type: 7"), "{text}");
    assert!(text.contains("16 octets redacted"), "{text}");
    for b in marker_value() {
        assert!(
            !text.contains(&b.to_string()),
            "octet {b} leaked into {text}"
        );
    }

    // Same through the enclosing AVP, also in pretty mode.
    let avp = AVP::Hidden(h);
    let text = format!("{:#?}", avp);
    assert!(text.contains("octets redacted"), "{text}");
    assert!(!text.contains("201"), "{text}");
}

#[test]
fn value_semantics_unchanged() {
    // The value itself is untouched: equality, clone, wire form and reveal behave as before.
    let secret = b"secret";
    let rv = RandomVector { value: [1, 2, 3, 4] };
    let original = AVP::HostName(HostName {
        value: b"lac.example".to_vec(),
    });
    let hidden = original.clone().hide(secret, &rv, &[9, 9, 9], &[7; 16]);

    let mut w = VecWriter::new();
    hidden.write(&mut w);
    let mut r = SliceReader::from(&w.data[..]);
    let decoded = AVP::try_read_greedy(&mut r);
    assert_eq!(decoded.len(), 1);
    let decoded = decoded.into_iter().next().unwrap().unwrap();
    assert!(decoded == hidden);
    assert!(decoded.clone() == hidden);
    if let AVP::Hidden(h) = &decoded {
        assert_eq!(h.attribute_type, 7);
        assert_eq!(h.value.len() % 16, 0);
        // flags+length in the crate's bit numbering (mandatory = 0x01, hidden = 0x02,
        // length high bits in the top two bits), vendor 0, type 7 in clear
        assert_eq!(w.data[0] & 0x03, 0x03);
        assert_eq!(
            ((w.data[0] as usize >> 6) << 8) | w.data[1] as usize,
            w.data.len()
        );
        assert_eq!(w.data[2..6], [0, 0, 0, 7]);
        assert_eq!(w.data[6..], h.value[..]);
    } else {
        panic!("not hidden");
    }
    assert!(decoded.reveal(secret, &rv).unwrap() == original);
}
