use rl2tp::common::Reader;
use std::cell::RefCell;
use std::rc::Rc;

/// One entry per trait call issued by the crate.
#[allow(dead_code)]
#[derive(Clone, Debug, PartialEq, Eq)]
enum Call {
    IsEmpty { depth: usize },
    Len { depth: usize },
    Subreader { depth: usize, n: usize },
    Bytes { depth: usize, n: usize, served: bool },
    Skip { depth: usize, n: usize },
    U8 { depth: usize },
    U16 { depth: usize },
    U32 { depth: usize },
    U64 { depth: usize },
}

/// A bounds-checking reader over an owned buffer that hands out owned byte vectors (as a
/// scatter/gather reader has to). Every unchecked request is asserted to fit, `len()` is honest,
/// and a declined `bytes(n)` consumes nothing. `decline_from`: `bytes(n)` with `n >= decline_from`
/// is declined although `n` octets remain (`usize::MAX` = never decline, i.e. fully conforming).
struct TestReader {
    data: Rc<Vec<u8>>,
    pos: usize,
    end: usize,
    depth: usize,
    decline_from: usize,
    log: Rc<RefCell<Vec<Call>>>,
}

#[allow(dead_code)]
impl TestReader {
    fn new(data: &[u8], decline_from: usize) -> Self {
        Self {
            data: Rc::new(data.to_vec()),
            pos: 0,
            end: data.len(),
            depth: 0,
            decline_from,
            log: Rc::new(RefCell::new(Vec::new())),
        }
    }

    fn calls(&self) -> Vec<Call> {
        self.log.borrow().clone()
    }

    fn remaining(&self) -> usize {
        self.end - self.pos
    }

    fn take(&mut self, n: usize) -> &[u8] {
        assert!(n <= self.end - self.pos, "request outside the remaining octets");
        let start = self.pos;
        self.pos += n;
        &self.data[start..start + n]
    }
}

impl Reader<Vec<u8>> for TestReader {
    fn is_empty(&self) -> bool {
        self.log.borrow_mut().push(Call::IsEmpty { depth: self.depth });
        self.pos == self.end
    }

    fn len(&self) -> usize {
        self.log.borrow_mut().push(Call::Len { depth: self.depth });
        self.end - self.pos
    }

    fn subreader(&mut self, length: usize) -> Self {
        self.log.borrow_mut().push(Call::Subreader {
            depth: self.depth,
            n: length,
        });
        assert!(length <= self.end - self.pos, "subreader outside the remaining octets");
        let sub = Self {
            data: self.data.clone(),
            pos: self.pos,
            end: self.pos + length,
            depth: self.depth + 1,
            decline_from: self.decline_from,
            log: self.log.clone(),
        };
        self.pos += length;
        sub
    }

    fn bytes(&mut self, length: usize) -> Option<Vec<u8>> {
        let served = length <= self.end - self.pos && length < self.decline_from;
        self.log.borrow_mut().push(Call::Bytes {
            depth: self.depth,
            n: length,
            served,
        });
        if !served {
            return None;
        }
        Some(self.take(length).to_vec())
    }

    unsafe fn read_u8_unchecked(&mut self) -> u8 {
        self.log.borrow_mut().push(Call::U8 { depth: self.depth });
        self.take(1)[0]
    }

    unsafe fn read_u16_be_unchecked(&mut self) -> u16 {
        self.log.borrow_mut().push(Call::U16 { depth: self.depth });
        u16::from_be_bytes(self.take(2).try_into().unwrap())
    }

    unsafe fn read_u32_be_unchecked(&mut self) -> u32 {
        self.log.borrow_mut().push(Call::U32 { depth: self.depth });
        u32::from_be_bytes(self.take(4).try_into().unwrap())
    }

    unsafe fn read_u64_be_unchecked(&mut self) -> u64 {
        self.log.borrow_mut().push(Call::U64 { depth: self.depth });
        u64::from_be_bytes(self.take(8).try_into().unwrap())
    }

    fn skip_bytes(&mut self, length: usize) {
        self.log.borrow_mut().push(Call::Skip {
            depth: self.depth,
            n: length,
        });
        self.take(length);
    }
}

// ---------------------------------------------------------------------------------------------

use rl2tp::avp::{types, AVP};
use rl2tp::common::{DecodeError, SliceReader, VecWriter};

fn encode_avps(avps: &[AVP]) -> Vec<u8> {
    let mut w = VecWriter::new();
    for a in avps {
        a.write(&mut w);
    }
    w.data
}

fn sample() -> Vec<AVP> {
    let mut cr = [0u8; 16];
    for (i, b) in cr.iter_mut().enumerate() {
        *b = 0xf0 - i as u8;
    }
    vec![
        AVP::RandomVector(types::RandomVector {
            value: [0x01, 0x02, 0x03, 0x04],
        }),
        AVP::Accm(types::Accm {
            send_accm: [0x11, 0x22, 0x33, 0x44],
            receive_accm: [0x55, 0x66, 0x77, 0x88],
        }),
        AVP::PhysicalChannelId(types::PhysicalChannelId {
            value: [0xa1, 0xa2, 0xa3, 0xa4],
        }),
        AVP::ChallengeResponse(types::ChallengeResponse { value: cr }),
    ]
}

/// A reader that serves every request (conforming): same result as SliceReader, also for
/// truncated and over-long payloads. Holds with and without the change.
#[test]
fn conforming_reader_is_unaffected() {
    let avps = sample();
    let bytes = encode_avps(&avps);
    let mut r = TestReader::new(&bytes, usize::MAX);
    let got = AVP::try_read_greedy(&mut r);
    assert_eq!(got, AVP::try_read_greedy(&mut SliceReader::from(&bytes)));
    assert_eq!(got, avps.into_iter().map(Ok).collect::<Vec<_>>());
    assert_eq!(r.remaining(), 0);

    // per-type decode on payloads of every length 0..=20
    let payload: Vec<u8> = (1u8..=20).collect();
    for n in 0..=payload.len() {
        let p = &payload[..n];
        macro_rules! same {
            ($t:ty) => {{
                let mut r = TestReader::new(p, usize::MAX);
                let got = <$t>::try_read(&mut r);
                let want = <$t>::try_read(&mut SliceReader::from(p));
                assert_eq!(got, want);
            }};
        }
        same!(types::RandomVector);
        same!(types::Accm);
        same!(types::PhysicalChannelId);
        same!(types::ChallengeResponse);
    }
}

/// Structural difference, visible with a conforming reader: the fixed-size octet-array AVPs are
/// taken with fixed-width reads; no bytes() request is issued for them at all.
#[test]
fn no_bytes_request_for_fixed_size_octet_arrays() {
    let bytes = encode_avps(&sample());
    let mut r = TestReader::new(&bytes, usize::MAX);
    let _ = AVP::try_read_greedy(&mut r);
    let calls = r.calls();
    assert!(
        !calls.iter().any(|c| matches!(c, Call::Bytes { .. })),
        "calls {calls:?}"
    );
    // 4 + (4+4) + 4 octets as u32 words, 16 octets as two u64 words, all on the per-AVP sub-reader
    assert_eq!(calls.iter().filter(|c| **c == Call::U32 { depth: 1 }).count(), 4);
    assert_eq!(calls.iter().filter(|c| **c == Call::U64 { depth: 1 }).count(), 2);
}

/// The reader declines every non-empty bytes() request although the octets remain. With the
/// change these four AVP kinds no longer depend on bytes() and decode to their values; without it
/// each of them yields AVPReadError.
#[test]
fn a_reader_that_declines_bytes_still_decodes_fixed_size_avps() {
    let avps = sample();
    let bytes = encode_avps(&avps);
    let mut r = TestReader::new(&bytes, 1);
    let got = AVP::try_read_greedy(&mut r);
    assert_eq!(got, avps.into_iter().map(Ok).collect::<Vec<_>>());
    assert_eq!(r.remaining(), 0);

    // a kind that does need bytes() still reports the declined request
    let host = encode_avps(&[AVP::HostName(types::HostName {
        value: b"lac".to_vec(),
    })]);
    let mut r = TestReader::new(&host, 1);
    assert_eq!(
        AVP::try_read_greedy(&mut r),
        vec![Err(DecodeError::AVPReadError(7))]
    );
}
