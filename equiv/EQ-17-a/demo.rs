// Change `a`: SliceReader keeps (slice, position index) instead of re-slicing,
// and sub-readers share the parent's slice. The only public means to see this
// is the derived Debug text; every Reader operation returns what it did before.
use rl2tp::common::{Reader, SliceReader};
use rl2tp::{Message, ValidateReserved, ValidateUnused, ValidateVersion, ValidationOptions};

#[test]
fn debug_text_shows_whole_slice_and_position() {
    let input = [1u8, 2, 3, 4, 5];
    let mut r = SliceReader::from(&input);
    assert_eq!(unsafe { r.read_u8_unchecked() }, 1);

    // The cursor semantics are unchanged ...
    assert_eq!(r.len(), 4);
    assert_eq!(r, SliceReader::from(&input[1..]));

    // ... but the reader still holds the whole slice plus an index.
    assert_eq!(
        format!("{:?}", r),
        "SliceReader { data: [1, 2, 3, 4, 5], pos: 1 }"
    );

    // A sub-reader shares the parent's slice, cut off at its own end.
    let mut sub = r.subreader(2);
    assert_eq!(format!("{:?}", sub), "SliceReader { data: [1, 2, 3], pos: 1 }");
    assert_eq!(sub.len(), 2);
    assert_eq!(unsafe { sub.read_u16_be_unchecked() }, 0x0203);
    assert!(sub.is_empty());
    assert_eq!(sub.bytes(1), None);

    assert_eq!(
        format!("{:?}", r),
        "SliceReader { data: [1, 2, 3, 4, 5], pos: 3 }"
    );
    assert_eq!(r.bytes(3), None);
    assert_eq!(r.bytes(2), Some(&input[3..]));
    assert!(r.is_empty());
}

#[test]
fn decoding_is_unaffected() {
    let buffer = [
        0x13u8, 0x20, 0x00, 0x14, 0x00, 0x02, 0x00, 0x03, 0x00, 0x04, 0x00, 0x05, // header
        0x00, 0x08, 0x00, 0x00, 0x00, 0x00, 0x00, 0x01, // Message Type = SCCRQ
        0xff, 0xff, // beyond the declared length
    ];
    let mut r = SliceReader::from(&buffer);
    let msg = Message::try_read_validate(
        &mut r,
        ValidationOptions {
            reserved: ValidateReserved::Yes,
            version: ValidateVersion::Yes,
            unused: ValidateUnused::Yes,
        },
    )
    .unwrap();
    match msg {
        Message::Control(c) => {
            assert_eq!((c.length, c.tunnel_id, c.session_id, c.ns, c.nr), (20, 2, 3, 4, 5));
            assert_eq!(c.avps.len(), 1);
        }
        Message::Data(_) => panic!("expected a control message"),
    }
    assert_eq!(r.len(), 2);
    assert_eq!(
        format!("{:?}", r),
        format!("SliceReader {{ data: {:?}, pos: 20 }}", buffer)
    );
}
