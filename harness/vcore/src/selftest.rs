// Start-up self-test of the harness's own trusted base. A failure here means the harness is
// broken (exit 2), never a property violation.
use crate::gen::*;
use crate::md5;
use crate::spec::*;

pub fn run() -> Result<u64, String> {
    let mut n = 0u64;
    md5::self_test()?;
    n += 7;
    // padding-boundary lengths against the md5 crate (an independent implementation)
    for len in [0usize, 1, 55, 56, 57, 63, 64, 65, 119, 120, 121, 127, 128, 129, 1000] {
        let m: Vec<u8> = (0..len).map(|i| (i * 7 + 3) as u8).collect();
        let a = md5::md5(&m);
        let b = ::md5::compute(&m);
        if a != b.0 {
            return Err(format!("md5 mismatch at length {}", len));
        }
        n += 1;
    }
    // the digest-preserving edits really preserve the digests they are named after (bitwise CRC-32 in both bit orders,
    // Adler-32, djb2, 31-polynomial, sum, xor), and the FNV-1a search returns genuine collisions
    {
        fn crc_msb(d: &[u8]) -> u32 {
            let mut c = 0xffff_ffffu32;
            for &b in d {
                c ^= (b as u32) << 24;
                for _ in 0..8 {
                    c = if c & 0x8000_0000 != 0 { (c << 1) ^ 0x04C1_1DB7 } else { c << 1 };
                }
            }
            !c
        }
        fn crc_lsb(d: &[u8]) -> u32 {
            let mut c = 0xffff_ffffu32;
            for &b in d {
                c ^= b as u32;
                for _ in 0..8 {
                    c = if c & 1 != 0 { (c >> 1) ^ 0xEDB8_8320 } else { c >> 1 };
                }
            }
            !c
        }
        fn adler(d: &[u8]) -> u32 {
            let (mut a, mut b) = (1u32, 0u32);
            for &x in d {
                a = (a + x as u32) % 65521;
                b = (b + a) % 65521;
            }
            (b << 16) | a
        }
        let djb2 = |d: &[u8]| d.iter().fold(5381u32, |h, &x| h.wrapping_mul(33).wrapping_add(x as u32));
        let poly31 = |d: &[u8]| d.iter().fold(0u32, |h, &x| h.wrapping_mul(31).wrapping_add(x as u32));
        let sum = |d: &[u8]| d.iter().fold(0u32, |h, &x| h.wrapping_add(x as u32));
        let mut kinds = [0u32; 6];
        for seed in 0..600u32 {
            let tape: Vec<u8> = (0..200u32).map(|i| (i.wrapping_mul(2246822519).wrapping_add(seed.wrapping_mul(3266489917)) >> 11) as u8).collect();
            let kind = (tape[0] as usize * 6) >> 8; // Tape::below(6) of the first octet, see below
            let mut t = Tape::new(&tape);
            let orig: Vec<u8> = (0..(5 + seed as usize % 60)).map(|i| (i as u32 * 37 + seed * 11) as u8 | 2).map(|x| if x == 255 { 7 } else { x }).collect();
            let mut e = orig.clone();
            if !digest_preserving_edit(&mut t, &mut e) || e == orig {
                continue;
            }
            // identify the edit by what it preserved: at least one of the digests must be unchanged
            let same = [sum(&e) == sum(&orig), poly31(&e) == poly31(&orig), djb2(&e) == djb2(&orig), adler(&e) == adler(&orig), crc_msb(&e) == crc_msb(&orig), crc_lsb(&e) == crc_lsb(&orig)];
            if !same.iter().any(|x| *x) {
                return Err(format!("digest_preserving_edit (tape kind {}) preserved none of the digests: {:?} -> {:?}", kind, orig, e));
            }
            for (k, s) in same.iter().enumerate() {
                if *s {
                    kinds[k] += 1;
                }
            }
            n += 1;
        }
        if kinds.iter().any(|k| *k == 0) {
            return Err(format!("digest_preserving_edit never preserved one of the six digests: {:?}", kinds));
        }
        for seed in 1..4u64 {
            let prefix = [0u8, 11];
            let tail: Vec<u8> = (0..(8 + seed as usize)).map(|i| (i as u64 * 29 + seed) as u8).collect();
            match fnv1a32_colliding_with(&prefix, &tail, seed.wrapping_mul(0x9E37_79B9_7F4A_7C15)) {
                Some(c) if c != tail && c.len() == tail.len() && fnv1a32(fnv1a32(FNV32_BASIS, &prefix), &c) == fnv1a32(fnv1a32(FNV32_BASIS, &prefix), &tail) => n += 1,
                other => return Err(format!("fnv1a32_colliding_with failed: {:?}", other)),
            }
        }
    }
    // spec encode -> spec decode identity on generated values
    for seed in 0..400u32 {
        let tape: Vec<u8> = (0..1500u32).map(|i| (i.wrapping_mul(2654435761).wrapping_add(seed.wrapping_mul(40503)) >> 13) as u8).collect();
        let mut t = Tape::new(&tape);
        let m = gen_control(&mut t);
        let e = encode_message(&m);
        let mut exp = m.clone();
        if let SMsg::Control { length, .. } = &mut exp {
            *length = e.len() as u16;
        }
        match decode_message(&e, Opts { reserved: true, version: true, unused: true }) {
            Ok((m2, c)) if m2 == exp && c == e.len() => {}
            x => return Err(format!("spec control round trip failed: {:?} -> {:?}", m, x)),
        }
        let d = gen_data(&mut t);
        let e = encode_message(&d);
        let mut exp = d.clone();
        if let SMsg::Data { offset, data, .. } = &mut exp {
            let n = offset.unwrap_or(0) as usize;
            *data = data[n..].to_vec();
            *offset = None;
        }
        match decode_message(&e, Opts { reserved: true, version: true, unused: true }) {
            Ok((m2, c)) if m2 == exp && c == e.len() => {}
            x => return Err(format!("spec data round trip failed: {:?} -> {:?}", d, x)),
        }
        n += 2;
    }
    // spec hide -> spec reveal identity
    for k in 0..200usize {
        let payload: Vec<u8> = (0..(k * 5) % 1000).map(|i| (i + k) as u8).collect();
        let payload = if payload.is_empty() { vec![1] } else { payload };
        let secret: Vec<u8> = (0..k % 40).map(|i| (i * 3) as u8).collect();
        let lp: Vec<u8> = (0..(k * 7) % (1007 - payload.len().min(1006))).map(|i| i as u8).collect();
        let h = hide(7, &payload, &secret, &[1, 2, 3, k as u8], &lp, &[9; 16]);
        if h.len() % 16 != 0 || h.len() != (2 + payload.len() + lp.len() + 15) / 16 * 16 {
            return Err("spec hide length".into());
        }
        match reveal(7, &h, &secret, &[1, 2, 3, k as u8]) {
            Ok(SAvp { attr: 7, hidden: false, body: Body::Blob(p) }) if p == payload => {}
            x => return Err(format!("spec hide/reveal identity failed: {:?}", x)),
        }
        n += 1;
    }
    // the repository's own decode vectors (src/message/tests/valid_avp.rs) must be accepted by the reference decoder
    // under the strictest options, with the value the crate's tests expect implicitly checked by the suite itself;
    // an unreadable file is not an error (the vectors are a convenience, not a dependency)
    let strict = Opts { reserved: true, version: true, unused: true };
    for v in repo_vectors() {
        match decode_message(&v, strict) {
            Ok((SMsg::Control { .. }, c)) if c == v.len() => n += 1,
            other => return Err(format!("reference decoder does not accept the repository test vector {}: {:?}", crate::cx::hex(&v), other)),
        }
    }
    Ok(n)
}

/// byte vectors of the form `vec![0x13, 0x20, ...] =>` found in the repository's decode tests
pub fn repo_vectors() -> Vec<Vec<u8>> {
    let mut out = Vec::new();
    let text = match std::fs::read_to_string("/repo/src/message/tests/valid_avp.rs") {
        Ok(t) => t,
        Err(_) => return out,
    };
    let mut rest = text.as_str();
    while let Some(i) = rest.find("vec![") {
        rest = &rest[i + 5..];
        let end = match rest.find("] =>") {
            Some(e) => e,
            None => break,
        };
        let body = &rest[..end];
        if body.contains("vec![") {
            continue; // not a flat byte vector
        }
        let mut v = Vec::new();
        let mut ok = true;
        for line in body.lines() {
            let code = line.split("//").next().unwrap_or("");
            for tok in code.split(|c: char| c == ',' || c.is_whitespace()).filter(|t| !t.is_empty()) {
                match tok.strip_prefix("0x").and_then(|h| u8::from_str_radix(h, 16).ok()) {
                    Some(b) => v.push(b),
                    None => ok = false,
                }
            }
        }
        if ok && v.len() >= 12 {
            out.push(v);
        }
        rest = &rest[end..];
    }
    out
}
