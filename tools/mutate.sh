#!/bin/bash
# tools/mutate.sh <patch.diff> [ID ...]   apply a change to /repo, run the repo's own tests, run the given checks
# (default: all 20) at quick tier, print which ones report a violation, then restore /repo. Never leaves the patch applied.
set -u
V="$(cd "$(dirname "$0")/.." && pwd)"
P="$(readlink -f "$1")"; shift
IDS=("$@"); [ ${#IDS[@]} -eq 0 ] && IDS=(C01 C02 C03 C04 C05 C06 C07 C08 C09 C10 C11 C12 C13 C14 C15 C16 C17 C18 C19 C20)
if [ -n "$(git -C /repo status --porcelain)" ]; then echo "/repo is not clean" >&2; exit 2; fi
restore() { git -C /repo checkout -- . ; git -C /repo clean -fdq -- src ; }
trap restore EXIT
git -C /repo apply "$P" || { echo "patch does not apply" >&2; exit 2; }
if [ -z "${MUTATE_SKIP_TESTS:-}" ]; then
  t=$(cd /repo && cargo test --workspace --no-fail-fast --offline 2>&1 | grep -E "^test result" | tr '\n' ' ')
  echo "repo tests: $t"
fi
export VERIF_EVIDENCE_DIR="$V/target/mutant-evidence"; mkdir -p "$VERIF_EVIDENCE_DIR"
caught=(); missed=(); other=()
for id in "${IDS[@]}"; do
  out=$(cd "$V" && VERIF_SKIP_REGRESSIONS="${MUTATE_SKIP_REGRESSIONS-1}" ./check "$id" quick 2>&1); rc=$?
  if [ $rc -eq 1 ]; then caught+=("$id"); echo "  $id: $(echo "$out" | grep -m1 'reason:' | cut -c1-220)";
  elif [ $rc -eq 0 ]; then missed+=("$id"); else other+=("$id(rc=$rc)"); echo "  $id rc=$rc: $(echo "$out" | grep -m1 INCONCLUSIVE | cut -c1-200)"; fi
done
echo "CAUGHT: ${caught[*]:-}"
echo "SILENT: ${missed[*]:-}"
echo "OTHER:  ${other[*]:-}"
