// Demo for change `b`: the value carried by InvalidAVPLength when an AVP's length field
// overruns the input. With the change it is the 10-bit length field as it appears on the
// wire (header included); without it, it is that field minus the 6 header octets.

use rl2tp::avp::AVP;
use rl2tp::common::{DecodeError, SliceReader};
use rl2tp::Message;

fn record(length: u16, attribute_type: u16, payload: &[u8]) -> Vec<u8> {
    let mut v = vec![
        (((length >> 8) as u8 & 0x3) << 6) | 0x01,
        length as u8,
        0,
        0,
        (attribute_type >> 8) as u8,
        attribute_type as u8,
    ];
    v.extend_from_slice(payload);
    v
}

fn decode_avps(bytes: &[u8]) -> Vec<Result<AVP, DecodeError>> {
    let mut r = SliceReader::from(bytes);
    AVP::try_read_greedy(&mut r)
}

#[test]
fn overrun_reports_wire_length_field() {
    // Host Name, length field 100, only 2 payload octets present.
    let bytes = record(100, 7, b"ab");
    assert_eq!(decode_avps(&bytes), vec![Err(DecodeError::InvalidAVPLength(100))]);

    // Largest possible field value.
    let bytes = record(1023, 7, b"ab");
    assert_eq!(decode_avps(&bytes), vec![Err(DecodeError::InvalidAVPLength(1023))]);

    // Overrun by a single octet.
    let bytes = record(9, 7, b"ab");
    assert_eq!(decode_avps(&bytes), vec![Err(DecodeError::InvalidAVPLength(9))]);
}

#[test]
fn text_rendering_follows() {
    let e = decode_avps(&record(100, 7, b"ab")).pop().unwrap().unwrap_err();
    assert_eq!(e.to_string(), "AVP with invalid length (100)");
}

#[test]
fn inside_a_control_message() {
    let mut body = record(8, 0, &[0, 1]); // Message Type = SCCRQ
    body.extend(record(40, 7, b"host")); // overruns the body
    let total = 12 + body.len();
    let mut bytes = vec![0x13, 0x20, (total >> 8) as u8, total as u8, 0, 1, 0, 2, 0, 3, 0, 4];
    bytes.extend(body);
    bytes.extend([0u8; 64]); // octets after the declared message end: not available to the AVP
    let mut r = SliceReader::from(&bytes[..]);
    assert_eq!(Message::try_read(&mut r), Err(vec![DecodeError::InvalidAVPLength(40)]));
}

#[test]
fn short_length_field_unchanged() {
    // A length below the header size was already reported as the wire value.
    let bytes = record(3, 7, b"");
    assert_eq!(decode_avps(&bytes), vec![Err(DecodeError::InvalidAVPLength(3))]);
    // Usable lengths are unaffected.
    let bytes = record(8, 7, b"ab");
    assert!(decode_avps(&bytes)[0].is_ok());
}
