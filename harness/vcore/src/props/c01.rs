// C01 — decoding is total: any bytes, any options give Ok or Err(non-empty); never a panic,
// abort, arithmetic overflow or hang, in builds with and without debug assertions.
use crate::cx::*;
use crate::gen::*;
use crate::glue::*;
use crate::prop::*;
use crate::spec::*;
use rl2tp::common::DecodeError;
use serde_json::{json, Value};

pub static DEF: PropDef = PropDef {
    id: "C01",
    title: "Decoding is total",
    rule: "Inputs: G-wire tapes (valid control/data encodings with 0-3 structural mutations, control headers around generated AVP records, raw octets), \
the complete grid {attribute type 0..41 and 3 others} x {payload length 0..40} x {H bit, vendor id} x {2 payload fills} as one-record control bodies, \
every byte string of length <= 2, and every 16-bit value of each enumerated field (message type, error type, proxy type, attribute type, vendor id) inside a control message. One tape in sixteen is additionally decoded through a reader that declines one bytes() request (the trait allows None), one in a hundred on a thread with a 64 KiB stack, one in fifty from a destructor while the thread unwinds and from thread-local destructors at thread exit. Each input is decoded under all 8 option sets and as a bare AVP list, in both build profiles, in a child process \
(aborts and hangs are observed by the supervisor). Non-trivial = input of at least 2 octets (past the flags guard); distinct by hash of the input octets.",
    assumptions: &[
        "non-termination is decided by a watchdog (20 s for one case) with re-confirmation, i.e. up to a time bound",
        "panics are observed with catch_unwind; non-unwinding aborts by the exit status of the child process",
    ],
    parts,
    run_tape,
    run_enum,
    run_concrete,
    both_profiles: true,
    exhaustive_note: "grid (type x payload length x H/vendor x fill), all byte strings of length <= 2 and all 65 536 values of six enumerated fields are enumerated completely",
};

pub const GRID_TYPES: usize = 45;
pub const GRID_LENS: usize = 41;
pub const GRID_SIZE: u64 = (GRID_TYPES * GRID_LENS * 4 * 2) as u64;

fn parts(t: Tier) -> Vec<Part> {
    let n = match t {
        Tier::Quick => 1_200_000,
        Tier::Thorough => 20_000_000,
    };
    vec![tape("wire", n, 900), enumerate("grid", GRID_SIZE), enumerate("short", 1 + 256 + 65536), enumerate("codes", 65536)]
}

pub fn grid_type(i: usize) -> u16 {
    match i {
        0..=41 => i as u16,
        42 => 255,
        43 => 0x8000,
        _ => 65535,
    }
}

/// one-record control body for grid index `idx`
pub fn grid_input(idx: u64) -> Vec<u8> {
    let mut i = idx as usize;
    let fill = i % 2;
    i /= 2;
    let combo = i % 4;
    i /= 4;
    let plen = i % GRID_LENS;
    i /= GRID_LENS;
    let ty = grid_type(i % GRID_TYPES);
    let mut w = vec![0x13, 0x20, 0, 0, 0, 1, 0, 2, 0, 3, 0, 4];
    w.extend_from_slice(&[0x01, 0x08, 0, 0, 0, 0, 0, 1]); // Message Type = SCCRQ
    let len = 6 + plen;
    let h = if combo & 1 != 0 { 0x02 } else { 0 };
    let vendor: u16 = if combo & 2 != 0 { 9 } else { 0 };
    w.extend_from_slice(&[0x01 | h, len as u8]);
    w.extend_from_slice(&vendor.to_be_bytes());
    w.extend_from_slice(&ty.to_be_bytes());
    for k in 0..plen {
        w.push(if fill == 0 { (k == 1) as u8 } else { 0xff });
    }
    let l = w.len() as u16;
    w[2..4].copy_from_slice(&l.to_be_bytes());
    w
}

pub fn short_input(idx: u64) -> Vec<u8> {
    match idx {
        0 => vec![],
        1..=256 => vec![(idx - 1) as u8],
        _ => {
            let x = (idx - 257) as u16;
            x.to_be_bytes().to_vec()
        }
    }
}

fn err_class(e: &DecodeError) -> &'static str {
    use DecodeError::*;
    match e {
        IncompleteAVP(_) => "err IncompleteAVP",
        UnknownMessageType(_) => "err UnknownMessageType",
        InvalidUtf8(_) => "err InvalidUtf8",
        InvalidResultCodeErrorType(_) => "err InvalidResultCodeErrorType",
        AVPReadError(_) => "err AVPReadError",
        InvalidAVPLength(_) => "err InvalidAVPLength",
        UnknownAvp(_) => "err UnknownAvp",
        EmptyHiddenAVP => "err EmptyHiddenAVP",
        MisalignedHiddenAVP => "err MisalignedHiddenAVP",
        InvalidOriginalAVPLength(_) => "err InvalidOriginalAVPLength",
        UnsupportedVendorId(_) => "err UnsupportedVendorId",
        InvalidVersion(_) => "err InvalidVersion",
        InvalidReservedBits => "err InvalidReservedBits",
        IncompleteFlags => "err IncompleteFlags",
        InvalidOffset(_) => "err InvalidOffset",
        IncompleteDataMessageHeader => "err IncompleteDataMessageHeader",
        IncompleteDataMessagePayload => "err IncompleteDataMessagePayload",
        EmptyDataMessagePayload => "err EmptyDataMessagePayload",
        MessageReadError => "err MessageReadError",
        ForbiddenControlMessagePriority => "err ForbiddenControlMessagePriority",
        ForbiddenControlMessageOffset => "err ForbiddenControlMessageOffset",
        ControlMessageWithoutLength => "err ControlMessageWithoutLength",
        ControlMessageWithoutNsNr => "err ControlMessageWithoutNsNr",
        IncompleteControlMessageHeader => "err IncompleteControlMessageHeader",
        IncompleteControlMessagePayload => "err IncompleteControlMessagePayload",
        ControlMessageTypeNotFirst => "err ControlMessageTypeNotFirst",
        // a variant added to the crate later must not stop the harness from building
        #[allow(unreachable_patterns)]
        _ => "err (variant unknown to the harness)",
    }
}
pub fn error_class(e: &DecodeError) -> &'static str {
    err_class(e)
}

/// signature of the input for known-finding matching: a predicate on the case, not on the failure
pub fn sig_of(b: &[u8]) -> &'static str {
    if b.len() < 2 {
        return "short-input";
    }
    let w = ((b[0] as u16) << 8) | b[1] as u16;
    if w & T != 0 {
        if b.len() >= 4 {
            let len = ((b[2] as usize) << 8) | b[3] as usize;
            if len < 12 {
                return "ctrl-length-lt-12";
            }
            if b.len() >= 12 {
                let region = &b[12..len.min(b.len())];
                if decode_avps(region).iter().any(|x| matches!(x, Err(SErr::BadAvpLength(l)) if *l < 6)) {
                    return "ctrl-avp-length-lt-6";
                }
            }
        }
        "control-other"
    } else if w & L != 0 {
        "data-with-length-bit"
    } else {
        "data-other"
    }
}

pub fn check_bytes(b: &[u8], family: &'static str, cx: &mut Cx) -> Res {
    cx.evals_n(9);
    if b.len() >= 2 {
        cx.nontrivial(b);
    }
    for o in all_opts() {
        cx.stage(STAGE_ARMED);
        match crate_decode(b, o) {
            Caught::Ok(Ok((m, _))) => {
                cx.class(match m {
                    SMsg::Control { ref avps, .. } if avps.is_empty() => "ok control (ZLB)",
                    SMsg::Control { .. } => "ok control",
                    SMsg::Data { .. } => "ok data",
                });
            }
            Caught::Ok(Err(e)) => {
                if e.is_empty() {
                    return fail("decode returned Err with an empty error list", json!({"input": hex(b), "opts": opts_str(o)}));
                }
                cx.class(err_class(&e[0]));
            }
            Caught::Panic(p) => {
                let r = p.short();
                return cx.fail_sig(sig_of(b), format!("message decode panicked: {}", r), || json!({"input": hex(b), "opts": opts_str(o), "call": "Message::try_read_validate"}));
            }
            Caught::Monitor(_) => return fail("unexpected monitor payload", json!({"input": hex(b)})),
        }
    }
    cx.stage(STAGE_ARMED + 1);
    match crate_decode_avps(b) {
        Caught::Ok((v, _)) => {
            cx.class(if v.is_empty() { "avps: empty list" } else { "avps: non-empty list" });
            for x in &v {
                if let Err(e) = x {
                    cx.class(err_class(e));
                }
            }
        }
        Caught::Panic(p) => {
            let short = decode_avps(b).iter().any(|x| matches!(x, Err(SErr::BadAvpLength(l)) if *l < 6));
            let sig = if short { "avps-length-lt-6" } else { "avps-other" };
            return cx.fail_sig(sig, format!("AVP list decode panicked: {}", p.short()), || json!({"input": hex(b), "call": "AVP::try_read_greedy"}));
        }
        Caught::Monitor(_) => return fail("unexpected monitor payload", json!({"input": hex(b)})),
    }
    cx.stage(STAGE_SETUP);
    cx.sample(family, || json!({"input": hex_short(b), "family": family}));
    Ok(())
}

/// decoding through a reader that declines one `bytes` request (the trait allows None): Ok or non-empty Err, no panic
fn check_flaky(b: &[u8], t: &mut Tape, cx: &mut Cx) -> Res {
    use crate::mon::{ContractViolation, FlakyReader};
    let o = all_opts()[t.below(8)];
    let at = t.below(6) as u64;
    cx.eval();
    cx.stage(STAGE_ARMED);
    let mut declined = false;
    let r = guard(|| {
        let mut rd = FlakyReader::new(b, at);
        let r = decode_via(&mut rd, o);
        declined = rd.declined();
        r
    });
    let r2 = guard(|| {
        let mut rd = FlakyReader::new(b, at);
        decode_avps_via(&mut rd)
    });
    cx.stage(STAGE_SETUP);
    let render = || json!({"input": hex(b), "opts": opts_str(o), "reader": format!("declines bytes() call #{}", at)});
    for (what, bad) in [("message", matches!(r, Caught::Panic(_))), ("AVP list", matches!(r2, Caught::Panic(_)))] {
        if bad {
            let p = match (&r, &r2) {
                (Caught::Panic(p), _) | (_, Caught::Panic(p)) => p.short(),
                _ => String::new(),
            };
            return cx.fail_sig(sig_of(b), format!("{} decode panicked when the reader declined a bytes() request: {}", what, p), render);
        }
    }
    if let Caught::Monitor(p) = &r {
        if let Some(v) = p.downcast_ref::<ContractViolation>() {
            return cx.fail_sig(sig_of(b), format!("out-of-range {}({}) with {} remaining issued to a reader that had declined a bytes() request", v.method, v.requested, v.remaining), render);
        }
    }
    if let Caught::Ok((Err(e), _)) = &r {
        if e.is_empty() {
            return fail("decode returned Err with an empty error list", render());
        }
    }
    if declined {
        cx.class("a bytes() request was declined by the reader");
        cx.nontrivial(&(b, at, 11u8));
    }
    Ok(())
}

/// the same decode on a thread with a 64 KiB stack (a stack overflow kills the process: observed by the supervisor)
fn check_small_stack(b: &[u8], cx: &mut Cx) -> Res {
    if FUZZ_MODE.load(std::sync::atomic::Ordering::Relaxed) {
        return Ok(());
    }
    cx.eval();
    cx.stage(STAGE_ARMED);
    let owned = b.to_vec();
    let h = std::thread::Builder::new().stack_size(64 * 1024).spawn(move || {
        let mut n = 0u32;
        for o in all_opts() {
            if let Caught::Panic(_) = crate_decode(&owned, o) {
                n += 1;
            }
        }
        if let Caught::Panic(_) = crate_decode_avps(&owned) {
            n += 1;
        }
        n
    });
    let r = match h {
        Ok(h) => h.join(),
        Err(_) => return Ok(()), // could not create the thread: nothing learnt
    };
    cx.stage(STAGE_SETUP);
    match r {
        Ok(0) => {
            cx.class("decoded on a thread with a 64 KiB stack");
            Ok(())
        }
        _ => cx.fail_sig(sig_of(b), "decode panicked on a thread with a 64 KiB stack", || json!({"input": hex(b)})),
    }
}

/// the same decodes called from a destructor while the thread unwinds, and from thread-local destructors at thread exit:
/// no panic there either, and the same results
fn check_contexts(b: &[u8], cx: &mut Cx) -> Res {
    let owned = b.to_vec();
    let f: std::sync::Arc<dyn Fn() -> String + Send + Sync> = std::sync::Arc::new(move || {
        let mut s = String::new();
        for o in all_opts() {
            s.push_str(&match crate_decode(&owned, o) {
                Caught::Ok(r) => format!("{:?};", r),
                _ => "panic;".to_string(),
            });
        }
        s.push_str(&match crate_decode_avps(&owned) {
            Caught::Ok(r) => format!("{:?}", r),
            _ => "panic".to_string(),
        });
        s
    });
    cx.eval();
    cx.stage(STAGE_ARMED);
    let want = f();
    let r = crate::props::history::same_in_contexts(&want, f);
    cx.stage(STAGE_SETUP);
    match r {
        Ok(true) => {
            cx.class("also decoded while unwinding and from thread-local destructors at thread exit");
            Ok(())
        }
        Ok(false) => Ok(()),
        Err((how, got)) => {
            let what = if got.contains("panic") { "panicked" } else { "returned a different result" };
            cx.fail_sig(sig_of(b), format!("decode {} when called {}", what, how), || json!({"input": hex(b), "there": got.chars().take(300).collect::<String>(), "normally": want.chars().take(300).collect::<String>()}))
        }
    }
}

fn run_tape(_part: &str, tape: &[u8], cx: &mut Cx) -> Res {
    let mut t = Tape::new(tape);
    let mode = t.below(100);
    let b = gen_wire(&mut t);
    check_bytes(&b, "wire", cx)?;
    if mode < 6 {
        check_flaky(&b, &mut t, cx)?;
    } else if mode == 10 {
        check_small_stack(&b, cx)?;
    } else if mode == 11 || mode == 12 {
        check_contexts(&b, cx)?;
    }
    Ok(())
}

/// every 16-bit value in each enumerated field, inside a control message after a valid Message Type
pub fn code_inputs(x: u16) -> Vec<Vec<u8>> {
    let hdr = |body: &[u8]| -> Vec<u8> {
        let mut w = vec![0x13, 0x20, 0, 0, 0, 1, 0, 2, 0, 3, 0, 4, 0x01, 0x08, 0, 0, 0, 0, 0, 1];
        w.extend_from_slice(body);
        let l = w.len() as u16;
        w[2..4].copy_from_slice(&l.to_be_bytes());
        w
    };
    let xb = x.to_be_bytes();
    let mut up = vec![0u8; 32];
    up[1] = 1;
    for b in up[4..].iter_mut() {
        *b = b'a';
    }
    let mut attr = vec![0x01, 38, 0, 0, xb[0], xb[1]];
    attr.extend_from_slice(&up);
    vec![
        hdr(&[0x01, 0x08, 0, 0, 0, 0, xb[0], xb[1]]),             // message type code x
        hdr(&[0x01, 0x0a, 0, 0, 0, 1, 0, 1, xb[0], xb[1]]),        // error type x
        hdr(&[0x01, 0x08, 0, 0, 0, 29, xb[0], xb[1]]),             // proxy authen type x
        hdr(&attr),                                                 // attribute type x, generous payload
        hdr(&[0x00, 0x06, 0, 0, xb[0], xb[1]]),                     // attribute type x, empty payload, M clear
        hdr(&[0x01, 0x08, xb[0], xb[1], 0, 7, 0x41, 0x42]),         // vendor id x
    ]
}

fn run_enum(part: &str, index: u64, cx: &mut Cx) -> Res {
    match part {
        "codes" => {
            for b in code_inputs(index as u16) {
                check_bytes(&b, "codes", cx)?;
                check_bytes(&b[12..], "codes", cx)?;
            }
            Ok(())
        }
        "grid" => check_bytes(&grid_input(index), "grid", cx),
        _ => check_bytes(&short_input(index), "short", cx),
    }
}

fn run_concrete(case: &Value, cx: &mut Cx) -> Res {
    let b = case.get("input").and_then(|x| x.as_str()).and_then(unhex).ok_or_else(|| Failure { reason: "bad concrete case".into(), rendered: case.clone(), sig: None })?;
    check_bytes(&b, "concrete", cx)
}
