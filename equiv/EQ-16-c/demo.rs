// Demo for change `c`: the result-code family (ErrorType, StopCcnCode, CdnCode,
// CodeValue) and ProxyAuthenType are converted through dense tables and gain
// from_code / code / ALL, TryFrom<CodeValue>, CodeValue::new / get / Default and
// Ord / Hash. Accepted code points and emitted numbers are those of the
// (still present) num_enum conversions, checked here for every u16.
use rl2tp::avp::types::result_code::{CdnCode, CodeValue, Error, ErrorType, StopCcnCode};
use rl2tp::avp::types::{ProxyAuthenType, ResultCode};
use rl2tp::avp::AVP;
use rl2tp::common::{DecodeError, SliceReader, VecWriter};
use std::collections::{BTreeSet, HashSet};

fn decode_one(attribute_type: u16, payload: &[u8]) -> Result<AVP, DecodeError> {
    let len = 6 + payload.len();
    let mut input = vec![(((len >> 8) as u8) << 6) | 1, len as u8, 0, 0];
    input.extend_from_slice(&attribute_type.to_be_bytes());
    input.extend_from_slice(payload);
    let mut r = SliceReader::from(&input);
    let mut v = AVP::try_read_greedy(&mut r);
    assert_eq!(v.len(), 1);
    v.pop().unwrap()
}

fn encode_payload(avp: &AVP) -> Vec<u8> {
    let mut w = VecWriter::new();
    avp.write(&mut w);
    assert_eq!(w.data.len(), 6 + avp.get_length());
    w.data[6..].to_vec()
}

#[test]
fn tables_agree_with_primitive_conversions_and_decoder_for_every_u16() {
    for x in 0..=u16::MAX {
        // ErrorType
        let prim = <ErrorType as TryFrom<u16>>::try_from(x).ok();
        assert_eq!(ErrorType::from_code(x), prim);
        assert_eq!(prim.is_some(), x <= 8);
        let mut payload = vec![0, 2];
        payload.extend_from_slice(&x.to_be_bytes());
        let wire = decode_one(1, &payload);
        match prim {
            Some(t) => {
                assert_eq!(t.code(), x);
                assert_eq!(u16::from(t), x);
                let expect = AVP::ResultCode(ResultCode {
                    code: CodeValue::new(2),
                    error: Some(Error {
                        error_type: t,
                        error_message: None,
                    }),
                });
                assert_eq!(wire, Ok(expect.clone()));
                assert_eq!(encode_payload(&expect), payload);
            }
            None => assert_eq!(wire, Err(DecodeError::InvalidResultCodeErrorType(x))),
        }

        // Result codes stay raw
        let cv = CodeValue::new(x);
        assert_eq!(cv, CodeValue::from(x));
        assert_eq!(cv.get(), x);
        assert_eq!(u16::from(cv), x);
        let prim = <StopCcnCode as TryFrom<u16>>::try_from(x).ok();
        assert_eq!(StopCcnCode::from_code(x), prim);
        assert_eq!(cv.as_stop_ccn().ok(), prim);
        assert_eq!(StopCcnCode::try_from(cv).ok(), prim);
        assert_eq!(prim.is_some(), x <= 7);
        if let Some(c) = prim {
            assert_eq!(c.code(), x);
            assert_eq!(CodeValue::from(c), cv);
        } else {
            assert_eq!(cv.as_stop_ccn(), Err("Invalid StopCcnCode"));
        }
        let prim = <CdnCode as TryFrom<u16>>::try_from(x).ok();
        assert_eq!(CdnCode::from_code(x), prim);
        assert_eq!(cv.as_cdn().ok(), prim);
        assert_eq!(CdnCode::try_from(cv).ok(), prim);
        assert_eq!(prim.is_some(), x <= 11);
        if let Some(c) = prim {
            assert_eq!(c.code(), x);
            assert_eq!(CodeValue::from(c), cv);
        } else {
            assert_eq!(cv.as_cdn(), Err("Invalid CdnCode"));
        }
        let wire = decode_one(1, &x.to_be_bytes());
        let expect = AVP::ResultCode(ResultCode {
            code: cv,
            error: None,
        });
        assert_eq!(wire, Ok(expect.clone()));
        assert_eq!(encode_payload(&expect), x.to_be_bytes());

        // ProxyAuthenType
        let prim = <ProxyAuthenType as TryFrom<u16>>::try_from(x).ok();
        assert_eq!(ProxyAuthenType::from_code(x), prim);
        assert_eq!(prim.is_some(), x <= 5);
        let wire = decode_one(29, &x.to_be_bytes());
        match prim {
            Some(t) => {
                assert_eq!(t.code(), x);
                assert_eq!(wire, Ok(AVP::ProxyAuthenType(t)));
                assert_eq!(encode_payload(&AVP::ProxyAuthenType(t)), x.to_be_bytes());
            }
            None => assert_eq!(wire, Err(DecodeError::IncompleteAVP(29))),
        }
    }
}

#[test]
fn all_tables_are_indexed_by_code() {
    for (i, t) in ErrorType::ALL.iter().enumerate() {
        assert_eq!(t.code() as usize, i);
    }
    for (i, t) in StopCcnCode::ALL.iter().enumerate() {
        assert_eq!(t.code() as usize, i);
    }
    for (i, t) in CdnCode::ALL.iter().enumerate() {
        assert_eq!(t.code() as usize, i);
    }
    for (i, t) in ProxyAuthenType::ALL.iter().enumerate() {
        assert_eq!(t.code() as usize, i);
    }
    assert_eq!(ErrorType::UnknownMandatoryAvp.code(), 8);
    assert_eq!(StopCcnCode::FsmError.code(), 7);
    assert_eq!(CdnCode::CallNoFramingDetected.code(), 11);
    assert_eq!(ProxyAuthenType::MicrosoftChapVersion1.code(), 5);
}

#[test]
fn ordering_hash_default() {
    assert_eq!(CodeValue::default(), CodeValue::new(0));
    assert!(CodeValue::new(3) < CodeValue::new(4));
    assert!(ErrorType::Ok < ErrorType::Generic);
    let sorted: BTreeSet<CdnCode> = CdnCode::ALL.iter().rev().copied().collect();
    assert_eq!(sorted.into_iter().collect::<Vec<_>>(), CdnCode::ALL);
    let set: HashSet<StopCcnCode> = StopCcnCode::ALL.iter().chain(StopCcnCode::ALL.iter()).copied().collect();
    assert_eq!(set.len(), 8);
    let set: HashSet<ProxyAuthenType> = ProxyAuthenType::ALL.into_iter().collect();
    assert_eq!(set.len(), 6);
}
