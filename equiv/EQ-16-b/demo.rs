// Demo for change `b`: MessageType carries its RFC 2661 code as discriminant,
// is converted through a dense table instead of a perfect-hash map and gains
// TryFrom<u16> / From<MessageType> for u16 / from_code / code / ALL / Ord / Hash.
use rl2tp::avp::types::MessageType;
use rl2tp::avp::AVP;
use rl2tp::common::{DecodeError, SliceReader, VecWriter};
use std::collections::BTreeSet;

const ASSIGNED: [u16; 14] = [1, 2, 3, 4, 6, 7, 8, 9, 10, 11, 12, 14, 15, 16];

fn decode_code(code: u16) -> Result<AVP, DecodeError> {
    let mut input = vec![0x01, 0x08, 0x00, 0x00, 0x00, 0x00];
    input.extend_from_slice(&code.to_be_bytes());
    let mut r = SliceReader::from(&input);
    let mut v = AVP::try_read_greedy(&mut r);
    assert_eq!(v.len(), 1);
    v.pop().unwrap()
}

#[test]
fn discriminant_is_the_rfc_code() {
    // Compiles without the change as well, but then yields 4 / 13.
    assert_eq!(MessageType::Hello as u16, 6);
    assert_eq!(MessageType::SetLinkInfo as u16, 16);
}

#[test]
fn conversions_agree_with_the_decoder_for_every_u16() {
    for code in 0..=u16::MAX {
        let wire = decode_code(code);
        match MessageType::try_from(code) {
            Ok(t) => {
                assert!(ASSIGNED.contains(&code));
                assert_eq!(wire, Ok(AVP::MessageType(t)));
                assert_eq!(MessageType::from_code(code), Some(t));
                assert_eq!(t.code(), code);
                assert_eq!(u16::from(t), code);
                assert_eq!(t as u16, code);
                let mut w = VecWriter::new();
                AVP::MessageType(t).write(&mut w);
                let mut expect = vec![0x01, 0x08, 0, 0, 0, 0];
                expect.extend_from_slice(&code.to_be_bytes());
                assert_eq!(w.data, expect);
            }
            Err(e) => {
                assert!(!ASSIGNED.contains(&code));
                assert_eq!(e, DecodeError::UnknownMessageType(code));
                assert_eq!(wire, Err(DecodeError::UnknownMessageType(code)));
                assert_eq!(MessageType::from_code(code), None);
            }
        }
    }
}

#[test]
fn all_is_complete_and_ordered() {
    let codes: Vec<u16> = MessageType::ALL.iter().map(|t| t.code()).collect();
    assert_eq!(codes, ASSIGNED);
    let set: BTreeSet<MessageType> = MessageType::ALL.iter().rev().copied().collect();
    assert_eq!(set.into_iter().collect::<Vec<_>>(), MessageType::ALL);
    assert!(MessageType::StopControlConnectionNotification < MessageType::Hello);
}
