// C14 — validation options only restrict; each checks exactly its bits; the default entry point checks the version only.
use crate::cx::*;
use crate::gen::*;
use crate::glue::*;
use crate::prop::*;
use crate::props::c05::body_for_flagword;
use crate::spec::*;
use serde_json::{json, Value};

pub static DEF: PropDef = PropDef {
    id: "C14",
    title: "Validation options only restrict; each checks exactly its bits",
    rule: "All 65 536 flag words, each in front of 3 bodies (two structurally valid for the word's T/L/S/O bits, one truncated), and G-wire / G-noncanon tapes; every input is decoded under all 8 option sets. \
Oracle on the 8 results: (monotone) Ok(m) under o' implies Ok(m) under every pointwise weaker o; (exact) with version checking on the result is Err when the nibble is not 2 and otherwise identical to the \
result with it off; likewise reserved-bit checking (mask 0x2C0F) and, for control messages only, unused-field checking (P or O); (independent) with a check off, rewriting the bits it owns (nibble := 2, \
reserved := 0, control P/O := 0) leaves the whole result (value or error list) unchanged; (default) try_read = try_read_validate{reserved No, version Yes, unused No}. \
Non-trivial = accepted under at least one option set; distinct by hash of the input.",
    assumptions: &["control messages do not carry an offset field in this crate's layout, so clearing P/O on a control message leaves the body structure unchanged"],
    parts,
    run_tape,
    run_enum,
    run_concrete,
    both_profiles: true,
    exhaustive_note: "the flag-word space (65 536 words x 3 bodies x 8 option sets) is enumerated completely",
};

fn parts(t: Tier) -> Vec<Part> {
    let (a, b) = match t {
        Tier::Quick => (750_000, 300_000),
        Tier::Thorough => (8_000_000, 3_000_000),
    };
    vec![enumerate("flagwords", 65536), tape("wire", a, 900), tape("noncanon", b, 900)]
}

type R = Result<(SMsg, usize), Vec<rl2tp::common::DecodeError>>;

fn dec(b: &[u8], o: Opts) -> Result<R, String> {
    match crate_decode(b, o) {
        Caught::Ok(r) => Ok(r),
        Caught::Panic(p) => Err(p.short()),
        Caught::Monitor(_) => Err("monitor".into()),
    }
}

fn idx(o: Opts) -> usize {
    (o.reserved as usize) | ((o.version as usize) << 1) | ((o.unused as usize) << 2)
}

pub fn check(b: &[u8], family: &'static str, cx: &mut Cx) -> Res {
    cx.evals_n(8);
    let render = |why: String| json!({"input": hex_short(b), "relation": why});
    cx.stage(STAGE_UNATTRIBUTED);
    let mut res: Vec<R> = Vec::with_capacity(8);
    for o in all_opts() {
        match dec(b, o) {
            Ok(r) => res.push(r),
            Err(_) => {
                cx.class("decoder panicked (C01 territory)");
                return Ok(());
            }
        }
    }
    cx.stage(STAGE_SETUP);
    let opts = all_opts();
    // monotone
    for (i, oi) in opts.iter().enumerate() {
        if let Ok(v) = &res[i] {
            for (j, oj) in opts.iter().enumerate() {
                let weaker = (!oj.reserved || oi.reserved) && (!oj.version || oi.version) && (!oj.unused || oi.unused);
                if weaker && res[j].as_ref().ok() != Some(v) {
                    return fail(
                        format!("accepted under [{}] but not with the same value under the weaker [{}]", opts_str(*oi), opts_str(*oj)),
                        render(format!("monotone: {:?} vs {:?}", res[i].as_ref().map(|x| &x.0), res[j].as_ref().map(|x| &x.0))),
                    );
                }
            }
        }
    }
    if b.len() >= 2 {
        let w = ((b[0] as u16) << 8) | b[1] as u16;
        let nib = (w >> 4) & 0xf;
        let is_ctrl = w & T != 0;
        for o in opts {
            let i = idx(o);
            // exactness of each enabled check against the same options with that check off
            if o.version {
                let off = idx(Opts { version: false, ..o });
                if nib != 2 {
                    if res[i].is_ok() {
                        return fail(format!("version nibble {} accepted with version checking on [{}]", nib, opts_str(o)), render("exact: version".into()));
                    }
                } else if res[i] != res[off] {
                    return fail(format!("version nibble 2: result with version checking on [{}] differs from the result with it off", opts_str(o)), render("exact: version".into()));
                }
            }
            if o.reserved {
                let off = idx(Opts { reserved: false, ..o });
                if w & RESERVED != 0 {
                    if res[i].is_ok() {
                        return fail(format!("reserved bits {:#06x} accepted with reserved-bit checking on [{}]", w & RESERVED, opts_str(o)), render("exact: reserved".into()));
                    }
                } else if res[i] != res[off] {
                    return fail(format!("no reserved bit set: result with reserved-bit checking on [{}] differs from the result with it off", opts_str(o)), render("exact: reserved".into()));
                }
            }
            if o.unused {
                let off = idx(Opts { unused: false, ..o });
                if is_ctrl && w & (P | O) != 0 {
                    if res[i].is_ok() {
                        return fail(format!("control message with P/O accepted with unused-field checking on [{}]", opts_str(o)), render("exact: unused".into()));
                    }
                } else if res[i] != res[off] {
                    return fail(
                        format!("{}: result with unused-field checking on [{}] differs from the result with it off", if is_ctrl { "control message without P/O" } else { "data message" }, opts_str(o)),
                        render("exact: unused".into()),
                    );
                }
            }
            // independence: with a check off, the bits it owns do not matter
            let mut w2 = w;
            if !o.version {
                w2 = (w2 & 0xff0f) | 0x0020;
            }
            if !o.reserved {
                w2 &= !RESERVED;
            }
            if !o.unused && is_ctrl {
                w2 &= !(P | O);
            }
            if w2 != w {
                let mut b2 = b.to_vec();
                b2[0] = (w2 >> 8) as u8;
                b2[1] = w2 as u8;
                cx.eval();
                match dec(&b2, o) {
                    Ok(r2) => {
                        if r2 != res[i] {
                            return fail(
                                format!("under [{}] the result changes when bits owned by disabled checks are rewritten ({:#06x} -> {:#06x})", opts_str(o), w, w2),
                                render(format!("independence: {:?} vs {:?}", res[i].as_ref().map(|x| &x.0), r2.as_ref().map(|x| &x.0))),
                            );
                        }
                        cx.class("independence relation checked");
                    }
                    Err(p) => return fail(format!("decoder panicked on the input with owned bits rewritten: {}", p), render("independence".into())),
                }
            }
        }
    }
    // default entry point
    cx.eval();
    match crate_decode_default(b) {
        Caught::Ok(r) => {
            if r != res[idx(DEFAULT_OPTS)] {
                return fail("try_read differs from try_read_validate with {reserved: No, version: Yes, unused: No}", render(format!("default: {:?}", r.as_ref().map(|x| &x.0))));
            }
        }
        _ => return fail("try_read panicked where try_read_validate did not", render("default".into())),
    }
    let accepted = res.iter().filter(|r| r.is_ok()).count();
    if accepted > 0 {
        cx.nontrivial(b);
    }
    cx.class(match accepted {
        0 => "accepted under 0 of 8 option sets",
        8 => "accepted under all 8 option sets",
        _ => "accepted under some but not all option sets",
    });
    if accepted > 0 && accepted < 8 {
        cx.sample(family, || json!({"input": hex_short(b), "accepted_under": accepted, "family": family}));
    }
    Ok(())
}

fn run_tape(part: &str, tape: &[u8], cx: &mut Cx) -> Res {
    let mut t = Tape::new(tape);
    match part {
        "wire" => check(&gen_wire(&mut t), "wire", cx),
        _ => {
            let (b, _, _, _) = encode_noncanon(&mut t);
            check(&b, "noncanon", cx)
        }
    }
}

fn run_enum(_part: &str, index: u64, cx: &mut Cx) -> Res {
    for variant in 0..2 {
        check(&body_for_flagword(index as u16, variant), "flagwords", cx)?;
    }
    // one structurally invalid body: truncated
    let mut b = body_for_flagword(index as u16, 0);
    b.truncate(5);
    check(&b, "flagwords", cx)
}

fn run_concrete(case: &Value, cx: &mut Cx) -> Res {
    match case.get("input").and_then(|x| x.as_str()).and_then(unhex) {
        Some(b) => check(&b, "concrete", cx),
        None => fail("bad concrete case", case.clone()),
    }
}
