// C20 — decode errors identify the offending field and render with the right AVP name.
use crate::cx::*;
use crate::gen::*;
use crate::glue::*;
use crate::prop::*;
use crate::spec::*;
use rl2tp::common::DecodeError;
use serde_json::{json, Value};
use std::sync::OnceLock;

pub static DEF: PropDef = PropDef {
    id: "C20",
    title: "Decode errors identify the offending field and render with the right AVP name",
    rule: "(injection) valid messages from G-val / G-data with exactly one injected fault carrying an offending value x: version nibble (0..15 except 2); unknown attribute type in a non-first AVP; unknown \
message-type code in a second Message Type AVP; vendor id; offset size beyond the remaining octets; error-type code > 8; payload below the minimum of kind t; invalid UTF-8 in kinds 8, 21, 22, 23, 12, 1. \
Oracle: decode = Err([e]) with e the stated variant carrying x; for AVP faults the bare AVP-list decoder must return the same e as the element at the faulty position and Ok everywhere else. \
(rendering) every error variant with every payload value (10 variants x 65 536, InvalidVersion x 256, 15 without payload): to_string() returns and is non-empty; for IncompleteAVP(t), InvalidUtf8(t) and \
AVPReadError(t) the set of AVP-kind names occurring as whole alphanumeric tokens equals {the name of the variant that attribute number t actually decodes to}, and for unassigned t the text contains the \
decimal t and no kind name. Non-trivial = every injection and every rendering; distinct by hash of the faulty input / (variant, value).",
    assumptions: &["an AVP kind's name is the name of its enum variant (harness table by RFC number); which variant a number decodes to is observed by decoding, the variant being recognised at compile time, not through Debug text"],
    parts,
    run_tape,
    run_enum,
    run_concrete,
    both_profiles: true,
    exhaustive_note: "the rendering space (655 631 error values) is enumerated completely",
};

fn parts(t: Tier) -> Vec<Part> {
    let a = match t {
        Tier::Quick => 900_000,
        Tier::Thorough => 10_000_000,
    };
    vec![tape("injection", a, 1200), enumerate("rendering", 65536)]
}

/// the crate's variant names, by RFC attribute number (the harness's own table; a variant is recognised at compile time
/// by `from_crate`'s match, not through its Debug text)
const KIND_NAME: [(u16, &str); 39] = [
    (0, "MessageType"), (1, "ResultCode"), (2, "ProtocolVersion"), (3, "FramingCapabilities"), (4, "BearerCapabilities"), (5, "TieBreaker"),
    (6, "FirmwareRevision"), (7, "HostName"), (8, "VendorName"), (9, "AssignedTunnelId"), (10, "ReceiveWindowSize"), (11, "Challenge"),
    (12, "Q931CauseCode"), (13, "ChallengeResponse"), (14, "AssignedSessionId"), (15, "CallSerialNumber"), (16, "MinimumBps"), (17, "MaximumBps"),
    (18, "BearerType"), (19, "FramingType"), (21, "CalledNumber"), (22, "CallingNumber"), (23, "SubAddress"), (24, "TxConnectSpeed"),
    (25, "PhysicalChannelId"), (26, "InitialReceivedLcpConfReq"), (27, "LastSentLcpConfReq"), (28, "LastReceivedLcpConfReq"), (29, "ProxyAuthenType"),
    (30, "ProxyAuthenName"), (31, "ProxyAuthenChallenge"), (32, "ProxyAuthenId"), (33, "ProxyAuthenResponse"), (34, "CallErrors"), (35, "Accm"),
    (36, "RandomVector"), (37, "PrivateGroupId"), (38, "RxConnectSpeed"), (39, "SequencingRequired"),
];

/// (attribute number on the wire, name of the variant that number actually decodes to) for every number the crate's dispatch accepts
fn kind_names() -> &'static Vec<(u16, String)> {
    static NAMES: OnceLock<Vec<(u16, String)>> = OnceLock::new();
    NAMES.get_or_init(|| {
        let mut v = Vec::new();
        let mut p = vec![0u8; 32];
        p[1] = 1;
        for x in p[4..].iter_mut() {
            *x = b'a';
        }
        for t in 0..=300u16 {
            let mut b = vec![0x01, (6 + p.len()) as u8, 0, 0];
            b.extend_from_slice(&t.to_be_bytes());
            b.extend_from_slice(&p);
            if let Caught::Ok((l, _)) = crate_decode_avps(&b) {
                if let Some(Ok(a)) = l.first() {
                    // a.attr is the RFC number of the *variant* that was produced (matched by name in glue::from_crate)
                    if let Some((_, n)) = KIND_NAME.iter().find(|(k, _)| *k == a.attr) {
                        v.push((t, n.to_string()));
                    }
                }
            }
        }
        v
    })
}

fn tokens(s: &str) -> Vec<&str> {
    s.split(|c: char| !c.is_alphanumeric()).filter(|t| !t.is_empty()).collect()
}

fn check_render_named(e: DecodeError, t: u16, cx: &mut Cx) -> Res {
    cx.eval();
    let names = kind_names();
    let s = match guard(|| e.to_string()) {
        Caught::Ok(s) => s,
        _ => return fail(format!("rendering {:?} panicked", e), json!({"error": format!("{:?}", e)})),
    };
    if s.is_empty() {
        return fail(format!("rendering {:?} gave an empty text", e), json!({"error": format!("{:?}", e)}));
    }
    let toks = tokens(&s);
    let mut found: Vec<&str> = toks.iter().copied().filter(|t| names.iter().any(|n| n.1 == *t)).collect();
    found.sort();
    found.dedup();
    match names.iter().find(|n| n.0 == t) {
        Some((_, n)) => {
            if found != vec![n.as_str()] {
                return fail(
                    format!("{:?} renders as {:?}: attribute type {} decodes to kind {}, the text names {:?}", e, s, t, n, found),
                    json!({"error": format!("{:?}", e), "text": s}),
                );
            }
        }
        None => {
            let dec = t.to_string();
            if !found.is_empty() || !toks.iter().any(|x| *x == dec) {
                return fail(
                    format!("{:?} renders as {:?}: attribute type {} is unassigned, the text must show the number and no kind name (names found: {:?})", e, s, t, found),
                    json!({"error": format!("{:?}", e), "text": s}),
                );
            }
        }
    }
    Ok(())
}

fn check_render_plain(e: DecodeError, cx: &mut Cx) -> Res {
    cx.eval();
    match guard(|| e.to_string()) {
        Caught::Ok(s) if !s.is_empty() => Ok(()),
        Caught::Ok(_) => fail(format!("rendering {:?} gave an empty text", e), json!({"error": format!("{:?}", e)})),
        _ => fail(format!("rendering {:?} panicked", e), json!({"error": format!("{:?}", e)})),
    }
}

fn check_rendering(x: u16, cx: &mut Cx) -> Res {
    use DecodeError::*;
    cx.stage(STAGE_ARMED);
    check_render_named(IncompleteAVP(x), x, cx)?;
    check_render_named(InvalidUtf8(x), x, cx)?;
    check_render_named(AVPReadError(x), x, cx)?;
    for e in [UnknownMessageType(x), InvalidResultCodeErrorType(x), InvalidAVPLength(x), UnknownAvp(x), InvalidOriginalAVPLength(x), UnsupportedVendorId(x), InvalidOffset(x)] {
        check_render_plain(e, cx)?;
    }
    if x < 256 {
        check_render_plain(InvalidVersion(x as u8), cx)?;
    }
    if x < 15 {
        let e = match x {
            0 => EmptyHiddenAVP,
            1 => MisalignedHiddenAVP,
            2 => InvalidReservedBits,
            3 => IncompleteFlags,
            4 => IncompleteDataMessageHeader,
            5 => IncompleteDataMessagePayload,
            6 => EmptyDataMessagePayload,
            7 => MessageReadError,
            8 => ForbiddenControlMessagePriority,
            9 => ForbiddenControlMessageOffset,
            10 => ControlMessageWithoutLength,
            11 => ControlMessageWithoutNsNr,
            12 => IncompleteControlMessageHeader,
            13 => IncompleteControlMessagePayload,
            _ => ControlMessageTypeNotFirst,
        };
        check_render_plain(e, cx)?;
    }
    cx.stage(STAGE_SETUP);
    cx.nontrivial(&(x, 77u8));
    if x < 42 || x == 65535 {
        cx.sample("rendering", || json!({"error": format!("IncompleteAVP({})", x), "text": IncompleteAVP(x).to_string(), "family": "rendering"}));
    }
    Ok(())
}

fn rec(w: &mut Vec<u8>, vendor: u16, attr: u16, payload: &[u8]) {
    rec_bits(w, 1, vendor, attr, payload)
}

/// `bits`: the low six bits of the first header octet (M = 0x01, H = 0x02, reserved = 0x3c)
fn rec_bits(w: &mut Vec<u8>, bits: u8, vendor: u16, attr: u16, payload: &[u8]) {
    let len = 6 + payload.len();
    w.extend_from_slice(&[(((len >> 8) as u8) << 6) | (bits & 0x3f), len as u8]);
    w.extend_from_slice(&vendor.to_be_bytes());
    w.extend_from_slice(&attr.to_be_bytes());
    w.extend_from_slice(payload);
}

fn check_injection(t: &mut Tape, cx: &mut Cx) -> Res {
    cx.eval();
    let kind = t.below(8);
    // message-level faults
    if kind == 0 {
        cx.class("fault: version nibble");
        let m = if t.chance(50) {
            let k = t.below(4);
            gen_control_k(t, k)
        } else {
            gen_data_small(t)
        };
        let mut b = encode_message(&m);
        let x = loop {
            let x = t.below(16) as u8;
            if x != 2 {
                break x;
            }
        };
        b[1] = (b[1] & 0x0f) | (x << 4);
        let o = Opts { reserved: t.chance(50), version: true, unused: t.chance(50) };
        return expect_msg(&b, o, DecodeError::InvalidVersion(x), cx);
    }
    if kind == 1 {
        cx.class("fault: offset size");
        let mut m = gen_data_small(t);
        let dlen = match &mut m {
            SMsg::Data { offset, length, data, .. } => {
                *length = None;
                *offset = Some(0);
                data.len()
            }
            _ => unreachable!(),
        };
        let mut b = encode_message(&m);
        // half of the messages carry a Length field (equal to the true total size, which the injection does not change)
        if t.chance(50) && b.len() + 2 <= 65535 {
            if let SMsg::Data { length, .. } = &mut m {
                *length = Some((b.len() + 2) as u16);
            }
            b = encode_message(&m);
            cx.class("fault: offset size, in a message with a Length field");
        }
        // Offset Size field: the two octets before the payload
        let pos = b.len() - dlen - 2;
        let x = (dlen + 1 + t.below(2000)).min(65535) as u16;
        b[pos..pos + 2].copy_from_slice(&x.to_be_bytes());
        let o = all_opts()[t.below(8)];
        let o = Opts { version: o.version, ..o };
        return expect_msg(&b, o, DecodeError::InvalidOffset(x), cx);
    }
    // AVP-level faults in a non-first AVP of an otherwise valid control message
    let mut bad = Vec::new();
    let expected = match kind {
        2 => {
            cx.class("fault: unknown attribute type");
            let x = match t.below(10) {
                0..=2 => [20u16, 40, 41, 255, 256, 65535][t.below(6)],
                3..=5 => 40 + t.below(64) as u16, // just above the assigned range: numbers later RFCs assigned
                _ => 40 + t.below(65496) as u16,
            };
            let n = t.below(16);
            let p = t.blob(n);
            let bits = if t.chance(50) { 1 } else { t.byte() & 0x3d };
            rec_bits(&mut bad, bits, 0, x, &p);
            DecodeError::UnknownAvp(x)
        }
        3 => {
            cx.class("fault: unknown message-type code");
            let x = loop {
                let x = if t.chance(50) { [0u16, 5, 13, 17, 255, 256, 65535][t.below(7)] } else { t.u16() };
                if !MSG_TYPES.contains(&x) {
                    break x;
                }
            };
            rec(&mut bad, 0, 0, &x.to_be_bytes());
            DecodeError::UnknownMessageType(x)
        }
        4 => {
            cx.class("fault: vendor id");
            let v = 1 + t.below(65535) as u16;
            let attr = ASSIGNED[t.below(39)];
            let mut p = Vec::new();
            encode_payload(&gen_body_max(t, attr, 40), &mut p);
            // a vendor-specific AVP is refused whatever its other header bits say (M, H, reserved)
            let bits = match t.below(4) {
                0 => 0x01,
                1 => 0x03,
                2 => 0x02,
                _ => t.byte() & 0x3f,
            };
            if bits & 0x02 != 0 {
                cx.class("fault: vendor id on an AVP with the H bit");
            }
            rec_bits(&mut bad, bits, v, attr, &p);
            DecodeError::UnsupportedVendorId(v)
        }
        5 => {
            cx.class("fault: error-type code");
            let x = 9 + t.below(65527) as u16;
            let mut p = t.b_u16().to_be_bytes().to_vec();
            p.extend_from_slice(&x.to_be_bytes());
            if t.chance(50) {
                p.extend_from_slice(t.utf8(5).as_bytes());
            }
            rec(&mut bad, 0, 1, &p);
            DecodeError::InvalidResultCodeErrorType(x)
        }
        6 => {
            cx.class("fault: payload below the minimum");
            let kinds: Vec<u16> = ASSIGNED.iter().copied().filter(|a| fmt_of(*a).map(min_len).unwrap_or(0) >= 1).collect();
            let attr = kinds[t.below(kinds.len())];
            let min = min_len(fmt_of(attr).unwrap());
            let n = t.below(min);
            let p = t.blob(n);
            let bits = if t.chance(50) { 1 } else { t.byte() & 0x3d };
            rec_bits(&mut bad, bits, 0, attr, &p);
            DecodeError::IncompleteAVP(attr)
        }
        _ => {
            cx.class("fault: invalid utf-8");
            let attr = [8u16, 21, 22, 23, 12, 1][t.below(6)];
            let mut p = match attr {
                12 => vec![t.byte(), t.byte(), t.byte()],
                1 => vec![t.byte(), t.byte(), 0, t.below(9) as u8],
                _ => vec![],
            };
            // the valid part before the fault: usually short, sometimes filling the AVP to (or close to) its 1023-octet maximum
            let room = 1017 - p.len() - 8;
            let n = match t.below(8) {
                0 => room,
                1 => room - 1 - t.below(4),
                2 => t.below(room),
                _ => t.below(8),
            };
            p.extend_from_slice(t.utf8(n).as_bytes());
            let at_max = n >= room - 5;
            p.extend_from_slice(match t.below(9) {
                0 => &[0xff][..],
                1 => &[0xc0, 0xaf][..],     // overlong
                2 => &[0xed, 0xa0, 0x80][..], // surrogate
                3 => &[0xf4, 0x90, 0x80, 0x80][..], // beyond U+10FFFF
                4 => &[0xf0, 0x9f, 0x98][..], // four-octet character missing its last octet
                5 => &[0xf0, 0x9f][..],     // ... missing two
                6 => &[0x80][..],           // lone continuation octet
                7 => &[0xe0, 0x80, 0x80][..], // overlong three-octet form
                _ => &[0xe2, 0x82][..],     // truncated sequence (at the end, or followed by ASCII)
            });
            let n2 = if at_max { 0 } else { t.below(4) };
            for _ in 0..n2 {
                p.push(b'a' + t.below(26) as u8);
            }
            if at_max {
                // pad in front so that the AVP is exactly 1023 octets and the broken sequence is its very end
                let fixed = match attr {
                    12 => 3,
                    1 => 4,
                    _ => 0,
                };
                while p.len() < 1017 {
                    p.insert(fixed, b'x');
                }
                cx.class("fault: invalid utf-8 at the very end of a 1023-octet AVP");
            }
            rec(&mut bad, 0, attr, &p);
            DecodeError::InvalidUtf8(attr)
        }
    };
    // surrounding good AVPs (occasionally thousands of small ones in front: the fault sits deep in a large message)
    if t.chance(1) {
        let n_before = [255usize, 256, 1023, 1024, 4095, 4096, 4097, 8190, 8191][t.below(9)];
        let mut region = Vec::with_capacity(n_before * 6 + bad.len() + 64);
        encode_avp(&msg_type_avp(t), &mut region);
        for _ in 0..n_before {
            region.extend_from_slice(&[0x01, 0x06, 0, 0, 0, 39]);
        }
        if region.len() + bad.len() + 12 + 8 <= 65535 {
            region.extend_from_slice(&bad);
            region.extend_from_slice(&[0x01, 0x08, 0, 0, 0, 9, 0, 5]);
            let msg = control_around(t, &region);
            cx.class("fault behind hundreds or thousands of small AVPs");
            return expect_msg_ref(&msg, STRICT, &expected, cx);
        }
    }
    let before = t.below(4);
    let after = t.below(4);
    let mut region = Vec::new();
    encode_avp(&msg_type_avp(t), &mut region);
    let mut pos = 1;
    for _ in 0..before {
        let attr = ASSIGNED[1 + t.below(38)];
        encode_avp(&SAvp { attr, hidden: false, body: gen_body_max(t, attr, 40) }, &mut region);
        pos += 1;
    }
    region.extend_from_slice(&bad);
    for _ in 0..after {
        let attr = ASSIGNED[1 + t.below(38)];
        encode_avp(&SAvp { attr, hidden: false, body: gen_body_max(t, attr, 40) }, &mut region);
    }
    let mut msg = control_around(t, &region);
    // harness sanity: the reference sees exactly one fault
    match decode_message(&msg, STRICT) {
        Err(e) if e.len() == 1 => {}
        other => return fail(format!("harness: single-fault construction is not single-fault for the reference: {:?}", other.map(|x| x.1)), json!({"input": hex(&msg), "harness_bug": true})),
    }
    expect_msg_ref(&msg, STRICT, &expected, cx)?;
    // the same single fault with checks switched off and the header bits they own set to anything: still exactly that error
    if t.chance(30) {
        let o = Opts { reserved: false, version: false, unused: false };
        let nib = t.below(16) as u8;
        msg[1] = (msg[1] & 0x0f) | (nib << 4);
        msg[0] |= t.byte() & 0x2c; // reserved bits of the first flag octet
        msg[1] |= t.byte() & 0x0f; // reserved bits of the second
        if t.chance(30) {
            msg[0] |= [0x80u8, 0x40, 0xc0][t.below(3)]; // P / O on a control message
        }
        cx.class("fault with validation off and arbitrary owned header bits");
        expect_msg_ref(&msg, o, &expected, cx)?;
    }
    // the bare AVP-list decoder: the same error as the element at the faulty position, Ok elsewhere
    cx.eval();
    cx.stage(STAGE_ARMED);
    let r = crate_decode_avps(&region);
    cx.stage(STAGE_SETUP);
    match r {
        Caught::Ok((v, _)) => {
            if v.len() != 1 + before + 1 + after {
                return fail(format!("bare AVP list: {} elements for {} records", v.len(), 2 + before + after), json!({"avp_region": hex(&region)}));
            }
            for (i, x) in v.iter().enumerate() {
                if i == pos {
                    if x.as_ref().err() != Some(&expected) {
                        return fail(format!("bare AVP list: element #{} is {:?}, expected Err({:?})", i, x, expected), json!({"avp_region": hex(&region)}));
                    }
                } else if x.is_err() {
                    return fail(format!("bare AVP list: the good record #{} was reported as {:?}", i, x), json!({"avp_region": hex(&region)}));
                }
            }
        }
        _ => return fail("bare AVP list decode panicked", json!({"avp_region": hex(&region)})),
    }
    Ok(())
}

fn expect_msg(b: &[u8], o: Opts, expected: DecodeError, cx: &mut Cx) -> Res {
    expect_msg_ref(b, o, &expected, cx)
}

fn expect_msg_ref(b: &[u8], o: Opts, expected: &DecodeError, cx: &mut Cx) -> Res {
    let render = || json!({"input": hex(b), "opts": opts_str(o), "expected": format!("Err([{:?}])", expected)});
    cx.stage(STAGE_ARMED);
    let r = crate_decode(b, o);
    cx.stage(STAGE_SETUP);
    match r {
        Caught::Ok(Err(e)) => {
            if e.len() != 1 || e[0] != *expected {
                return fail(format!("single fault reported as {:?}, expected [{:?}]", e, expected), render());
            }
            // the reported error must also render
            if let Caught::Ok(s) = guard(|| e[0].to_string()) {
                if s.is_empty() {
                    return fail("the reported error renders as an empty text", render());
                }
            } else {
                return fail("rendering the reported error panicked", render());
            }
        }
        Caught::Ok(Ok(_)) => return fail("a message with an injected fault was accepted", render()),
        Caught::Panic(p) => return fail(format!("decoder panicked: {}", p.short()), render()),
        Caught::Monitor(_) => return fail("unexpected panic payload", render()),
    }
    cx.nontrivial(&(b, o.reserved, o.version, o.unused));
    cx.sample(
        match expected {
            DecodeError::InvalidVersion(_) => "inj-version",
            DecodeError::InvalidOffset(_) => "inj-offset",
            DecodeError::UnknownAvp(_) => "inj-unknown-avp",
            DecodeError::UnknownMessageType(_) => "inj-unknown-msgtype",
            DecodeError::UnsupportedVendorId(_) => "inj-vendor",
            DecodeError::InvalidResultCodeErrorType(_) => "inj-error-type",
            DecodeError::IncompleteAVP(_) => "inj-incomplete",
            _ => "inj-utf8",
        },
        || json!({"input": hex_short(b), "opts": opts_str(o), "error": format!("{:?}", expected), "text": expected.to_string(), "family": "injection"}),
    );
    Ok(())
}

fn run_tape(_part: &str, tape: &[u8], cx: &mut Cx) -> Res {
    let mut t = Tape::new(tape);
    check_injection(&mut t, cx)
}

fn run_enum(_part: &str, index: u64, cx: &mut Cx) -> Res {
    check_rendering(index as u16, cx)
}

fn run_concrete(case: &Value, cx: &mut Cx) -> Res {
    match case.get("code").and_then(|x| x.as_u64()) {
        Some(x) => check_rendering(x as u16, cx),
        None => fail("bad concrete case", case.clone()),
    }
}
