// Demo for change `c`: the 6-octet AVP header is now fetched with two
// fixed-width reads (one u16: flags+length, one u32: vendor id + attribute
// type) instead of four (u8, u8, u16, u16).  Decoded results are identical;
// only the sequence of Reader calls differs.
use rl2tp::avp::{types, AVP};
use rl2tp::common::{Reader, SliceReader};
use std::cell::RefCell;
use std::rc::Rc;

struct TraceReader<'a> {
    inner: SliceReader<'a>,
    log: Rc<RefCell<Vec<String>>>,
}

impl<'a> TraceReader<'a> {
    fn note(&self, what: &str, need: usize) {
        // Reader contract: every unchecked request must fit in what remains
        assert!(need <= self.inner.len(), "{what} needs {need} octets");
        self.log.borrow_mut().push(what.to_owned());
    }
}

impl<'a> Reader<&'a [u8]> for TraceReader<'a> {
    fn is_empty(&self) -> bool {
        self.inner.is_empty()
    }
    fn len(&self) -> usize {
        self.inner.len()
    }
    fn subreader(&mut self, length: usize) -> Self {
        self.note(&format!("subreader({length})"), length);
        TraceReader {
            inner: self.inner.subreader(length),
            log: self.log.clone(),
        }
    }
    fn bytes(&mut self, length: usize) -> Option<&'a [u8]> {
        self.log.borrow_mut().push(format!("bytes({length})"));
        self.inner.bytes(length)
    }
    unsafe fn read_u8_unchecked(&mut self) -> u8 {
        self.note("u8", 1);
        self.inner.read_u8_unchecked()
    }
    unsafe fn read_u16_be_unchecked(&mut self) -> u16 {
        self.note("u16", 2);
        self.inner.read_u16_be_unchecked()
    }
    unsafe fn read_u32_be_unchecked(&mut self) -> u32 {
        self.note("u32", 4);
        self.inner.read_u32_be_unchecked()
    }
    unsafe fn read_u64_be_unchecked(&mut self) -> u64 {
        self.note("u64", 8);
        self.inner.read_u64_be_unchecked()
    }
    fn skip_bytes(&mut self, length: usize) {
        self.note(&format!("skip({length})"), length);
        self.inner.skip_bytes(length)
    }
}

#[test]
fn avp_header_is_read_with_two_fixed_width_reads() {
    // MessageType(Hello), then a hidden AVP (length 0x116 = 278, uses the two
    // high length bits), then AssignedTunnelId
    let mut bytes = vec![0x01, 0x08, 0x00, 0x00, 0x00, 0x00, 0x00, 0x06];
    bytes.extend_from_slice(&[0x43, 0x16, 0x00, 0x00, 0x00, 0x09]);
    bytes.extend_from_slice(&[0x5a; 272]);
    bytes.extend_from_slice(&[0x01, 0x08, 0x00, 0x00, 0x00, 0x09, 0xbe, 0xef]);

    let log = Rc::new(RefCell::new(Vec::new()));
    let mut r = TraceReader {
        inner: SliceReader::from(&bytes),
        log: log.clone(),
    };
    let got = AVP::try_read_greedy(&mut r);

    // Same decoded values as through a plain SliceReader
    let mut plain = SliceReader::from(&bytes);
    assert_eq!(got, AVP::try_read_greedy(&mut plain));
    assert_eq!(
        got,
        vec![
            Ok(AVP::MessageType(types::MessageType::Hello)),
            Ok(AVP::Hidden(types::Hidden {
                attribute_type: 9,
                value: vec![0x5a; 272]
            })),
            Ok(AVP::AssignedTunnelId(0xbeef.into())),
        ]
    );

    // Reader call sequence
    assert_eq!(
        *log.borrow(),
        vec![
            "u16", "u32", "subreader(2)", "u16", // MessageType
            "u16", "u32", "bytes(272)", // Hidden
            "u16", "u32", "subreader(2)", "u16", // AssignedTunnelId
        ]
    );
}
