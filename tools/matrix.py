#!/usr/bin/env python3
"""Print the seeded-change x check matrix (markdown) from /verif/seeded/*/meta.json."""
import json, glob, os, re
rows = []
for d in sorted(glob.glob('/verif/seeded/*/')):
    mp = os.path.join(d, 'meta.json')
    if not os.path.exists(mp): continue
    m = json.load(open(mp))
    runs = m['what_was_run']
    k = [k for k in runs if k.startswith('all 20 checks') or k.startswith('checks run')][0]
    caught = runs[k]['checks reporting VIOLATION']
    other = runs[k]['checks exiting 2']
    txt = m.get('what_it_needs_to_manifest', '').strip().splitlines()
    first = next((l for l in txt if l.strip()), '')
    first = re.sub(r'\s+', ' ', first)[:150]
    rows.append((m['id'], m['breaks_property'], m['confirmed'], m['caught_by_owning_property_check'], caught, other, first))
print('| change | written against | confirmed (suite passes, demo fails with / passes without) | owning check reports it | all checks reporting VIOLATION | exit 2 |')
print('|---|---|---|---|---|---|')
for r in rows:
    print(f"| {r[0]} | {r[1]} | {'yes' if r[2] else 'NO'} | {'yes' if r[3] else 'NO'} | {' '.join(r[4])} | {' '.join(r[5])} |")
