// Demo for change `c`: message headers are assembled in a small stack buffer and handed to the
// `Writer` in one `write_bytes` call instead of one call per 16-bit field.
//
// The emitted octets are unchanged; what changes is the sequence of `Writer` trait calls.

use rl2tp::avp::types::MessageType;
use rl2tp::avp::AVP;
use rl2tp::common::{VecWriter, Writer};
use rl2tp::{ControlMessage, DataMessage, Message};

#[derive(Debug, PartialEq, Eq, Clone)]
enum Call {
    Bytes(Vec<u8>),
    BytesAt(Vec<u8>, usize),
    U8(u8),
    U16(u16),
    U32(u32),
    U64(u64),
}

/// A plain byte-vector writer that also keeps a log of the calls it received.
#[derive(Default)]
struct RecordingWriter {
    inner: VecWriter,
    log: Vec<Call>,
}

impl Writer for RecordingWriter {
    fn is_empty(&self) -> bool {
        self.inner.is_empty()
    }
    fn len(&self) -> usize {
        self.inner.len()
    }
    fn write_bytes(&mut self, bytes: &[u8]) {
        self.log.push(Call::Bytes(bytes.to_vec()));
        self.inner.write_bytes(bytes)
    }
    fn write_bytes_at(&mut self, bytes: &[u8], offset: usize) {
        self.log.push(Call::BytesAt(bytes.to_vec(), offset));
        self.inner.write_bytes_at(bytes, offset)
    }
    fn write_u8(&mut self, value: u8) {
        self.log.push(Call::U8(value));
        self.inner.write_u8(value)
    }
    fn write_u16_be(&mut self, value: u16) {
        self.log.push(Call::U16(value));
        self.inner.write_u16_be(value)
    }
    fn write_u32_be(&mut self, value: u32) {
        self.log.push(Call::U32(value));
        self.inner.write_u32_be(value)
    }
    fn write_u64_be(&mut self, value: u64) {
        self.log.push(Call::U64(value));
        self.inner.write_u64_be(value)
    }
}

#[test]
fn zlb_control_header_is_one_write_plus_the_length_fixup() {
    let message: Message<Vec<u8>> = Message::Control(ControlMessage {
        length: 0,
        tunnel_id: 0x0102,
        session_id: 0x0304,
        ns: 0x0506,
        nr: 0x0708,
        avps: vec![],
    });

    let mut w = RecordingWriter::default();
    w.write_bytes(&[0xee; 3]); // pre-existing content
    w.log.clear();
    message.write(&mut w);

    // Octets as always
    assert_eq!(
        w.inner.data,
        [0xee, 0xee, 0xee, 0x13, 0x20, 0x00, 0x0c, 0x01, 0x02, 0x03, 0x04, 0x05, 0x06, 0x07, 0x08]
    );
    // Call sequence: whole header at once, then the length overwrite inside this message
    assert_eq!(
        w.log,
        vec![
            Call::Bytes(vec![0x13, 0x20, 0, 0, 0x01, 0x02, 0x03, 0x04, 0x05, 0x06, 0x07, 0x08]),
            Call::BytesAt(vec![0x00, 0x0c], 5),
        ]
    );
}

#[test]
fn control_header_precedes_avps_as_a_single_write() {
    let message: Message<Vec<u8>> = Message::Control(ControlMessage {
        length: 0,
        tunnel_id: 1,
        session_id: 2,
        ns: 3,
        nr: 4,
        avps: vec![AVP::MessageType(MessageType::Hello)],
    });
    let mut w = RecordingWriter::default();
    message.write(&mut w);
    assert_eq!(
        w.inner.data,
        [0x13, 0x20, 0, 20, 0, 1, 0, 2, 0, 3, 0, 4, 0x01, 0x08, 0, 0, 0, 0, 0, 6]
    );
    assert_eq!(
        w.log.first(),
        Some(&Call::Bytes(vec![0x13, 0x20, 0, 0, 0, 1, 0, 2, 0, 3, 0, 4]))
    );
    assert_eq!(w.log.last(), Some(&Call::BytesAt(vec![0, 20], 2)));
}

#[test]
fn data_message_is_two_writes() {
    let payload = [0xde, 0xad, 0xbe, 0xef];
    let message = Message::Data(DataMessage {
        is_prioritized: true,
        length: Some(20),
        tunnel_id: 0x1111,
        session_id: 0x2222,
        ns_nr: Some((0x3333, 0x4444)),
        offset: Some(0),
        data: &payload[..],
    });
    let mut w = RecordingWriter::default();
    message.write(&mut w);
    let header = vec![
        0xd2, 0x20, 0x00, 0x14, 0x11, 0x11, 0x22, 0x22, 0x33, 0x33, 0x44, 0x44, 0x00, 0x00,
    ];
    assert_eq!(w.inner.data, [&header[..], &payload[..]].concat());
    assert_eq!(
        w.log,
        vec![Call::Bytes(header), Call::Bytes(payload.to_vec())]
    );

    // Minimal header: flags, tunnel id, session id
    let message = Message::Data(DataMessage {
        is_prioritized: false,
        length: None,
        tunnel_id: 5,
        session_id: 6,
        ns_nr: None,
        offset: None,
        data: &payload[..],
    });
    let mut w = RecordingWriter::default();
    message.write(&mut w);
    assert_eq!(
        w.log,
        vec![
            Call::Bytes(vec![0x00, 0x20, 0, 5, 0, 6]),
            Call::Bytes(payload.to_vec())
        ]
    );
}
