// Demo for change `b`: Debug output of secret-bearing AVP values is redacted.
// PASSES with the change, FAILS on the original crate.
use rl2tp::avp::types::{ChallengeResponse, Hidden, HostName, ProxyAuthenResponse, RandomVector};
use rl2tp::avp::AVP;
use rl2tp::common::{SliceReader, VecWriter};
use rl2tp::{ControlMessage, Message};

#[test]
fn hidden_debug_is_redacted() {
    let rv = RandomVector::from([1, 2, 3, 4]);
    let hidden = AVP::HostName(HostName::from(b"secret-host".to_vec())).hide(
        b"shared secret",
        &rv,
        &[],
        &[0xEE; 16],
    );
    let value = match &hidden {
        AVP::Hidden(h) => h.value.clone(),
        _ => unreachable!(),
    };
    assert_eq!(value.len(), 16);
    let dbg = format!("{hidden:?}");
    assert_eq!(
        dbg,
        "Hidden(Hidden { attribute_type: 7, value: <redacted: 16 octets> })"
    );
    // the derived list rendering of the ciphertext must not be present
    assert!(!dbg.contains(&format!("{value:?}")));

    // the value itself is of course untouched: reveal still works
    let revealed = hidden.reveal(b"shared secret", &rv).unwrap();
    assert_eq!(revealed, AVP::HostName(HostName::from(b"secret-host".to_vec())));
}

#[test]
fn challenge_response_and_proxy_response_debug_are_redacted() {
    let cr = ChallengeResponse::from([0xABu8; 16]);
    assert_eq!(
        format!("{cr:?}"),
        "ChallengeResponse { value: <redacted: 16 octets> }"
    );
    let pr = ProxyAuthenResponse::from(b"hunter2".to_vec());
    assert_eq!(
        format!("{pr:?}"),
        "ProxyAuthenResponse { value: <redacted: 7 octets> }"
    );
    let h = Hidden {
        attribute_type: 40000,
        value: vec![],
    };
    assert_eq!(
        format!("{h:?}"),
        "Hidden { attribute_type: 40000, value: <redacted: 0 octets> }"
    );
}

#[test]
fn redaction_shows_through_a_decoded_message() {
    let msg = Message::<Vec<u8>>::Control(ControlMessage {
        length: 0,
        tunnel_id: 1,
        session_id: 2,
        ns: 3,
        nr: 4,
        avps: vec![AVP::ChallengeResponse(ChallengeResponse::from([0x5Au8; 16]))],
    });
    let mut w = VecWriter::new();
    msg.write(&mut w);
    let mut r = SliceReader::from(&w.data[..]);
    // first AVP is not MessageType -> rejected; decode the AVP list directly instead
    assert!(Message::try_read(&mut r).is_err());
    let mut r = SliceReader::from(&w.data[12..]);
    let avps = AVP::try_read_greedy(&mut r);
    let dbg = format!("{avps:?}");
    assert!(dbg.contains("<redacted: 16 octets>"), "{dbg}");
    assert!(!dbg.contains("90, 90"), "{dbg}");
}
