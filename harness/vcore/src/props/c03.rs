// C03 — control messages and all AVP kinds survive encode then decode unchanged.
use crate::cx::*;
use crate::gen::*;
use crate::glue::*;
use crate::prop::*;
use crate::spec::*;
use rl2tp::avp::AVP;
use rl2tp::common::{Reader, SliceReader, VecWriter};
use rl2tp::Message;
use serde_json::{json, Value};

pub static DEF: PropDef = PropDef {
    id: "C03",
    title: "Control messages and all AVP kinds survive encode then decode unchanged",
    rule: "G-val tapes: control messages of 0..~70 AVPs (all 39 standard kinds with boundary-biased integers, blobs/strings of 1..1017 octets with extra mass on AVP totals 255/256/1022/1023, \
optional tails absent/present, opaque hidden AVPs of any u16 type) built under the 65 535-octet budget with a Message Type first, occasionally filling the message to (or exactly to) 65 535 octets; \
and single AVPs. Oracle: Message::write -> try_read_validate(Yes,Yes,Yes) = Ok(m[length := octets emitted]) with the reader empty afterwards; AVP::write -> try_read_greedy = [Ok(a)]; \
compared both with the crate's own PartialEq and field-for-field after projection. Non-trivial = a message with at least one AVP, or a single AVP; distinct by hash of the encoding.",
    assumptions: &["values are built through the crate's public fields/constructors only; enumerated values are chosen by name from the harness's own RFC tables"],
    parts,
    run_tape,
    run_enum: no_enum,
    run_concrete,
    both_profiles: true,
    exhaustive_note: "",
};

fn parts(t: Tier) -> Vec<Part> {
    let (a, b, c) = match t {
        Tier::Quick => (150_000, 400_000, 1_500),
        Tier::Thorough => (2_500_000, 6_000_000, 30_000),
    };
    vec![tape("messages", a, 2500), tape("avps", b, 1200), tape("bigmessages", c, 3000)]
}

pub fn avp_classes(a: &SAvp, wire_len: usize, cx: &mut Cx) {
    if a.hidden {
        cx.class("avp variant Hidden");
    } else {
        cx.class_dyn(format!("avp variant {:02}", a.attr));
    }
    cx.class(match wire_len {
        0..=255 => "avp total <= 255",
        256..=1022 => "avp total 256..1022",
        _ => "avp total = 1023",
    });
    match &a.body {
        Body::Text(s) if !s.is_ascii() => cx.class("multi-byte utf-8 text"),
        Body::ResultCode { error: None, .. } => cx.class("result code: no error part"),
        Body::ResultCode { error: Some((_, None)), .. } => cx.class("result code: error without message"),
        Body::ResultCode { error: Some((_, Some(_))), .. } => cx.class("result code: error with message"),
        Body::Q931 { advisory: None, .. } => cx.class("q931: no advisory"),
        Body::Q931 { advisory: Some(_), .. } => cx.class("q931: advisory"),
        _ => {}
    }
}

pub fn check_message(m: &SMsg, family: &'static str, cx: &mut Cx) -> Res {
    cx.eval();
    let render = || json!({"message": format!("{:?}", m)});
    cx.stage(STAGE_ARMED);
    let cm = to_crate_msg(m);
    let e = match guard(|| {
        let mut w = VecWriter::new();
        cm.write(&mut w);
        w.data
    }) {
        Caught::Ok(e) => e,
        Caught::Panic(p) => return fail(format!("encoding a message in the encodable domain panicked: {}", p.short()), render()),
        Caught::Monitor(_) => return fail("unexpected panic payload", render()),
    };
    let mut exp = m.clone();
    if let SMsg::Control { length, .. } = &mut exp {
        *length = e.len() as u16;
    }
    let r = guard(|| {
        let mut r = SliceReader::from(&e[..]);
        let d: Result<Message<&[u8]>, _> = Message::try_read_validate(&mut r, copts(STRICT));
        let left = r.len();
        let eq_native = match &d {
            Ok(d) => *d == to_crate_msg(&exp),
            Err(_) => false,
        };
        (d.map(|d| from_crate_msg(&d)), left, eq_native)
    });
    cx.stage(STAGE_SETUP);
    let renc = || json!({"message": format!("{:?}", m), "encoding": hex(&e)});
    match r {
        Caught::Ok((Ok(d), left, eq_native)) => {
            if d != exp {
                let mut v = renc();
                v["decoded"] = json!(format!("{:?}", d));
                return fail("decode_strict(encode(m)) differs from m[length := octets emitted]", v);
            }
            if !eq_native {
                return fail("the decoded message is not equal to the original under the crate's own PartialEq", renc());
            }
            if left != 0 {
                return fail(format!("{} octets left in the reader after decoding the message's own encoding", left), renc());
            }
        }
        Caught::Ok((Err(errs), _, _)) => {
            let mut v = renc();
            v["errors"] = json!(format!("{:?}", errs));
            return fail("strict decoding of the message's own encoding was rejected", v);
        }
        Caught::Panic(p) => return fail(format!("decoding the message's own encoding panicked: {}", p.short()), renc()),
        Caught::Monitor(_) => return fail("unexpected panic payload", renc()),
    }
    if let SMsg::Control { avps, .. } = m {
        if !avps.is_empty() {
            cx.nontrivial(&e);
        }
        cx.class(match avps.len() {
            0 => "message with 0 AVPs (ZLB)",
            1 => "message with 1 AVP",
            2..=6 => "message with 2..6 AVPs",
            _ => "message with > 6 AVPs",
        });
        cx.class(match e.len() {
            0..=255 => "message <= 255 octets",
            256..=32767 => "message 256..32767 octets",
            65535 => "message = 65535 octets",
            _ => "message > 32767 octets",
        });
        for a in avps {
            avp_classes(a, avp_wire_len(a), cx);
        }
        cx.sample(family, || json!({"encoding": hex_short(&e), "avps": avps.len(), "family": family}));
    }
    Ok(())
}

pub fn check_avp(a: &SAvp, cx: &mut Cx) -> Res {
    cx.eval();
    let render = || json!({"avp": format!("{:?}", a)});
    cx.stage(STAGE_ARMED);
    let ca = to_crate(a);
    let e = match guard(|| {
        let mut w = VecWriter::new();
        ca.write(&mut w);
        w.data
    }) {
        Caught::Ok(e) => e,
        Caught::Panic(p) => return fail(format!("encoding an AVP in the encodable domain panicked: {}", p.short()), render()),
        Caught::Monitor(_) => return fail("unexpected panic payload", render()),
    };
    let r = guard(|| {
        let mut r = SliceReader::from(&e[..]);
        let v = AVP::try_read_greedy(&mut r);
        let native = v.len() == 1 && matches!(&v[0], Ok(x) if *x == ca);
        (v.into_iter().map(|x| x.map(|y| from_crate(&y))).collect::<Vec<_>>(), r.len(), native)
    });
    cx.stage(STAGE_SETUP);
    let renc = || json!({"avp": format!("{:?}", a), "encoding": hex(&e)});
    match r {
        Caught::Ok((v, left, native)) => {
            if v.len() != 1 || v[0].as_ref().ok() != Some(a) {
                let mut j = renc();
                j["decoded"] = json!(format!("{:?}", v));
                return fail("decode_avps(encode(a)) differs from [Ok(a)]", j);
            }
            if !native {
                return fail("the decoded AVP is not equal to the original under the crate's own PartialEq", renc());
            }
            if left != 0 {
                return fail(format!("{} octets left in the reader after decoding the AVP's own encoding", left), renc());
            }
        }
        Caught::Panic(p) => return fail(format!("decoding the AVP's own encoding panicked: {}", p.short()), renc()),
        Caught::Monitor(_) => return fail("unexpected panic payload", renc()),
    }
    cx.nontrivial(&e);
    avp_classes(a, e.len(), cx);
    cx.sample("avps", || json!({"encoding": hex_short(&e), "family": "avps"}));
    Ok(())
}

fn run_tape(part: &str, tape: &[u8], cx: &mut Cx) -> Res {
    let mut t = Tape::new(tape);
    match part {
        "messages" => check_message(&gen_control(&mut t), "messages", cx),
        "bigmessages" => check_message(&gen_control_big(&mut t), "bigmessages", cx),
        _ => check_avp(&gen_avp(&mut t), cx),
    }
}

fn run_concrete(case: &Value, _cx: &mut Cx) -> Res {
    fail("C03 has no concrete case format (replay the tape)", case.clone())
}
