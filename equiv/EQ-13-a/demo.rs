// Demo for change `a`: AVP::write stages the payload in a per-thread scratch buffer and hands
// the Writer a finished header - no positional overwrite (write_bytes_at) is issued any more.
//
// PASSES with the change, FAILS without it (the original issues
// write_bytes([0,0]), write_u16_be(0), <payload calls>, write_bytes_at(flags+length, start)).

use rl2tp::avp::types::{Hidden, HostName, MessageType};
use rl2tp::avp::AVP;
use rl2tp::common::{VecWriter, Writer};
use std::sync::mpsc;

#[derive(Clone, Debug, PartialEq, Eq)]
enum Call {
    Bytes(Vec<u8>),
    BytesAt(Vec<u8>, usize),
    U8(u8),
    U16(u16),
    U32(u32),
    U64(u64),
}

#[derive(Default)]
struct Recorder {
    data: Vec<u8>,
    calls: Vec<Call>,
}

impl Writer for Recorder {
    fn is_empty(&self) -> bool {
        self.data.is_empty()
    }
    fn len(&self) -> usize {
        self.data.len()
    }
    fn write_bytes(&mut self, bytes: &[u8]) {
        self.calls.push(Call::Bytes(bytes.to_vec()));
        self.data.extend_from_slice(bytes);
    }
    fn write_bytes_at(&mut self, bytes: &[u8], offset: usize) {
        self.calls.push(Call::BytesAt(bytes.to_vec(), offset));
        assert!(offset + bytes.len() <= self.data.len());
        self.data[offset..offset + bytes.len()].copy_from_slice(bytes);
    }
    fn write_u8(&mut self, value: u8) {
        self.calls.push(Call::U8(value));
        self.data.push(value);
    }
    fn write_u16_be(&mut self, value: u16) {
        self.calls.push(Call::U16(value));
        self.data.extend_from_slice(&value.to_be_bytes());
    }
    fn write_u32_be(&mut self, value: u32) {
        self.calls.push(Call::U32(value));
        self.data.extend_from_slice(&value.to_be_bytes());
    }
    fn write_u64_be(&mut self, value: u64) {
        self.calls.push(Call::U64(value));
        self.data.extend_from_slice(&value.to_be_bytes());
    }
}

fn host() -> AVP {
    AVP::HostName(HostName {
        value: b"lac.example".to_vec(),
    })
}

fn expected_host_octets() -> Vec<u8> {
    let mut v = vec![0x01, 6 + 11, 0, 0, 0, 7];
    v.extend_from_slice(b"lac.example");
    v
}

#[test]
fn avp_write_issues_no_positional_overwrite() {
    let mut w = Recorder::default();
    w.write_bytes(b"prefix");
    w.calls.clear();

    host().write(&mut w);

    // Octets are what they always were
    let mut all = b"prefix".to_vec();
    all.extend(expected_host_octets());
    assert_eq!(w.data, all);

    // ... but they now arrive as finished header + payload, front to back
    let mut payload = vec![0, 7];
    payload.extend_from_slice(b"lac.example");
    assert_eq!(
        w.calls,
        vec![
            Call::Bytes(vec![0x01, 17]),
            Call::U16(0),
            Call::Bytes(payload)
        ]
    );
    assert!(!w.calls.iter().any(|c| matches!(c, Call::BytesAt(..))));
}

#[test]
fn oversize_avp_is_refused_before_the_writer_sees_anything() {
    let avp = AVP::Hidden(Hidden {
        attribute_type: 7,
        value: vec![0xaa; 1018], // 6 + 1018 = 1024 > 1023
    });
    let mut w = Recorder::default();
    let r = std::panic::catch_unwind(std::panic::AssertUnwindSafe(|| avp.write(&mut w)));
    assert!(r.is_err(), "oversize AVP must be refused by a panic");
    assert!(w.calls.is_empty(), "calls before refusal: {:?}", w.calls);
    assert!(w.data.is_empty());

    // The scratch buffer of this thread is unaffected by the aborted encode
    let mut v = VecWriter::new();
    host().write(&mut v);
    assert_eq!(v.data, expected_host_octets());

    // The largest encodable one still passes
    let avp = AVP::Hidden(Hidden {
        attribute_type: 7,
        value: vec![0xaa; 1017],
    });
    let mut v = VecWriter::new();
    avp.write(&mut v);
    assert_eq!(v.data.len(), 1023);
    assert_eq!(&v.data[..6], &[0xc0 | 0x03, 0xff, 0, 0, 0, 7]);
}

// Same call sequence and same octets in every calling context: inside a destructor that runs
// during unwinding, and inside a thread-local destructor at thread exit (where the crate's own
// thread-local scratch may already be gone).
struct EncodeOnDrop(mpsc::Sender<(Vec<u8>, Vec<Call>)>);

impl Drop for EncodeOnDrop {
    fn drop(&mut self) {
        let mut w = Recorder::default();
        host().write(&mut w);
        AVP::MessageType(MessageType::Hello).write(&mut w);
        let _ = self.0.send((w.data, w.calls));
    }
}

thread_local! {
    static AT_EXIT: std::cell::RefCell<Option<EncodeOnDrop>> = const { std::cell::RefCell::new(None) };
}

#[test]
fn identical_in_destructors_unwinding_and_thread_exit() {
    let mut reference = Recorder::default();
    host().write(&mut reference);
    AVP::MessageType(MessageType::Hello).write(&mut reference);
    assert!(!reference
        .calls
        .iter()
        .any(|c| matches!(c, Call::BytesAt(..))));

    let (tx, rx) = mpsc::channel();

    // during unwinding
    let tx1 = tx.clone();
    let _ = std::panic::catch_unwind(move || {
        let _guard = EncodeOnDrop(tx1);
        panic!("unwinding on purpose");
    });

    // at thread exit, with the crate's own thread-local scratch (0) never used before on that
    // thread, (1) registered before our slot, so still alive while our destructor runs, and
    // (2) registered after our slot, so already destroyed when our destructor runs
    for order in 0..3 {
        let tx2 = tx.clone();
        std::thread::spawn(move || {
            let mut v = VecWriter::new();
            if order == 1 {
                host().write(&mut v);
            }
            AT_EXIT.with(|s| *s.borrow_mut() = Some(EncodeOnDrop(tx2)));
            if order == 2 {
                host().write(&mut v);
            }
        })
        .join()
        .unwrap();
    }
    drop(tx);

    let got: Vec<_> = rx.iter().collect();
    assert_eq!(got.len(), 4);
    for (data, calls) in got {
        assert_eq!(data, reference.data);
        assert_eq!(calls, reference.calls);
    }
}
