// C12 — hidden values equal the RFC 2661 s4.3 MD5 construction computed independently.
use crate::cx::*;
use crate::gen::*;
use crate::glue::*;
use crate::prop::*;
use crate::props::c11::block_class;
use crate::spec::*;
use rl2tp::avp::AVP;
use rl2tp::common::VecWriter;
use serde_json::{json, Value};

pub static DEF: PropDef = PropDef {
    id: "C12",
    title: "Hidden values equal the independent RFC 2661 s4.3 construction",
    rule: "(forward) G-hide tapes: hide(a,s,rv,lp,ap).value must equal the reference computation (plaintext = 2-octet original-length subfield, original value, length padding, then just enough alignment \
padding to reach a multiple of 16; block 1 XOR MD5(type, secret, rv), block i XOR MD5(secret, ciphertext block i-1)) using the harness's own MD5; |value| = 16*ceil((2+|payload|+|lp|)/16); the attribute type is \
unchanged, the wire form carries the H bit and the clear type; the value does not change when only the unused tail of the alignment padding changes, nor across repeated calls. \
(backward) G-hidden tapes (random values and crafted plaintexts encrypted with the reference key schedule): reveal(h,s,rv) must equal the reference reveal (equal Ok value, or both Err). \
(related secrets) the same AVP, random vector and paddings hidden and revealed under two related secrets (prefix, extension, two octets swapped incl. 8 apart, a neighbouring pair changed by (+1,-31), same length different content, empty) back to back on one thread, every result against the reference; in 4 % of these cases four threads hide and reveal different AVPs under different secrets concurrently instead, and in another 4 % hide and reveal are called from a destructor while the thread unwinds and from thread-local destructors at thread exit. (huge-padding) length paddings of 16 .. 48 MiB (plaintext lengths just above 2^24, 2^25, 3*2^24 and in between): value length, every block against the reference chain, reveal gives the AVP back. Non-trivial = at least 2 cipher blocks (chaining exercised); distinct by hash of the inputs.",
    assumptions: &[
        "the harness's own MD5 (RFC 1321, self-tested against the RFC vectors and against the md5 crate at padding-boundary lengths) and reference cipher are the trusted base",
        "the original-length subfield holds the total original AVP length (6 + payload), the crate's convention (DESIGN.md section 0)",
    ],
    parts,
    run_tape,
    run_enum: no_enum,
    run_concrete,
    both_profiles: true,
    exhaustive_note: "",
};

fn parts(t: Tier) -> Vec<Part> {
    let (a, b) = match t {
        Tier::Quick => (600_000, 750_000),
        Tier::Thorough => (8_000_000, 10_000_000),
    };
    // "huge-padding": length paddings of 16 .. 48 MiB (the quantifier puts no bound on the caller's length padding; sizes above
    // 2^24 are where a size computed in single-precision floating point stops being exact). One case per shard at quick tier.
    let c = match t {
        Tier::Quick => 16,
        Tier::Thorough => 96,
    };
    vec![tape("forward", a, 1500), tape("backward", b, 500), tape("related-secrets", a / 3, 1500), tape("huge-padding", c, 64)]
}

/// hide() with a length padding of 16 .. 48 MiB: value length, every block against the reference chain, reveal() gives the AVP back
fn check_huge_padding(t: &mut Tape, cx: &mut Cx) -> Res {
    cx.eval();
    let attr = [7u16, 9, 11, 36][t.below(4)];
    let body = gen_body_max(t, attr, 40);
    let avp = SAvp { attr, hidden: false, body };
    let mut payload = Vec::new();
    encode_payload(&avp.body, &mut payload);
    // total plaintext length L = 2 + |payload| + |lp|
    let base: usize = match t.below(5) {
        0 => 1 << 24,
        1 => 1 << 25,
        2 => 3 << 24,
        3 => (1 << 24) + 16 * t.below(1 << 16),
        _ => (1 << 24) + 16 * t.below(1 << 21),
    };
    let delta = match t.below(4) {
        0 => 1,
        1 => 2,
        2 => 15,
        _ => t.below(33),
    };
    let total = base + delta;
    let lp_len = total - 2 - payload.len();
    let mut x = t.u64() | 1;
    let lp: Vec<u8> = if t.chance(30) {
        vec![t.byte(); lp_len]
    } else {
        (0..lp_len)
            .map(|_| {
                x ^= x << 13;
                x ^= x >> 7;
                x ^= x << 17;
                (x >> 24) as u8
            })
            .collect()
    };
    let sl = t.below(9);
    let secret = t.blob(sl);
    let rv = t.u32().to_be_bytes();
    let mut ap = [0u8; 16];
    for b in ap.iter_mut() {
        *b = t.byte();
    }
    let render = || json!({"avp": format!("{:?}", avp), "secret": hex(&secret), "random_vector": hex(&rv), "length_padding_octets": lp_len, "alignment_padding": hex(&ap), "plaintext_octets": total});
    let ca = to_crate(&avp);
    cx.stage(STAGE_UNATTRIBUTED); // running out of memory here is not the codec's fault
    let r = guard(|| {
        let h = ca.clone().hide(&secret, &rv.into(), &lp, &ap);
        let back = h.clone().reveal(&secret, &rv.into()).map(|b| b == ca);
        (h, back)
    });
    cx.stage(STAGE_SETUP);
    let (h, back) = match r {
        Caught::Ok(x) => x,
        Caught::Panic(p) => return fail(format!("hide() / reveal() with a length padding of {} octets panicked: {}", lp_len, p.short()), render()),
        Caught::Monitor(_) => return fail("unexpected panic payload", render()),
    };
    let value = match &h {
        AVP::Hidden(x) if x.attribute_type == attr => &x.value,
        _ => return fail("hide() did not return a hidden AVP of the same attribute type", render()),
    };
    let want_len = (total + 15) / 16 * 16;
    if value.len() != want_len {
        return fail(format!("hidden value has {} octets, 16*ceil((2+|payload|+|lp|)/16) = {}", value.len(), want_len), render());
    }
    let exp = hide(attr, &payload, &secret, &rv, &lp, &ap);
    if *value != exp {
        let d = value.iter().zip(exp.iter()).position(|(x, y)| x != y).unwrap_or(0);
        return fail(format!("hidden value differs from the RFC 2661 s4.3 reference at octet {} (block {} of {})", d, d / 16 + 1, want_len / 16), render());
    }
    match back {
        Ok(true) => {}
        Ok(false) => return fail("reveal() of the huge hidden value returned a different AVP", render()),
        Err(e) => return fail(format!("reveal() of the huge hidden value failed: {:?}", e), render()),
    }
    cx.class("length padding of 16 MiB and more");
    cx.class(match total % 16 {
        0 => "huge: plaintext a multiple of 16",
        1 | 2 => "huge: plaintext 1 or 2 over a multiple of 16",
        _ => "huge: other residues",
    });
    cx.nontrivial(&(attr, &payload, &secret, rv, total, 23u8));
    cx.sample("huge-padding", || json!({"attribute_type": attr, "plaintext_octets": total, "blocks": want_len / 16, "secret": hex(&secret), "family": "huge-padding"}));
    Ok(())
}

fn check_forward(h: &HideCase, t: &mut Tape, cx: &mut Cx) -> Res {
    cx.eval();
    let render = || json!({"avp": format!("{:?}", h.avp), "secret": hex(&h.secret), "random_vector": hex(&h.rv), "length_padding": hex_short(&h.lp), "alignment_padding": hex(&h.ap)});
    let exp = hide(h.avp.attr, &h.payload, &h.secret, &h.rv, &h.lp, &h.ap);
    let want_len = (2 + h.payload.len() + h.lp.len() + 15) / 16 * 16;
    if exp.len() != want_len {
        return fail("harness: reference hide length", json!({"harness_bug": true}));
    }
    let ca = to_crate(&h.avp);
    // a second alignment padding that differs only in the unused tail
    let used = want_len - (2 + h.payload.len() + h.lp.len());
    let mut ap2 = h.ap;
    for x in ap2[used..].iter_mut() {
        *x ^= 0xff ^ t.byte();
    }
    cx.stage(STAGE_ARMED);
    let r = guard(|| {
        let a = ca.clone().hide(&h.secret, &h.rv.into(), &h.lp, &h.ap);
        let b = ca.clone().hide(&h.secret, &h.rv.into(), &h.lp, &ap2);
        let c = ca.clone().hide(&h.secret, &h.rv.into(), &h.lp, &h.ap);
        let mut w = VecWriter::new();
        a.write(&mut w);
        (a, b, c, w.data)
    });
    cx.stage(STAGE_SETUP);
    let (a, b, c, wire) = match r {
        Caught::Ok(x) => x,
        Caught::Panic(p) => return fail(format!("hide() or writing its result panicked inside the stated size limits: {}", p.short()), render()),
        Caught::Monitor(_) => return fail("unexpected panic payload", render()),
    };
    let (attr, value) = match &a {
        AVP::Hidden(x) => (x.attribute_type, x.value.clone()),
        _ => return fail("hide() of a non-hidden AVP did not return a hidden AVP", render()),
    };
    if attr != h.avp.attr {
        return fail(format!("attribute type changed by hiding: {} -> {}", h.avp.attr, attr), render());
    }
    if value.len() != want_len {
        return fail(format!("hidden value has {} octets, 16*ceil((2+|payload|+|lp|)/16) = {}", value.len(), want_len), render());
    }
    if value != exp {
        let d = value.iter().zip(exp.iter()).position(|(x, y)| x != y).unwrap_or(0);
        let mut v = render();
        v["crate_value"] = json!(hex_short(&value));
        v["reference_value"] = json!(hex_short(&exp));
        return fail(format!("hidden value differs from the RFC 2661 s4.3 reference at octet {} (block {})", d, d / 16 + 1), v);
    }
    if b != a {
        return fail("the hidden value depends on the unused tail of the alignment padding", render());
    }
    if c != a {
        return fail("two identical hide() calls returned different values", render());
    }
    // wire form: H bit, clear attribute type, value octets
    let mut sw = Vec::new();
    encode_avp(&SAvp { attr: h.avp.attr, hidden: true, body: Body::Opaque(exp.clone()) }, &mut sw);
    if wire != sw {
        return fail("wire form of the hidden AVP differs from the specified one (H bit, clear attribute type, value)", render());
    }
    let blocks = value.len() / 16;
    if blocks >= 2 {
        cx.nontrivial(&(h.avp.attr, &h.payload, &h.secret, h.rv, &h.lp, h.ap));
    }
    cx.class(block_class(blocks));
    if h.secret.is_empty() {
        cx.class("empty secret");
    }
    if used == 0 {
        cx.class("no alignment padding used");
    }
    cx.class_dyn(format!("kind {:02}", h.avp.attr));
    cx.sample(block_class(blocks), || json!({"attribute_type": h.avp.attr, "payload_octets": h.payload.len(), "secret": hex(&h.secret), "blocks": blocks, "hidden_value": hex_short(&value), "family": "forward"}));
    Ok(())
}

pub fn check_backward(h: &HiddenCase, cx: &mut Cx) -> Res {
    cx.eval();
    let render = || json!({"attribute_type": h.attr, "hidden_value": hex(&h.value), "secret": hex(&h.secret), "random_vector": hex(&h.rv), "crafted_original_length": h.crafted});
    let s = reveal(h.attr, &h.value, &h.secret, &h.rv);
    let a = AVP::Hidden(rl2tp::avp::types::Hidden { attribute_type: h.attr, value: h.value.clone() });
    cx.stage(if s.is_ok() { STAGE_ARMED } else { STAGE_UNATTRIBUTED });
    let r = guard(|| a.reveal(&h.secret, &h.rv.into()).map(|x| from_crate(&x)));
    cx.stage(STAGE_SETUP);
    match (r, &s) {
        (Caught::Ok(Ok(c)), Ok(sa)) => {
            if c != *sa {
                let mut v = render();
                v["crate"] = json!(format!("{:?}", c));
                v["reference"] = json!(format!("{:?}", sa));
                return fail("reveal() returned a different AVP than the reference", v);
            }
            cx.class("reveal: both Ok, equal");
        }
        (Caught::Ok(Err(ce)), Err(se)) => {
            // where a property states the error of a per-type fault (C20: truncated value, invalid UTF-8, unknown message type,
            // bad error type, unknown attribute type) the revealed AVP's error is that one too
            if let Some(want) = expected_error(se) {
                // ... provided the decrypted value has that fault *only*: a Result Code with a bad error type may also carry a
                // non-UTF-8 message, and which of two faults is reported is left open (found with property-preserving change EQ-2-a)
                let single = match se {
                    SErr::BadErrorType(_) => {
                        let pt = decrypt(h.attr, &h.value, &h.secret, &h.rv);
                        let total = ((pt[0] as usize) << 8) | pt[1] as usize;
                        let payload = &pt[2..2 + (total - 6)];
                        payload.len() <= 4 || std::str::from_utf8(&payload[4..]).is_ok()
                    }
                    SErr::Incomplete(_) | SErr::BadUtf8(_) | SErr::UnknownMsgType(_) | SErr::UnknownAvp(_) => true,
                    _ => false,
                };
                if single && ce != want {
                    let mut v = render();
                    v["crate_error"] = json!(format!("{:?}", ce));
                    v["expected_error"] = json!(format!("{:?}", want));
                    return fail(format!("reveal() reports {:?} for a decrypted value whose only fault is {:?}", ce, want), v);
                }
            }
            cx.class("reveal: both Err")
        }
        (Caught::Ok(Ok(c)), Err(e)) => {
            let mut v = render();
            v["crate"] = json!(format!("{:?}", c));
            return fail(format!("reveal() accepted a value the reference rejects ({:?})", e), v);
        }
        (Caught::Ok(Err(e)), Ok(sa)) => {
            let mut v = render();
            v["reference"] = json!(format!("{:?}", sa));
            return fail(format!("reveal() rejected ({:?}) a value the reference accepts", e), v);
        }
        (Caught::Panic(p), Ok(_)) => return fail(format!("reveal() panicked where the reference yields a value: {}", p.short()), render()),
        (Caught::Panic(_), Err(_)) => cx.class("reveal: panic where the reference rejects (C13 territory)"),
        (Caught::Monitor(_), _) => return fail("unexpected panic payload", render()),
    }
    let blocks = h.value.len() / 16;
    if h.value.len() % 16 == 0 && blocks >= 2 {
        cx.nontrivial(&(h.attr, &h.value, &h.secret, h.rv));
    }
    cx.class(if h.crafted.is_some() { "backward: crafted plaintext" } else { "backward: random value" });
    cx.sample(if h.crafted.is_some() { "backward-crafted" } else { "backward-random" }, || json!({"attribute_type": h.attr, "hidden_value": hex_short(&h.value), "secret": hex(&h.secret), "reference": if s.is_ok() { "Ok" } else { "Err" }, "family": "backward"}));
    Ok(())
}

/// the same AVP, random vector and paddings under two related secrets, one call after the other on the same thread:
/// hide under s1, hide under s2, then reveals of both ciphertexts under both secrets - every result against the reference
fn check_related(t: &mut Tape, cx: &mut Cx) -> Res {
    let h1 = gen_hide(t);
    let s2 = related_secret_for(t, &h1.secret, Some(h1.avp.attr.to_be_bytes()));
    if s2 == h1.secret {
        cx.class("related secret equal to the first (no-op case)");
    }
    let h2 = HideCase { avp: h1.avp.clone(), payload: h1.payload.clone(), secret: s2.clone(), rv: h1.rv, lp: h1.lp.clone(), ap: h1.ap };
    check_forward(&h1, t, cx)?;
    check_forward(&h2, t, cx)?;
    let v1 = hide(h1.avp.attr, &h1.payload, &h1.secret, &h1.rv, &h1.lp, &h1.ap);
    let v2 = hide(h1.avp.attr, &h1.payload, &s2, &h1.rv, &h1.lp, &h1.ap);
    let attr = h1.avp.attr;
    for (v, s) in [(&v1, &h1.secret), (&v1, &s2), (&v2, &s2), (&v2, &h1.secret), (&v1, &h1.secret)] {
        check_backward(&HiddenCase { attr, value: v.clone(), secret: s.clone(), rv: h1.rv, crafted: Some(6 + h1.payload.len()) }, cx)?;
    }
    cx.class("related-secret sequence");
    Ok(())
}

/// "the output depends on nothing but these inputs": four threads hide and reveal different AVPs under different secrets
/// at the same time, each result against the reference
fn check_concurrent(t: &mut Tape, cx: &mut Cx) -> Res {
    cx.eval();
    let cases: Vec<HideCase> = (0..4).map(|_| gen_hide(t)).collect();
    let jobs: Vec<(rl2tp::avp::AVP, Vec<u8>, [u8; 4], Vec<u8>, [u8; 16], Vec<u8>, u16)> = cases
        .iter()
        .map(|h| (to_crate(&h.avp), h.secret.clone(), h.rv, h.lp.clone(), h.ap, hide(h.avp.attr, &h.payload, &h.secret, &h.rv, &h.lp, &h.ap), h.avp.attr))
        .collect();
    cx.stage(STAGE_UNATTRIBUTED);
    let handles: Vec<_> = jobs
        .into_iter()
        .map(|(a, s, rv, lp, ap, want, attr)| {
            std::thread::spawn(move || {
                for round in 0..12 {
                    let h = a.clone().hide(&s, &rv.into(), &lp, &ap);
                    match &h {
                        AVP::Hidden(x) if x.value == want && x.attribute_type == attr => {}
                        _ => return Some(format!("hide() on a busy process returned a value different from the reference (round {})", round)),
                    }
                    match h.reveal(&s, &rv.into()) {
                        Ok(b) if b == a => {}
                        other => return Some(format!("reveal() on a busy process returned {:?} (round {})", other.map(|x| from_crate(&x)), round)),
                    }
                }
                None
            })
        })
        .collect();
    let mut bad = None;
    for h in handles {
        match h.join() {
            Ok(None) => {}
            Ok(Some(why)) => bad = Some(why),
            Err(_) => bad = Some("a thread running hide / reveal panicked".to_string()),
        }
    }
    cx.stage(STAGE_SETUP);
    if let Some(why) = bad {
        return fail(why, json!({"avps": cases.iter().map(|h| format!("{:?}", crate::props::c07_abbrev(&h.avp))).collect::<Vec<_>>(), "secrets": cases.iter().map(|h| hex_short(&h.secret)).collect::<Vec<_>>()}));
    }
    cx.class("four threads hiding and revealing under different secrets at once");
    cx.nontrivial(&(cases.iter().map(|h| h.payload.clone()).collect::<Vec<_>>(), 21u8));
    Ok(())
}

/// "the output depends on nothing but these inputs": not on the state of the calling thread either. hide and reveal are called
/// from a destructor while the thread unwinds and from thread-local destructors at thread exit; every result against the reference
fn check_contexts(t: &mut Tape, cx: &mut Cx) -> Res {
    cx.eval();
    let h = gen_hide(t);
    let want_value = hide(h.avp.attr, &h.payload, &h.secret, &h.rv, &h.lp, &h.ap);
    let (a, s, rv, lp, ap, attr) = (to_crate(&h.avp), h.secret.clone(), h.rv, h.lp.clone(), h.ap, h.avp.attr);
    let wv = want_value.clone();
    let f: std::sync::Arc<dyn Fn() -> String + Send + Sync> = std::sync::Arc::new(move || {
        match guard(|| {
            let hid = a.clone().hide(&s, &rv.into(), &lp, &ap);
            match &hid {
                AVP::Hidden(x) if x.value == wv && x.attribute_type == attr => {}
                AVP::Hidden(x) => return format!("hide() returned the value {} (type {})", hex_short(&x.value), x.attribute_type),
                _ => return "hide() did not return a hidden AVP".to_string(),
            }
            match hid.reveal(&s, &rv.into()) {
                Ok(b) if b == a => "ok".to_string(),
                other => format!("reveal() returned {:?}", other.map(|x| from_crate(&x))),
            }
        }) {
            Caught::Ok(s) => s,
            Caught::Panic(p) => p.short(),
            Caught::Monitor(_) => "panic".to_string(),
        }
    });
    cx.stage(STAGE_UNATTRIBUTED);
    let r = crate::props::history::same_in_contexts("ok", f);
    cx.stage(STAGE_SETUP);
    match r {
        Ok(true) => {
            cx.class("hide and reveal also called while unwinding and from thread-local destructors at thread exit");
            cx.nontrivial(&(&h.payload, &h.secret, 22u8));
            Ok(())
        }
        Ok(false) => Ok(()),
        Err((how, got)) => fail(
            format!("called {}: {} (reference value {})", how, got, hex_short(&want_value)),
            json!({"avp": format!("{:?}", crate::props::c07_abbrev(&h.avp)), "secret": hex(&h.secret), "random_vector": hex(&h.rv), "length_padding": hex_short(&h.lp)}),
        ),
    }
}

fn run_tape(part: &str, tape: &[u8], cx: &mut Cx) -> Res {
    let mut t = Tape::new(tape);
    match part {
        "related-secrets" if t.chance(4) => check_concurrent(&mut t, cx),
        "related-secrets" if t.chance(4) => check_contexts(&mut t, cx),
        "related-secrets" => check_related(&mut t, cx),
        "huge-padding" => check_huge_padding(&mut t, cx),
        "forward" => {
            crate::props::history::prior_ops(&mut t, cx, true);
            let h = gen_hide(&mut t);
            check_forward(&h, &mut t, cx)
        }
        _ => check_backward(&gen_hidden(&mut t), cx),
    }
}

fn run_concrete(case: &Value, cx: &mut Cx) -> Res {
    if let Some(v) = case.get("hidden_value").and_then(|x| x.as_str()).and_then(unhex) {
        let attr = case.get("attribute_type").and_then(|x| x.as_u64()).unwrap_or(0) as u16;
        let secret = case.get("secret").and_then(|x| x.as_str()).and_then(unhex).unwrap_or_default();
        let rv = case.get("random_vector").and_then(|x| x.as_str()).and_then(unhex).unwrap_or(vec![0; 4]);
        let mut r = [0u8; 4];
        r.copy_from_slice(&rv[..4.min(rv.len())]);
        return check_backward(&HiddenCase { attr, value: v, secret, rv: r, crafted: None }, cx);
    }
    fail("bad concrete case", case.clone())
}
