use crate::prop::PropDef;

pub mod c01;

pub fn all() -> Vec<&'static PropDef> {
    vec![&c01::DEF]
}
