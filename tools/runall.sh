#!/bin/bash
# run every property's check at the given tier (default quick); print one line per property
cd "$(dirname "$0")/.." || exit 2
tier="${1:-quick}"
rc=0
for i in 01 02 03 04 05 06 07 08 09 10 11 12 13 14 15 16 17 18 19 20; do
  s=$(date +%s.%N)
  out=$(./check C$i "$tier" 2>&1); r=$?
  e=$(date +%s.%N)
  printf "C%s exit=%d %.1fs %s\n" "$i" "$r" "$(echo "$e - $s" | bc)" "$(echo "$out" | grep -E 'VIOLATION|INCONCLUSIVE|KNOWN' | head -2 | tr '\n' ' ')"
  [ $r -ne 0 ] && rc=1
done
exit $rc
