// Tape-driven generators: every case is a pure function of a byte tape. An exhausted tape
// yields zeros and choice 0 is always the simplest alternative, so shrinking the tape
// (dropping chunks, lowering octets) shrinks the case.
use crate::spec::*;

pub struct Tape<'a> {
    d: &'a [u8],
    p: usize,
}
impl<'a> Tape<'a> {
    pub fn new(d: &'a [u8]) -> Self {
        Tape { d, p: 0 }
    }
    pub fn exhausted(&self) -> bool {
        self.p >= self.d.len()
    }
    pub fn byte(&mut self) -> u8 {
        let b = self.d.get(self.p).copied().unwrap_or(0);
        self.p += 1;
        b
    }
    pub fn u16(&mut self) -> u16 {
        ((self.byte() as u16) << 8) | self.byte() as u16
    }
    pub fn u32(&mut self) -> u32 {
        ((self.u16() as u32) << 16) | self.u16() as u32
    }
    pub fn u64(&mut self) -> u64 {
        ((self.u32() as u64) << 32) | self.u32() as u64
    }
    /// uniform-ish in 0..n, monotone in the tape octets (never `%`)
    pub fn below(&mut self, n: usize) -> usize {
        if n <= 1 {
            return 0;
        }
        if n <= 256 {
            (self.byte() as usize * n) >> 8
        } else if n <= 65536 {
            (self.u16() as usize * n) >> 16
        } else {
            ((self.u32() as u64 * n as u64) >> 32) as usize
        }
    }
    /// true with probability pct/100; false is the simple alternative
    pub fn chance(&mut self, pct: usize) -> bool {
        self.below(100) >= 100 - pct
    }
    pub fn b_u16(&mut self) -> u16 {
        match self.below(8) {
            0 => 0,
            1 => self.byte() as u16,
            2 => 0xffff,
            3 => {
                let k = self.below(16);
                (1u32 << (k + 1)).wrapping_sub(1) as u16
            }
            4 => 1u16 << self.below(16),
            _ => self.u16(),
        }
    }
    pub fn b_u32(&mut self) -> u32 {
        match self.below(6) {
            0 => 0,
            1 => self.byte() as u32,
            2 => 0xffff_ffff,
            3 => 1u32 << self.below(32),
            _ => self.u32(),
        }
    }
    pub fn b_u64(&mut self) -> u64 {
        match self.below(6) {
            0 => 0,
            1 => self.byte() as u64,
            2 => u64::MAX,
            3 => 1u64 << self.below(64),
            _ => self.u64(),
        }
    }
    pub fn blob(&mut self, len: usize) -> Vec<u8> {
        match self.below(4) {
            0 => vec![0u8; len],
            1 => (0..len).map(|i| i as u8).collect(),
            2 => {
                let pat = [self.byte(), self.byte(), self.byte(), self.byte()];
                (0..len).map(|i| pat[i % 4].wrapping_add((i / 4) as u8)).collect()
            }
            _ => (0..len).map(|_| self.byte()).collect(),
        }
    }
    /// a blob that costs at most 5 tape octets whatever its length
    pub fn blob_cheap(&mut self, len: usize) -> Vec<u8> {
        match self.below(3) {
            0 => vec![0u8; len],
            1 => (0..len).map(|i| i as u8).collect(),
            _ => {
                let pat = [self.byte(), self.byte(), self.byte(), self.byte()];
                (0..len).map(|i| pat[i % 4].wrapping_add((i / 4) as u8)).collect()
            }
        }
    }
    pub fn raw(&mut self, len: usize) -> Vec<u8> {
        (0..len).map(|_| self.byte()).collect()
    }
    /// exactly `len` octets of valid UTF-8 drawn from 1-, 2-, 3- and 4-octet scalars
    pub fn utf8(&mut self, len: usize) -> String {
        let mut s = String::with_capacity(len);
        let ascii_only = self.below(3) == 0;
        // characters that text-handling code likes to treat specially: byte order mark, NUL, no-break space, zero-width
        // space, replacement character, line separators, the first / last scalars of each encoded length
        const SPECIAL: [char; 22] = [
            '\u{feff}', '\0', '\u{a0}', '\u{200b}', '\u{fffd}', '\u{2028}', '\u{85}', '\u{7f}', '\u{80}', '\u{7ff}', '\u{800}', '\u{ffff}', '\u{10000}', '\u{10ffff}', '\u{d7ff}',
            '\u{e000}', '\r', '\n', '\t', ' ', '"', '\\',
        ];
        let special_mode = self.below(8); // 0: special first character, 1: specials sprinkled, 6: literal tape octets, 7: special ending (CR LF, NUL, blank ...), else none
        if special_mode == 7 && len >= 2 {
            let tail: &str = ["\r\n", "\n", "\r", "\0", " ", "\t", "\n\r", "\u{feff}"][self.below(8)];
            if tail.len() <= len {
                let mut head = String::new();
                let n = len - tail.len();
                for _ in 0..n {
                    head.push((0x20 + self.below(0x5f) as u8) as char);
                }
                head.push_str(tail);
                return head;
            }
        }
        if special_mode == 6 {
            // the tape octets themselves when they are valid UTF-8 (else their low 7 bits): lets a coverage-guided
            // fuzzer, which learns compared literals, place exact strings
            let raw: Vec<u8> = (0..len).map(|_| self.byte()).collect();
            return match String::from_utf8(raw) {
                Ok(s) => s,
                Err(e) => e.into_bytes().into_iter().map(|b| (b & 0x7f) as char).collect(),
            };
        }
        while s.len() < len {
            let room = len - s.len();
            if (special_mode == 0 && s.is_empty()) || (special_mode == 1 && self.below(4) == 0) {
                let c = SPECIAL[self.below(16)];
                if c.len_utf8() <= room {
                    s.push(c);
                    continue;
                }
            }
            let k = if ascii_only { 1 } else { self.below(room.min(4)) + 1 };
            let c = match k {
                1 => self.below(0x80) as u32, // includes NUL and control characters
                2 => 0x80 + self.below(0x780) as u32,
                3 => {
                    let c = 0x800 + self.below(0xf800) as u32;
                    if (0xd800..0xe000).contains(&c) {
                        0x20ac
                    } else {
                        c
                    }
                }
                _ => 0x10000 + self.below(0x10_0000) as u32,
            };
            s.push(char::from_u32(c).unwrap_or('?'));
        }
        if s.len() != len {
            s.clear();
            for _ in 0..len {
                s.push('a');
            }
        }
        s
    }
    /// a length in 1..=max with extra mass on the small values and on the interesting boundaries
    pub fn var_len(&mut self, max: usize) -> usize {
        let v = match self.below(12) {
            0 => 1,
            1 => 249, // total AVP length 255
            2 => 250, // total AVP length 256
            3 => max,
            4 => max.saturating_sub(1),
            5 => 1 + self.below(max),
            6 => 505,
            7 => 506,
            _ => 1 + self.below(24),
        };
        v.clamp(1, max)
    }
}

pub const ASSIGNED: [u16; 39] = [
    0, 1, 2, 3, 4, 5, 6, 7, 8, 9, 10, 11, 12, 13, 14, 15, 16, 17, 18, 19, 21, 22, 23, 24, 25, 26, 27, 28, 29, 30, 31, 32, 33, 34, 35, 36, 37, 38, 39,
];

/// largest payload an AVP can carry (1023 - 6)
pub const MAX_PAYLOAD: usize = 1017;

/// a valid value of the given kind, in the encodable domain, payload at most `max` octets
pub fn gen_body_max(t: &mut Tape, attr: u16, max: usize) -> Body {
    match fmt_of(attr).unwrap() {
        Fmt::MsgType => Body::U16(MSG_TYPES[t.below(14)]),
        Fmt::ResultCode => {
            let code = t.b_u16();
            let error = match t.below(3) {
                0 => None,
                1 => Some((t.below(9) as u16, None)),
                _ => {
                    if max <= 4 {
                        Some((t.below(9) as u16, None))
                    } else {
                        let n = t.var_len(max - 4);
                        Some((t.below(9) as u16, Some(t.utf8(n))))
                    }
                }
            };
            Body::ResultCode { code, error }
        }
        Fmt::ProtoVer => Body::ProtoVer(t.byte(), t.byte()),
        Fmt::U16 => Body::U16(t.b_u16()),
        Fmt::U32 => Body::U32(t.b_u32()),
        Fmt::U64 => Body::U64(t.b_u64()),
        Fmt::Blob => {
            let n = t.var_len(max);
            if matches!(attr, 26 | 27 | 28) && n >= 4 && t.chance(30) {
                // what these AVPs really carry: an LCP packet (code, identifier, length, options as type-length-value)
                let mut v = vec![1 + t.below(4) as u8, t.byte(), 0, 0];
                v[2..4].copy_from_slice(&(if t.chance(80) { n as u16 } else { t.b_u16() }).to_be_bytes());
                while v.len() < n {
                    let room = n - v.len();
                    let l = (2 + t.below(6)).min(room);
                    v.push(1 + t.below(8) as u8);
                    if l >= 2 {
                        v.push(l as u8);
                        for _ in 2..l {
                            v.push(t.byte());
                        }
                    }
                }
                v.truncate(n);
                Body::Blob(v)
            } else {
                Body::Blob(t.blob(n))
            }
        }
        Fmt::Text => {
            let n = t.var_len(max);
            Body::Text(t.utf8(n))
        }
        Fmt::Q931 => {
            let cause = t.b_u16();
            let msg = t.byte();
            let advisory = if t.chance(50) && max > 3 {
                let n = t.var_len(max - 3);
                Some(t.utf8(n))
            } else {
                None
            };
            Body::Q931 { cause, msg, advisory }
        }
        Fmt::Fixed(n) => Body::Fixed(t.blob(n)),
        Fmt::ProxyType => Body::U16(t.below(6) as u16),
        Fmt::ProxyId => Body::ProxyId(t.byte()),
        Fmt::CallErrors => Body::CallErrors([t.b_u32(), t.b_u32(), t.b_u32(), t.b_u32(), t.b_u32(), t.b_u32()]),
        Fmt::Accm => {
            let a = t.u32().to_be_bytes();
            let b = t.u32().to_be_bytes();
            Body::Accm(a, b)
        }
        Fmt::Empty => Body::Empty,
    }
}

pub fn gen_body(t: &mut Tape, attr: u16) -> Body {
    gen_body_max(t, attr, MAX_PAYLOAD)
}

/// G-val: one AVP in the encodable domain (all 39 kinds + opaque hidden AVPs of any type)
pub fn gen_avp(t: &mut Tape) -> SAvp {
    if t.chance(8) {
        let attr = if t.chance(40) { ASSIGNED[t.below(39)] } else { t.b_u16() };
        let n = t.var_len(MAX_PAYLOAD);
        return SAvp { attr, hidden: true, body: Body::Opaque(t.blob(n)) };
    }
    let attr = ASSIGNED[t.below(39)];
    SAvp { attr, hidden: false, body: gen_body(t, attr) }
}

/// a non-hidden AVP of any of the 39 kinds
pub fn gen_plain_avp(t: &mut Tape) -> SAvp {
    let attr = ASSIGNED[t.below(39)];
    SAvp { attr, hidden: false, body: gen_body(t, attr) }
}

pub fn avp_wire_len(a: &SAvp) -> usize {
    let mut p = Vec::new();
    encode_payload(&a.body, &mut p);
    6 + p.len()
}

pub fn msg_type_avp(t: &mut Tape) -> SAvp {
    SAvp { attr: 0, hidden: false, body: gen_body(t, 0) }
}

/// the `length` member of a control-message *value* handed to the encoder: the encoder computes the Length field itself,
/// so a stale value (0, a previous size, anything) must have no influence
pub fn gen_stale_length(t: &mut Tape) -> u16 {
    match t.below(4) {
        0 => 0,
        1 => 12 + t.below(64) as u16,
        _ => t.b_u16(),
    }
}

/// G-val: a control message, 0 .. ~70 AVPs, built under the 65 535-octet budget, first AVP a Message Type
pub fn gen_control(t: &mut Tape) -> SMsg {
    let k = match t.below(40) {
        0..=4 => 0,
        35..=38 => 1 + t.below(70),
        39 => return gen_control_many(t),
        _ => 1 + t.below(6),
    };
    gen_control_k(t, k)
}

/// a control message with very many (up to ~3000) small AVPs: counts beyond 255 and beyond 1023
pub fn gen_control_many(t: &mut Tape) -> SMsg {
    let k = match t.below(6) {
        0 => 250 + t.below(12),
        1 => 1018 + t.below(12),
        2 => 8185 + t.below(12),
        3 => 10_921, // as many 6-octet AVPs as a message can hold
        _ => 71 + t.below(3000),
    };
    let mut avps = vec![msg_type_avp(t)];
    let mut budget = 65535usize - 12 - 8;
    // a short cycle of cheap kinds whose values are drawn from a few tape octets; above 8 000 AVPs only the
    // value-less kind fits (6 octets each)
    let mixed = [6u16, 9, 10, 14, 39, 2, 32, 15, 24, 38];
    let only39 = [39u16];
    let kinds: &[u16] = if k > 8000 { &only39 } else { &mixed };
    let base = t.u16();
    for i in 1..k {
        let attr = kinds[(i + base as usize) % kinds.len()];
        let body = match fmt_of(attr).unwrap() {
            Fmt::U16 => Body::U16(base.wrapping_add(i as u16)),
            Fmt::U32 => Body::U32((base as u32) << 16 | i as u32),
            Fmt::ProtoVer => Body::ProtoVer(i as u8, (i >> 8) as u8),
            Fmt::ProxyId => Body::ProxyId(i as u8),
            _ => Body::Empty,
        };
        let a = SAvp { attr, hidden: false, body };
        let l = avp_wire_len(&a);
        if l > budget {
            break;
        }
        budget -= l;
        avps.push(a);
    }
    SMsg::Control { length: gen_stale_length(t), tunnel: t.b_u16(), session: t.b_u16(), ns: t.b_u16(), nr: t.b_u16(), avps }
}

pub fn gen_control_k(t: &mut Tape, k: usize) -> SMsg {
    let mut avps = Vec::new();
    let mut budget = 65535usize - 12;
    for i in 0..k {
        let a = if i == 0 { msg_type_avp(t) } else { gen_avp(t) };
        let l = avp_wire_len(&a);
        if l > budget {
            break;
        }
        budget -= l;
        avps.push(a);
    }
    SMsg::Control { length: gen_stale_length(t), tunnel: t.b_u16(), session: t.b_u16(), ns: t.b_u16(), nr: t.b_u16(), avps }
}

/// a control message that comes close to (or exactly hits) the 65 535-octet limit
pub fn gen_control_big(t: &mut Tape) -> SMsg {
    let mut avps = vec![msg_type_avp(t)];
    let mut budget = 65535usize - 12 - 8;
    let exact = t.chance(50);
    while budget >= 7 {
        let max = (budget - 6).min(MAX_PAYLOAD);
        // keep 0 or >= 7 octets of budget so the message can be completed exactly
        let mut n = if t.chance(70) { max } else { 1 + t.below(max) };
        if budget - 6 - n != 0 && budget - 6 - n < 7 {
            n = if budget - 6 >= 7 + 1 { budget - 6 - 7 } else { budget - 6 };
            n = n.clamp(1, max);
        }
        let attr = [7u16, 11, 26, 30, 37][t.below(5)];
        avps.push(SAvp { attr, hidden: false, body: Body::Blob(t.blob_cheap(n)) });
        budget -= 6 + n;
        if !exact && budget < 3000 && t.chance(30) {
            break;
        }
    }
    SMsg::Control { length: gen_stale_length(t), tunnel: t.b_u16(), session: t.b_u16(), ns: t.b_u16(), nr: t.b_u16(), avps }
}

/// G-data: a data message in the round-trip domain (length absent or exact, offset absent or n <= |data|-1)
pub fn gen_data(t: &mut Tape) -> SMsg {
    let prio = t.chance(50);
    let has_len = t.chance(50);
    let ns_nr = if t.chance(50) { Some((t.b_u16(), t.b_u16())) } else { None };
    let has_off = t.chance(40);
    let hdr = 6 + if has_len { 2 } else { 0 } + if ns_nr.is_some() { 4 } else { 0 } + if has_off { 2 } else { 0 };
    let max_n = if has_len { 65535 - hdr } else { 70000 };
    let n = match t.below(40) {
        0 if !has_len && t.chance(10) => (1 << 20) * (1 + t.below(2)) + t.below(5000), // a payload of more than 1 MiB (no Length field can describe it)
        0 => max_n,                    // message of exactly 65 535 octets when L is set
        1 => 1 + t.below(max_n),       // anywhere
        2 | 3 => 1 + t.below(3000),
        4 => 1,
        _ => 1 + t.below(64),
    };
    let data = if n > 4096 { (0..n).map(|i| (i as u8) ^ 0x5a).collect() } else { payload_bytes(t, n) };
    let offset = if has_off {
        Some(match t.below(4) {
            0 => 0,
            1 => (n - 1).min(65535) as u16,
            _ => t.below(n.min(65536)) as u16,
        })
    } else {
        None
    };
    let mut m = SMsg::Data { prio, length: None, tunnel: t.b_u16(), session: t.b_u16(), ns_nr, offset, data };
    if has_len {
        let l = encode_message(&m).len() + 2;
        if let SMsg::Data { length, .. } = &mut m {
            *length = Some(l as u16);
        }
    }
    m
}

/// payload octets of a data message: generic blobs, or something that looks like the PPP frame it would really carry
/// (optional address/control ff 03, a protocol number, a code / identifier / length header)
pub fn payload_bytes(t: &mut Tape, n: usize) -> Vec<u8> {
    if !t.chance(25) {
        return t.blob(n);
    }
    let mut v = Vec::with_capacity(n);
    if t.chance(50) {
        v.extend_from_slice(&[0xff, 0x03]);
    }
    const PROTO: [[u8; 2]; 8] = [[0xc0, 0x21], [0xc0, 0x23], [0xc2, 0x23], [0x80, 0x21], [0x00, 0x21], [0x80, 0x57], [0x00, 0x57], [0xc0, 0x25]];
    v.extend_from_slice(&PROTO[t.below(8)]);
    v.push(1 + t.below(12) as u8); // code
    v.push(t.byte()); // identifier
    v.extend_from_slice(&(n as u16).to_be_bytes());
    while v.len() < n {
        v.push(t.byte());
    }
    v.truncate(n.max(1));
    v
}

/// what a generated AVP record is meant to be
#[derive(Clone, Debug, PartialEq, Eq)]
pub struct RecInfo {
    /// the record's own length field equals its extent
    pub well_delimited: bool,
}

/// G-rec: an AVP record on the wire, possibly malformed; `allow_bad_len` permits an unusable length field
pub fn gen_record_opt(t: &mut Tape, w: &mut Vec<u8>, allow_bad_len: bool) -> RecInfo {
    let attr = match t.below(20) {
        0 => 20,
        1 => {
            let span = if t.chance(50) { 4 } else { 64 };
            40 + t.below(span) as u16
        }
        2 => t.u16(),
        _ => ASSIGNED[t.below(39)],
    };
    let min = fmt_of(attr).map(min_len).unwrap_or(0);
    let plen = match t.below(10) {
        0 => min.saturating_sub(1),
        1 => min,
        2 => min + 1,
        3 => 0,
        4 => min + t.below(30),
        5 => t.below(300),
        _ => usize::MAX, // a valid value of the kind
    };
    let mut payload = if plen == usize::MAX {
        match fmt_of(attr) {
            Some(_) => {
                let mut p = Vec::new();
                encode_payload(&gen_body_max(t, attr, 300), &mut p);
                p
            }
            None => {
                let n = t.below(20);
                t.blob(n)
            }
        }
    } else {
        let mut p = Vec::new();
        if fmt_of(attr).is_some() {
            encode_payload(&gen_body_max(t, attr, 300), &mut p);
        }
        while p.len() < plen {
            p.push(t.byte());
        }
        p.truncate(plen);
        p
    };
    if payload.len() > MAX_PAYLOAD {
        payload.truncate(MAX_PAYLOAD);
    }
    if t.chance(10) && !payload.is_empty() {
        // corrupt an octet (invalid UTF-8 / bad enumerated code); half of the time within the last few octets, where
        // word-at-a-time validation stops looking
        let i = if t.chance(50) { payload.len() - 1 - t.below(payload.len().min(8)) } else { t.below(payload.len()) };
        payload[i] = 0xff - (t.byte() & 0x3f);
    }
    let true_len = 6 + payload.len();
    let len = if allow_bad_len {
        match t.below(64) {
            0 => t.below(6),
            1 => true_len + 1,
            2 => true_len.saturating_sub(1),
            3 => 0x3ff,
            4 => true_len + t.below(40),
            _ => true_len,
        }
        .min(0x3ff)
    } else {
        true_len
    };
    let mut o1 = (((len >> 8) as u8) << 6) | (t.byte() & 0x01);
    if t.chance(10) {
        o1 |= 0x02;
    }
    if t.chance(15) {
        o1 |= t.byte() & 0x3c;
    }
    let vendor = if t.chance(8) { 1 + t.below(65535) as u16 } else { 0 };
    w.extend_from_slice(&[o1, len as u8]);
    w.extend_from_slice(&vendor.to_be_bytes());
    w.extend_from_slice(&attr.to_be_bytes());
    w.extend_from_slice(&payload);
    RecInfo { well_delimited: len == true_len }
}

pub fn gen_record(t: &mut Tape, w: &mut Vec<u8>) -> RecInfo {
    gen_record_opt(t, w, true)
}

/// offsets of the AVP records of a control message (walking the length fields, best effort)
fn avp_offsets(b: &[u8]) -> Vec<usize> {
    let mut v = Vec::new();
    if b.len() < 12 || b[0] & 0x01 == 0 {
        return v;
    }
    let mut p = 12;
    while p + 6 <= b.len() && v.len() < 200 {
        v.push(p);
        let len = (((b[p] >> 6) as usize) << 8) | b[p + 1] as usize;
        if len < 6 {
            break;
        }
        p += len;
    }
    v
}

pub fn mutate(t: &mut Tape, b: &mut Vec<u8>) {
    if b.is_empty() {
        return;
    }
    match t.below(12) {
        0 => {
            let i = t.below(b.len());
            b[i] ^= 1 << t.below(8);
        }
        1 => {
            // flag-word bits
            if b.len() >= 2 {
                let w = ((b[0] as u16) << 8) | b[1] as u16;
                let w = match t.below(6) {
                    0 => w ^ (1 << t.below(16)),
                    1 => w ^ T,
                    2 => w | [P, O, 0x2000, 0x0800, 0x0400, 0x0008, 0x0004, 0x0002, 0x0001][t.below(9)],
                    3 => (w & 0xff0f) | ((t.below(16) as u16) << 4),
                    4 => w & !(L | S),
                    _ => w ^ [L, S, O, P][t.below(4)],
                };
                b[0] = (w >> 8) as u8;
                b[1] = w as u8;
            }
        }
        2 => {
            // message length field
            if b.len() >= 4 {
                let cur = ((b[2] as usize) << 8) | b[3] as usize;
                let v = match t.below(14) {
                    0 => 0,
                    1 => 1,
                    2 => 11,
                    3 => 12,
                    4 => 13,
                    5 => cur + 1,
                    6 => cur.saturating_sub(1),
                    7 => cur + 6,
                    8 => cur.saturating_sub(6),
                    9 => cur + 2,
                    10 => cur.saturating_sub(2),
                    11 => b.len(),
                    12 => t.below(20),
                    _ => 0xffff,
                }
                .min(0xffff);
                b[2] = (v >> 8) as u8;
                b[3] = v as u8;
            }
        }
        3 => {
            let n = t.below(b.len() + 1);
            b.truncate(n);
        }
        4 => {
            let n = t.below(64);
            let x = t.blob(n);
            b.extend_from_slice(&x);
        }
        5 => {
            // patch a u16 with a boundary value
            if b.len() >= 2 {
                let i = t.below(b.len() - 1);
                let v = t.b_u16();
                b[i] = (v >> 8) as u8;
                b[i + 1] = v as u8;
            }
        }
        6 => {
            // patch the length field of one AVP record
            let offs = avp_offsets(b);
            if !offs.is_empty() {
                let p = offs[t.below(offs.len())];
                let cur = (((b[p] >> 6) as usize) << 8) | b[p + 1] as usize;
                let v = match t.below(8) {
                    0 => t.below(8),
                    1 => cur + 1,
                    2 => cur.saturating_sub(1),
                    3 => 0x3ff,
                    4 => 6,
                    5 => 5,
                    6 => 0,
                    _ => cur + t.below(32),
                }
                .min(0x3ff);
                b[p] = (b[p] & 0x3f) | (((v >> 8) as u8) << 6);
                b[p + 1] = v as u8;
            }
        }
        7 => {
            let i = t.below(b.len());
            b[i] = t.byte();
        }
        8 => {
            // duplicate a slice
            let i = t.below(b.len());
            let n = 1 + t.below((b.len() - i).min(40));
            let s = b[i..i + n].to_vec();
            let at = t.below(b.len() + 1);
            let tail = b.split_off(at);
            b.extend_from_slice(&s);
            b.extend_from_slice(&tail);
        }
        9 => {
            // patch header bits / vendor / type of one AVP record
            let offs = avp_offsets(b);
            if !offs.is_empty() {
                let p = offs[t.below(offs.len())];
                match t.below(4) {
                    0 => b[p] ^= 0x02,
                    1 => b[p] ^= 1 << (2 + t.below(4)),
                    2 => b[p + 3] = 1 + (t.byte() & 0x7f),
                    _ => {
                        let ty = if t.chance(50) { ASSIGNED[t.below(39)] } else { t.b_u16() };
                        b[p + 4] = (ty >> 8) as u8;
                        b[p + 5] = ty as u8;
                    }
                }
            }
        }
        10 => {
            // append another whole message
            let m = if t.chance(50) { encode_message(&gen_control_k(t, 2)) } else { encode_message(&gen_data_small(t)) };
            if m.len() < 4000 {
                b.extend_from_slice(&m);
            }
        }
        _ => {
            let mut extra = Vec::new();
            gen_record(t, &mut extra);
            b.extend_from_slice(&extra);
        }
    }
}

/// control header (canonical flags, Length = total) around an AVP region
pub fn control_around(t: &mut Tape, body: &[u8]) -> Vec<u8> {
    let mut w = vec![0x13, 0x20, 0, 0];
    for _ in 0..4 {
        w.extend_from_slice(&t.b_u16().to_be_bytes());
    }
    w.extend_from_slice(body);
    let l = w.len().min(65535);
    w[2] = (l >> 8) as u8;
    w[3] = l as u8;
    w
}

/// G-wire: message octets, mostly near-valid
pub fn gen_wire(t: &mut Tape) -> Vec<u8> {
    let mut b = match t.below(20) {
        0..=7 => encode_message(&gen_control(t)),
        8..=11 => {
            let m = gen_data_small(t);
            encode_message(&m)
        }
        12..=16 => {
            // control header + record list (occasionally a long one: more than 8, 32, 64 records)
            let k = if t.chance(6) { 7 + t.below(90) } else { t.below(6) };
            let mut body = Vec::new();
            if t.chance(85) {
                encode_avp(&msg_type_avp(t), &mut body);
            }
            for _ in 0..k {
                gen_record(t, &mut body);
            }
            if t.chance(20) {
                let tail = t.below(8);
                for _ in 0..tail {
                    body.push(t.byte());
                }
            }
            control_around(t, &body)
        }
        17 => encode_noncanon(t).0,
        18 if t.chance(6) => gen_wire_big(t),
        _ => {
            let n = t.below(48);
            t.raw(n)
        }
    };
    let k = match t.below(4) {
        0 | 1 => 0,
        2 => 1,
        _ => 1 + t.below(3),
    };
    for _ in 0..k {
        mutate(t, &mut b);
    }
    b
}

/// a cheap stream of small valid AVPs of about `total` octets (first one a Message Type)
pub fn cheap_avp_stream(t: &mut Tape, total: usize) -> Vec<u8> {
    let mut w = Vec::with_capacity(total + 16);
    encode_avp(&msg_type_avp(t), &mut w);
    let base = t.u16();
    let mut i = 0u32;
    while w.len() + 6 <= total {
        let room = total - w.len();
        let a = match (i + base as u32) % 4 {
            0 if room >= 8 => SAvp { attr: 9, hidden: false, body: Body::U16(i as u16) },
            1 if room >= 10 => SAvp { attr: 15, hidden: false, body: Body::U32(i) },
            2 if room >= 14 => SAvp { attr: 5, hidden: false, body: Body::U64(i as u64) },
            _ => SAvp { attr: 39, hidden: false, body: Body::Empty },
        };
        encode_avp(&a, &mut w);
        i += 1;
    }
    w
}

/// inputs of 64 KiB and more, where 16-bit arithmetic on lengths and offsets wraps: a control header whose Length is the
/// true size modulo 65536 (or simply small) in front of a valid AVP stream; a data message with a huge Offset Size and the
/// pad really present; a valid message followed by enough octets to push the buffer past 65 535
pub fn gen_wire_big(t: &mut Tape) -> Vec<u8> {
    match t.below(5) {
        4 => {
            // control message of 32 KiB and more whose Length field overstates (or exactly matches) what is present
            let body_len = 32768 - 40 + t.below(32000);
            let body = cheap_avp_stream(t, body_len);
            let true_len = 12 + body.len();
            let v = match t.below(4) {
                0 => 0xffff,
                1 => true_len + 1 + t.below(64),
                2 => true_len,
                _ => true_len + t.below(65536 - true_len),
            }
            .min(0xffff);
            let mut w = vec![0x13, 0x20, (v >> 8) as u8, v as u8, 0, 1, 0, 2, 0, 3, 0, 4];
            w.extend_from_slice(&body);
            w
        }
        0 => {
            // Length field v in front of (v - 12) mod 65536 (+ 0 / 65536) octets of valid AVPs
            let v = match t.below(4) {
                0 => t.below(12),
                1 => 12 + t.below(40),
                _ => t.below(65536),
            };
            let body_len = (v + 65536 - 12) % 65536 + if t.chance(50) { 65536 } else { 0 };
            let body = cheap_avp_stream(t, body_len.max(8));
            let mut w = vec![0x13, 0x20, (v >> 8) as u8, v as u8, 0, 1, 0, 2, 0, 3, 0, 4];
            w.extend_from_slice(&body);
            w
        }
        1 => {
            // data message, O bit (and maybe L, S), Offset Size near 65535 with the pad present
            let l = t.chance(50);
            let s_ = t.chance(50);
            let mut f: u16 = 0x0020 | O;
            if l {
                f |= L;
            }
            if s_ {
                f |= S;
            }
            let n = match t.below(4) {
                0 => 65535,
                1 => 65535 - t.below(16),
                _ => 60000 + t.below(5536),
            };
            let mut w = f.to_be_bytes().to_vec();
            if l {
                w.extend_from_slice(&t.b_u16().to_be_bytes());
            }
            w.extend_from_slice(&[0, 7, 0, 9]);
            if s_ {
                w.extend_from_slice(&[0, 1, 0, 2]);
            }
            w.extend_from_slice(&(n as u16).to_be_bytes());
            let extra = t.below(40);
            let present = if t.chance(80) { n + extra } else { n.saturating_sub(1 + extra) };
            w.extend((0..present).map(|i| (i as u8) ^ 0x3c));
            w
        }
        2 => {
            // a valid message followed by a suffix that makes the whole buffer 65 536 octets or a little more
            let mut w = if t.chance(70) {
                let k = t.below(5);
                encode_message(&gen_control_k(t, k))
            } else {
                encode_message(&with_exact_length(gen_data_small(t)))
            };
            let target = 65536 + t.below(24) - 12;
            while w.len() < target {
                w.push((w.len() as u8) ^ 0x5a);
            }
            w
        }
        _ => {
            // data message without Length carrying 64 KiB and more
            let n = 65530 + t.below(5000);
            let mut w = vec![if t.chance(50) { 0x80 } else { 0x00 }, 0x20, 0, 7, 0, 9];
            w.extend((0..n).map(|i| (i as u8) ^ 0x77));
            w
        }
    }
}

/// G-data restricted to payloads that keep inputs small (for wire mutation)
pub fn gen_data_small(t: &mut Tape) -> SMsg {
    let prio = t.chance(50);
    let has_len = t.chance(60);
    let ns_nr = if t.chance(50) { Some((t.b_u16(), t.b_u16())) } else { None };
    let n = 1 + if t.chance(5) { t.below(3000) } else { t.below(40) };
    let data = payload_bytes(t, n);
    let offset = if t.chance(40) {
        Some(match t.below(3) {
            0 => 0,
            1 => (n - 1) as u16,
            _ => t.below(n) as u16,
        })
    } else {
        None
    };
    let mut m = SMsg::Data { prio, length: None, tunnel: t.b_u16(), session: t.b_u16(), ns_nr, offset, data };
    if has_len {
        let l = encode_message(&m).len() + 2;
        if let SMsg::Data { length, .. } = &mut m {
            *length = Some(l as u16);
        }
    }
    m
}

// ---------------------------------------------------------------- G-noncanon

/// Which normalisations a dressed encoding exercises
#[derive(Default, Clone, Debug)]
pub struct Dress {
    pub reserved_flag_bits: bool,
    pub version_not_2: bool,
    pub ctrl_p_or_o: bool,
    pub m_unset: bool,
    pub avp_reserved_bits: bool,
    pub surplus: bool,
    pub reserved_octets: bool,
    pub trailing_in_region: usize,
    pub after_length: usize,
}

/// AVP with a non-canonical but equivalent wire form: M unset, reserved bits, surplus payload on
/// fixed-size kinds, junk reserved octets.
pub fn encode_avp_dressed(t: &mut Tape, a: &SAvp, w: &mut Vec<u8>, d: &mut Dress) {
    let mut p = Vec::new();
    encode_payload(&a.body, &mut p);
    if !a.hidden {
        match fmt_of(a.attr) {
            Some(Fmt::ProxyId) if t.chance(40) => {
                p[0] = t.byte();
                d.reserved_octets |= p[0] != 0;
            }
            Some(Fmt::CallErrors) | Some(Fmt::Accm) if t.chance(40) => {
                p[0] = t.byte();
                p[1] = t.byte();
                d.reserved_octets |= p[0] != 0 || p[1] != 0;
            }
            _ => {}
        }
        let surplus_ok = match fmt_of(a.attr) {
            Some(Fmt::MsgType) | Some(Fmt::ProtoVer) | Some(Fmt::U16) | Some(Fmt::U32) | Some(Fmt::U64) | Some(Fmt::Fixed(_)) | Some(Fmt::ProxyType) | Some(Fmt::ProxyId) | Some(Fmt::CallErrors)
            | Some(Fmt::Accm) | Some(Fmt::Empty) => usize::MAX,
            // a result code without error part tolerates exactly one surplus octet
            Some(Fmt::ResultCode) if p.len() == 2 => 1,
            _ => 0,
        };
        if surplus_ok > 0 && t.chance(35) {
            let k = (1 + t.below(12)).min(surplus_ok).min(MAX_PAYLOAD - p.len());
            for _ in 0..k {
                p.push(t.byte());
            }
            d.surplus |= k > 0;
        }
    }
    let len = 6 + p.len();
    let mut o1 = (((len >> 8) as u8) << 6) | ((a.hidden as u8) << 1);
    if t.chance(60) {
        o1 |= 0x01;
    } else {
        d.m_unset = true;
    }
    if t.chance(30) {
        let r = t.byte() & 0x3c;
        o1 |= r;
        d.avp_reserved_bits |= r != 0;
    }
    w.extend_from_slice(&[o1, len as u8, 0, 0]);
    w.extend_from_slice(&a.attr.to_be_bytes());
    w.extend_from_slice(&p);
}

/// G-noncanon: (octets, options under which they are accepted, the specified value, what was dressed)
pub fn encode_noncanon(t: &mut Tape) -> (Vec<u8>, Opts, SMsg, Dress) {
    let mut d = Dress::default();
    let mut o = Opts { reserved: t.chance(50), version: t.chance(50), unused: t.chance(50) };
    if t.chance(70) {
        let k = t.below(6);
        let m = gen_control_k(t, k);
        let (tunnel, session, ns, nr, avps) = match &m {
            SMsg::Control { tunnel, session, ns, nr, avps, .. } => (*tunnel, *session, *ns, *nr, avps.clone()),
            _ => unreachable!(),
        };
        let mut f = T | L | S | 0x0020;
        if !o.reserved && t.chance(60) {
            let r = t.u16() & RESERVED;
            f |= r;
            d.reserved_flag_bits = r != 0;
        }
        if !o.version && t.chance(50) {
            let v = t.below(16) as u16;
            f = (f & 0xff0f) | (v << 4);
            d.version_not_2 = v != 2;
        }
        if !o.unused && t.chance(50) {
            f |= [P, O, P | O][t.below(3)];
            d.ctrl_p_or_o = true;
        }
        let mut w = Vec::new();
        w.extend_from_slice(&f.to_be_bytes());
        w.extend_from_slice(&[0, 0]);
        for x in [tunnel, session, ns, nr] {
            w.extend_from_slice(&x.to_be_bytes());
        }
        for a in &avps {
            encode_avp_dressed(t, a, &mut w, &mut d);
        }
        if t.chance(25) {
            let k = 1 + t.below(5);
            for _ in 0..k {
                w.push(t.byte());
            }
            d.trailing_in_region = k;
        }
        let l = w.len();
        w[2] = (l >> 8) as u8;
        w[3] = l as u8;
        if t.chance(25) {
            let k = 1 + t.below(20);
            for _ in 0..k {
                w.push(t.byte());
            }
            d.after_length = k;
        }
        let v = SMsg::Control { length: l as u16, tunnel, session, ns, nr, avps };
        (w, o, v, d)
    } else {
        // data message without the O bit
        let mut m = gen_data_small(t);
        if let SMsg::Data { offset, length, data, ns_nr, .. } = &mut m {
            *offset = None;
            if length.is_some() {
                *length = Some((6 + 2 + if ns_nr.is_some() { 4 } else { 0 } + data.len()) as u16);
            }
        }
        let mut w = encode_message(&m);
        let mut f = ((w[0] as u16) << 8) | w[1] as u16;
        if !o.reserved && t.chance(60) {
            let r = t.u16() & RESERVED;
            f |= r;
            d.reserved_flag_bits = r != 0;
        }
        if !o.version && t.chance(50) {
            let v = t.below(16) as u16;
            f = (f & 0xff0f) | (v << 4);
            d.version_not_2 = v != 2;
        }
        w[0] = (f >> 8) as u8;
        w[1] = f as u8;
        if let SMsg::Data { length: Some(_), .. } = &m {
            if t.chance(30) {
                let k = 1 + t.below(20);
                for _ in 0..k {
                    w.push(t.byte());
                }
                d.after_length = k;
            }
        }
        o.unused = o.unused || t.chance(50); // unused-field checking never applies to data messages
        (w, o, m, d)
    }
}

// ---------------------------------------------------------------- G-hide / G-hidden

pub struct HideCase {
    pub avp: SAvp,
    pub payload: Vec<u8>,
    pub secret: Vec<u8>,
    pub rv: [u8; 4],
    pub lp: Vec<u8>,
    pub ap: [u8; 16],
}

/// G-hide: 2 + |payload| + |lp| <= 1008 by construction (payload <= 1006 first, then |lp| <= 1006 - |payload|);
/// sizes are steered to hit block counts 1, 2, 3, >= 4 and exact multiples of 16.
pub fn gen_hide(t: &mut Tape) -> HideCase {
    let attr = ASSIGNED[t.below(39)];
    let avp = SAvp { attr, hidden: false, body: gen_body_max(t, attr, 1006) };
    let mut payload = Vec::new();
    encode_payload(&avp.body, &mut payload);
    let secret = gen_secret(t);
    let rv = t.u32().to_be_bytes();
    let room = 1006 - payload.len();
    let base = 2 + payload.len();
    let lpn = match t.below(8) {
        0 => 0,
        1 => room,
        2 => (16 - base % 16) % 16,                 // exact multiple of 16, no alignment padding
        3 => ((16 - base % 16) % 16 + 16).min(room), // one more block
        4 => ((16 - base % 16) % 16 + 1).min(room),  // one octet into the next block
        5 => t.below(room + 1),
        _ => t.below(room.min(64) + 1),
    }
    .min(room);
    let lp = t.blob(lpn);
    let mut ap = [0u8; 16];
    for x in ap.iter_mut() {
        *x = t.byte();
    }
    let mut h = HideCase { avp, payload, secret, rv, lp, ap };
    // degenerate ciphertext: for kinds whose payload is free-form octets, choose the plaintext of one block so that its
    // ciphertext block is all zero, or equal to the previous ciphertext block (about 2^-128 by chance)
    if matches!(fmt_of(h.avp.attr), Some(Fmt::Blob)) && h.payload.len() >= 30 && t.chance(6) {
        let last_full = (2 + h.payload.len()) / 16; // blocks lying entirely inside length field + payload
        if last_full >= 2 {
            let j = 1 + t.below(last_full - 1);
            let ct = hide(h.avp.attr, &h.payload, &h.secret, &h.rv, &h.lp, &h.ap);
            let mut ki = h.secret.clone();
            ki.extend_from_slice(&ct[(j - 1) * 16..j * 16]);
            let key = crate::md5::md5(&ki);
            let same_as_prev = t.chance(30);
            for b in 0..16 {
                let want = if same_as_prev { ct[(j - 1) * 16 + b] } else { 0 };
                h.payload[16 * j - 2 + b] = key[b] ^ want;
            }
            h.avp.body = Body::Blob(h.payload.clone());
        }
    }
    h
}

/// a shared secret: empty, short, around the MD5 block boundaries (the key material is type(2) + secret + rv(4) for the
/// first block and secret + 16 octets for the others), and up to ~300 octets
pub fn gen_secret(t: &mut Tape) -> Vec<u8> {
    let n = match t.below(24) {
        0 | 1 => 0,
        2 | 3 => 1 + t.below(64),
        4 | 5 => 16,
        6 | 7 => [39usize, 40, 47, 48, 49, 50, 55, 56, 57, 58, 63, 64, 65][t.below(13)],
        8 | 9 => 65 + t.below(240),
        10 | 11 => [103usize, 104, 111, 112, 113, 119, 120, 121, 122, 127, 128, 129][t.below(12)],
        12 => {
            // just below a power of two (a fixed-size scratch buffer minus the few octets that go with the secret)
            let p = [256usize, 512, 1024, 2048, 4096, 8192][t.below(6)];
            p - t.below(24)
        }
        13 | 14 => {
            // secrets that look like configuration text: "0x" + hex digits, plain hex, base64-ish
            let k = 1 + t.below(12);
            let raw = t.raw(k);
            let hexs: String = raw.iter().map(|b| format!("{:02x}", b)).collect();
            let s = match t.below(3) {
                0 => format!("0x{}", hexs),
                1 => hexs,
                _ => raw.iter().map(|b| (b"ABCDEFGHIJKLMNOPQRSTUVWXYZabcdefghijklmnopqrstuvwxyz0123456789+/"[(b & 63) as usize]) as char).collect(),
            };
            return s.into_bytes();
        }
        _ => 1 + t.below(20),
    };
    if n > 400 {
        let a = t.byte();
        return (0..n).map(|i| (i as u8).wrapping_mul(31).wrapping_add(a)).collect();
    }
    t.blob(n)
}

/// a secret related to `s` in a way a weak cache key would confuse with it: a prefix, an extension, two octets swapped
/// (including 8 apart), a neighbouring pair changed by (+1, -31), or simply another secret of the same length
// ---------------------------------------------------------------- inputs that weak digests cannot tell apart
// A memo or cache keyed by a weak digest of its input (and never comparing the input itself) answers for the wrong input as soon
// as two inputs collide. The edits below keep the common hand-rolled digests unchanged; none depends on where in the hashed
// region the edit lies or on what precedes it, except the FNV search, which needs the octets hashed before the free ones.

/// 32-bit FNV-1a
pub fn fnv1a32(h0: u32, b: &[u8]) -> u32 {
    b.iter().fold(h0, |h, &x| (h ^ x as u32).wrapping_mul(0x0100_0193))
}
pub const FNV32_BASIS: u32 = 0x811c_9dc5;

/// A string different from `tail`, of the same length (>= 8), with the same FNV-1a-32 state after `prefix`. Meet in the middle:
/// the states reached by 2^14 random heads (all but the last four octets) are tabulated, then random four-octet endings are run
/// backwards from the wanted state (FNV's multiplier is odd, hence invertible modulo 2^32) until one lands in the table.
pub fn fnv1a32_colliding_with(prefix: &[u8], tail: &[u8], seed: u64) -> Option<Vec<u8>> {
    let len = tail.len();
    if len < 8 {
        return None;
    }
    const P_INV: u32 = 0x359c_449b; // 0x01000193 * 0x359c449b = 1 (mod 2^32)
    let h0 = fnv1a32(FNV32_BASIS, prefix);
    let want = fnv1a32(h0, tail);
    let mut x = seed | 1;
    let mut next = move || {
        x ^= x << 13;
        x ^= x >> 7;
        x ^= x << 17;
        x
    };
    let hl = len - 4;
    let mut table: std::collections::HashMap<u32, u64> = std::collections::HashMap::with_capacity(1 << 14);
    let head_of = |r: u64| -> Vec<u8> { (0..hl).map(|k| (r.rotate_left(8 * (k as u32 % 8)) as u8) ^ (k / 8) as u8).collect() };
    for _ in 0..(1u32 << 14) {
        let r = next();
        table.insert(fnv1a32(h0, &head_of(r)), r);
    }
    for _ in 0..(1u32 << 21) {
        let e = (next() >> 16) as u32;
        let end = e.to_be_bytes();
        let mut st = want;
        for &b in end.iter().rev() {
            st = st.wrapping_mul(P_INV) ^ b as u32;
        }
        if let Some(&r) = table.get(&st) {
            let mut c = head_of(r);
            c.extend_from_slice(&end);
            if c != tail && fnv1a32(h0, &c) == want {
                return Some(c);
            }
        }
    }
    None
}

/// CRC-32 generator polynomial x^32 + x^26 + ... + 1, the 33 coefficients from x^32 down
const CRC32_POLY_BITS: u64 = 0x1_04C1_1DB7;

/// An edit of `b` that keeps a family of digests unchanged, whatever precedes and follows the edited octets:
/// 0 swap of two octets (sum, xor); 1 (+1,-31) on neighbours (Java-style 31-polynomial); 2 (+1,-33) (djb2);
/// 3 (+1,-2,+1) on three neighbours (Adler-32 / Fletcher, barring a wrap at 0 / 255); 4 the CRC-32 polynomial XORed in at a bit
/// offset, most significant bit first (CRC-32/MPEG-2, BZIP2); 5 the same, least significant bit first (zlib / IEEE CRC-32).
/// Returns false if `b` is too short for the chosen edit.
pub fn digest_preserving_edit(t: &mut Tape, b: &mut [u8]) -> bool {
    let n = b.len();
    match t.below(6) {
        0 if n >= 2 => {
            let (i, j) = (t.below(n), t.below(n));
            b.swap(i, j);
            b[i] != b[j]
        }
        k @ (1 | 2) if n >= 2 => {
            let i = t.below(n - 1);
            let d = if k == 1 { 31 } else { 33 };
            if b[i] == 255 || b[i + 1] < d {
                return false;
            }
            b[i] += 1;
            b[i + 1] -= d;
            true
        }
        3 if n >= 3 => {
            let i = t.below(n - 2);
            if b[i] == 255 || b[i + 1] < 2 || b[i + 2] == 255 {
                return false;
            }
            b[i] += 1;
            b[i + 1] -= 2;
            b[i + 2] += 1;
            true
        }
        k @ (4 | 5) if n >= 5 => {
            let off = t.below(8 * n - 32);
            for j in 0..33 {
                if (CRC32_POLY_BITS >> (32 - j)) & 1 == 1 {
                    let bit = off + j;
                    let mask = if k == 4 { 0x80u8 >> (bit % 8) } else { 1u8 << (bit % 8) };
                    b[bit / 8] ^= mask;
                }
            }
            true
        }
        _ => false,
    }
}

/// Two accepted control messages of the same length that differ only in the last 8 octets (the tail of a final Challenge AVP)
/// and collide under FNV-1a-32 when the digest is taken over one of four natural regions: the whole message, the AVP region
/// (from octet 12), the last AVP, or its value. None if the search fails.
pub fn fnv_twin_messages(t: &mut Tape) -> Option<(Vec<u8>, Vec<u8>, &'static str)> {
    let k = t.below(3);
    let m = gen_control_k(t, k);
    let (tunnel, session, ns, nr, mut avps) = match m {
        SMsg::Control { tunnel, session, ns, nr, avps, .. } => (tunnel, session, ns, nr, avps),
        _ => return None,
    };
    if avps.is_empty() {
        avps.push(msg_type_avp(t));
    }
    let vlen = 12 + t.below(20);
    let value = t.raw(vlen);
    avps.push(SAvp { attr: 11, hidden: false, body: Body::Blob(value) });
    let b1 = encode_message(&SMsg::Control { length: 0, tunnel, session, ns, nr, avps });
    let n = b1.len();
    let (start, what) = match t.below(4) {
        0 => (0, "the whole message"),
        1 => (12, "the AVP region"),
        2 => (n - vlen - 6, "the last AVP"),
        _ => (n - vlen, "the value of the last AVP"),
    };
    let tail = fnv1a32_colliding_with(&b1[start..n - 8], &b1[n - 8..], t.u64())?;
    let mut b2 = b1.clone();
    b2[n - 8..].copy_from_slice(&tail);
    Some((b1, b2, what))
}

pub fn related_secret(t: &mut Tape, s: &[u8]) -> Vec<u8> {
    related_secret_for(t, s, None)
}

/// `first_block_prefix`: the octets that precede the secret in the first MD5 input of RFC 2661 s4.3 (the attribute type), when known
pub fn related_secret_for(t: &mut Tape, s: &[u8], first_block_prefix: Option<[u8; 2]>) -> Vec<u8> {
    let mut r = s.to_vec();
    // about one time in eight: a secret of the same length that a weak digest cannot tell from `s`
    if s.len() >= 8 && t.chance(12) {
        if t.chance(90) {
            if digest_preserving_edit(t, &mut r) {
                return r;
            }
            r = s.to_vec();
        } else {
            // FNV-1a-32 collision, the secret hashed alone or after the attribute type (the head of the first MD5 input)
            let prefix: Vec<u8> = match first_block_prefix {
                Some(p) if t.chance(50) => p.to_vec(),
                _ => Vec::new(),
            };
            // only the last 8 octets are free, the rest is shared
            let keep = s.len().saturating_sub(8);
            let mut pre = prefix.clone();
            pre.extend_from_slice(&s[..keep]);
            if let Some(a) = fnv1a32_colliding_with(&pre, &s[keep..], t.u64()) {
                r.truncate(keep);
                r.extend_from_slice(&a);
                return r;
            }
        }
    }
    match t.below(7) {
        0 => {
            let n = t.below(s.len() + 1);
            r.truncate(n);
        }
        1 => {
            let n = 1 + t.below(4);
            let x = t.raw(n);
            r.extend_from_slice(&x);
        }
        2 if s.len() >= 2 => {
            let i = t.below(s.len());
            let j = t.below(s.len());
            r.swap(i, j);
        }
        3 if s.len() >= 9 => {
            let i = t.below(s.len() - 8);
            r.swap(i, i + 8);
        }
        4 if s.len() >= 2 => {
            let i = t.below(s.len() - 1);
            r[i] = r[i].wrapping_add(1);
            r[i + 1] = r[i + 1].wrapping_sub(31);
        }
        5 => r.clear(),
        _ => {
            for x in r.iter_mut() {
                *x = t.byte();
            }
        }
    }
    r
}

pub struct HiddenCase {
    pub attr: u16,
    pub value: Vec<u8>,
    pub secret: Vec<u8>,
    pub rv: [u8; 4],
    /// Some(declared total original length) when the plaintext was crafted
    pub crafted: Option<usize>,
}

/// G-hidden: hidden values for reveal: uniformly random ones and crafted ones whose plaintext carries a chosen
/// original-length field (encrypted with the reference key schedule so that the crate decrypts exactly it)
pub fn gen_hidden(t: &mut Tape) -> HiddenCase {
    let attr = match t.below(4) {
        0 => t.b_u16(),
        _ => ASSIGNED[t.below(39)],
    };
    let secret = gen_secret(t);
    let rv = t.u32().to_be_bytes();
    if t.chance(40) {
        let n = match t.below(7) {
            0 => t.below(70),
            1 => t.below(1041),
            2 => 16 * t.below(66) + [1, 8, 15][t.below(3)],
            3 => 0,
            4 => 16 * (60 + t.below(25)),
            _ => 16 * t.below(6),
        };
        let value = t.raw(n);
        return HiddenCase { attr, value, secret, rv, crafted: None };
    }
    let blocks = match t.below(16) {
        0 | 1 => 1 + t.below(64),
        2 => 63 + t.below(20), // Hidden is a public struct: values longer than any wire AVP (1024, 1040, ... octets) are legal arguments
        _ => 1 + t.below(4),
    };
    let n = blocks * 16;
    let mut pt: Vec<u8> = if t.chance(50) && fmt_of(attr).is_some() {
        // a valid payload of the kind followed by padding
        let mut p = vec![0, 0];
        encode_payload(&gen_body_max(t, attr, n - 2), &mut p);
        p.truncate(n);
        let used = p.len();
        while p.len() < n {
            p.push(t.byte());
        }
        let total = used - 2 + 6;
        p[0] = (total >> 8) as u8;
        p[1] = total as u8;
        p
    } else {
        t.raw(n)
    };
    let avail = n - 2;
    let cur = ((pt[0] as usize) << 8) | pt[1] as usize;
    let total = match t.below(12) {
        0 => 5,
        1 => 6,
        2 => avail + 6,
        3 => avail + 7,
        4 => 1023,
        5 => 1024,
        6 => 6 + t.below(avail + 1),
        7 => t.u16() as usize,
        8 => 0,
        9 => avail + 5,
        _ => cur,
    };
    pt[0] = (total >> 8) as u8;
    pt[1] = total as u8;
    let value = encrypt_raw(attr, &pt, &secret, &rv);
    HiddenCase { attr, value, secret, rv, crafted: Some(total) }
}

/// give a data message an exact Length field if it has none
pub fn with_exact_length(m: SMsg) -> SMsg {
    match m {
        SMsg::Data { prio, length: None, tunnel, session, ns_nr, offset, data } => {
            let l = 6 + 2 + if ns_nr.is_some() { 4 } else { 0 } + if offset.is_some() { 2 } else { 0 } + data.len();
            SMsg::Data { prio, length: Some(l as u16), tunnel, session, ns_nr, offset, data }
        }
        m => m,
    }
}

/// content a writer may already hold before a value is encoded: usually empty or short, occasionally long enough
/// to put the value across a 2^16 boundary of the writer
pub fn gen_prefix(t: &mut Tape) -> Vec<u8> {
    let n = match t.below(16) {
        0..=6 => 0,
        7 => 1,
        8 | 9 => 1 + t.below(40),
        10 => 1 + t.below(300),
        11 => 65535 - t.below(40),
        12 => 65536 + t.below(40),
        13 => 65536 * (1 + t.below(3)) - t.below(1100),
        _ => 2 + t.below(14),
    };
    if n > 400 {
        (0..n).map(|i| (i as u8) ^ 0xa7).collect()
    } else {
        t.blob(n)
    }
}
