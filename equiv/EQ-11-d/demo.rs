// Demo for change `d`: a message header with TWO faults at once (wrong version nibble AND a
// reserved bit set), decoded with both checks enabled.
// Original crate: Err([InvalidVersion(3)]); changed crate: Err([InvalidReservedBits]).
use rl2tp::common::{DecodeError, SliceReader};
use rl2tp::{Message, ValidateReserved, ValidateUnused, ValidateVersion, ValidationOptions};

fn opts(reserved: bool, version: bool) -> ValidationOptions {
    ValidationOptions {
        reserved: if reserved { ValidateReserved::Yes } else { ValidateReserved::No },
        version: if version { ValidateVersion::Yes } else { ValidateVersion::No },
        unused: ValidateUnused::Yes,
    }
}

fn decode(input: &[u8], o: ValidationOptions) -> Result<Message<&[u8]>, Vec<DecodeError>> {
    Message::try_read_validate(&mut SliceReader::from(input), o)
}

#[test]
fn two_header_faults_report_reserved_bits() {
    // data message, version nibble 3, reserved bit 0 set
    let data = [0x00, 0x31, 0x00, 0x01, 0x00, 0x02, 0xaa];
    assert_eq!(
        decode(&data, opts(true, true)),
        Err(vec![DecodeError::InvalidReservedBits])
    );
    // control message (ZLB), version nibble 0, reserved bit 13 set
    let control = [
        0x33, 0x00, 0x00, 0x0c, 0x00, 0x01, 0x00, 0x02, 0x00, 0x03, 0x00, 0x04,
    ];
    assert_eq!(
        decode(&control, opts(true, true)),
        Err(vec![DecodeError::InvalidReservedBits])
    );
}

#[test]
fn everything_else_is_as_before() {
    let both = [0x00, 0x31, 0x00, 0x01, 0x00, 0x02, 0xaa];
    // each check alone reports its own fault; both off accepts
    assert_eq!(
        decode(&both, opts(false, true)),
        Err(vec![DecodeError::InvalidVersion(3)])
    );
    assert_eq!(
        decode(&both, opts(true, false)),
        Err(vec![DecodeError::InvalidReservedBits])
    );
    assert!(decode(&both, opts(false, false)).is_ok());
    // default entry point = version check alone
    assert_eq!(
        Message::<&[u8]>::try_read(&mut SliceReader::from(&both[..])),
        Err(vec![DecodeError::InvalidVersion(3)])
    );
    // single faults under the strictest options
    let only_version = [0x00, 0x30, 0x00, 0x01, 0x00, 0x02, 0xaa];
    assert_eq!(
        decode(&only_version, opts(true, true)),
        Err(vec![DecodeError::InvalidVersion(3)])
    );
    let only_reserved = [0x00, 0x21, 0x00, 0x01, 0x00, 0x02, 0xaa];
    assert_eq!(
        decode(&only_reserved, opts(true, true)),
        Err(vec![DecodeError::InvalidReservedBits])
    );
    // 0 and 1 octets
    assert_eq!(
        decode(&[], opts(true, true)),
        Err(vec![DecodeError::IncompleteFlags])
    );
    assert_eq!(
        decode(&[0x00], opts(true, true)),
        Err(vec![DecodeError::IncompleteFlags])
    );
}
