// C09 — encoding only appends: earlier writer content untouched, position independent.
use crate::cx::*;
use crate::gen::*;
use crate::glue::*;
use crate::mon::*;
use crate::prop::*;
use crate::spec::*;
use rl2tp::common::VecWriter;
use serde_json::{json, Value};

pub static DEF: PropDef = PropDef {
    id: "C09",
    title: "Encoding only appends",
    rule: "Sequences of 1..6 values (G-val control messages, G-data messages, single AVPs incl. hidden ones) encoded one after the other into a writer that already holds a prefix of 0..300 octets, or (1 case in 8) about 2^16 octets and beyond, where writer positions no longer fit 16 bits. \
Oracle: (1) VecWriter{data: p} after the writes = p ++ encode_into_empty(v1) ++ .. ++ encode_into_empty(vk), checked after every value; (2) the same through MonWriter, a harness Writer that \
records every write_bytes_at(offset, len) with the writer length at that moment: each overwrite must start at or after the first octet of the value being encoded and end within the octets written so far; no overwrite may be out of range; MonWriter and VecWriter must end with identical octets; in 3 cases of 10 MonWriter additionally reports positions offset by a virtual base of 2^16 .. 2^62 (around 2^32 most often), and no overwrite may land in those implicit octets; in 1 case of 10 a refused encode precedes one of the values. \
Non-trivial = non-empty prefix or k >= 2; distinct by hash of (prefix, encodings).",
    assumptions: &[],
    parts,
    run_tape,
    run_enum: no_enum,
    run_concrete,
    both_profiles: true,
    exhaustive_note: "",
};

fn parts(t: Tier) -> Vec<Part> {
    let a = match t {
        Tier::Quick => 900_000,
        Tier::Thorough => 10_000_000,
    };
    vec![tape("sequences", a, 2500)]
}

enum Val {
    Msg(SMsg),
    Avp(SAvp),
}

fn gen_val(t: &mut Tape) -> Val {
    match t.below(5) {
        0 | 1 => {
            let k = t.below(7);
            Val::Msg(gen_control_k(t, k))
        }
        2 => Val::Msg(gen_data_small(t)),
        _ => Val::Avp(gen_avp(t)),
    }
}

fn describe(v: &Val) -> String {
    match v {
        Val::Msg(SMsg::Control { avps, .. }) => format!("control message with {} AVPs", avps.len()),
        Val::Msg(m) => format!("{:?}", crate::props::c04::short(m)),
        Val::Avp(a) => format!("AVP type {}{} ({} octets)", a.attr, if a.hidden { " hidden" } else { "" }, avp_wire_len(a)),
    }
}

fn check(t: &mut Tape, cx: &mut Cx) -> Res {
    cx.eval();
    let prefix = match t.below(8) {
        0 => Vec::new(),
        1 => t.blob(1),
        2 => {
            let n = 1 + t.below(300);
            t.blob(n)
        }
        // a writer that already holds about 2^16 octets or a multiple: positions no longer fit 16 bits
        3 => {
            let n = match t.below(4) {
                0 => 65535 - t.below(30),
                1 => 65536 + t.below(30),
                2 => 65536 * (1 + t.below(3)) - t.below(1100),
                _ => 65536 + t.below(200_000),
            };
            (0..n).map(|i| (i as u8) ^ 0xa7).collect()
        }
        _ => {
            let n = t.below(24);
            t.blob(n)
        }
    };
    let plen = prefix.len();
    let k = 1 + t.below(6);
    let mut vals: Vec<Val> = (0..k).map(|_| gen_val(t)).collect();
    let refusals = if t.chance(10) { 1 } else { 0 };
    let refusal_at = t.below(k);
    // the stale `length` member of a control-message value sometimes equals the size of the whole batch so far plus
    // the message itself (what a position-dependent encoder would compute)
    if t.chance(15) {
        let mut at = prefix.len();
        for v in vals.iter_mut() {
            let l = match v {
                Val::Msg(m) => encode_message(m).len(),
                Val::Avp(a) => avp_wire_len(a),
            };
            if let Val::Msg(SMsg::Control { length, .. }) = v {
                *length = ((at + l) & 0xffff) as u16;
            }
            at += l;
        }
    }
    let render = |i: usize| json!({"prefix": hex_short(&prefix), "values": vals.iter().map(describe).collect::<Vec<_>>(), "failing_value_index": i});

    let mut vw = VecWriter::new();
    vw.data = prefix.clone();
    // the monitoring writer may in addition be far into a stream: its first `base` octets are implicit (positions of
    // 2^32 and more, which no in-memory buffer of this harness could hold)
    let vbase: usize = match t.below(10) {
        0 => (1usize << 32) - t.below(64),
        1 => (1usize << 32) + t.below(64),
        2 => (1usize << [16usize, 24, 31, 33, 40, 48, 62][t.below(7)]) + t.below(3),
        _ => 0,
    };
    let mut mw = MonWriter::with_virtual_base(vbase, &prefix);
    // a journalling writer whose append methods themselves use the crate (re-entrancy)
    mw.reentrant = t.chance(15);
    // the VecWriter may sit on a buffer that was sized in advance or recycled: large capacity, short content
    if t.chance(15) {
        let cap = [16 * 1024 + 1, 65535, 70000, 1 << 20][t.below(4)];
        let mut v = Vec::with_capacity(cap);
        v.extend_from_slice(&prefix);
        vw.data = v;
        cx.class("VecWriter on a pre-sized buffer (capacity far above the length)");
    }
    let mut expect = prefix.clone();
    let mut n_over = 0u64;
    for (i, v) in vals.iter().enumerate() {
        // occasionally an encode that is refused (an oversize AVP inside a message) happens on this thread first:
        // whatever it leaves behind must not show up in the next value
        if refusals > 0 && i == refusal_at {
            cx.stage(STAGE_UNATTRIBUTED);
            let big = SAvp { attr: 7, hidden: false, body: Body::Blob(vec![0x55; 1018 + i]) };
            let m = SMsg::Control { length: 0, tunnel: 1, session: 2, ns: 3, nr: 4, avps: vec![SAvp { attr: 0, hidden: false, body: Body::U16(1) }, SAvp { attr: 9, hidden: false, body: Body::U16(7) }, big.clone()] };
            let _ = crate_encode_msg(&m);
            let _ = crate_encode_avp(&big);
            cx.class("a refused encode preceded a value of the sequence");
        }
        // reference: the value's encoding into an empty writer
        cx.stage(STAGE_ARMED);
        let alone = match v {
            Val::Msg(m) => crate_encode_msg(m),
            Val::Avp(a) => crate_encode_avp(a),
        };
        let alone = match alone {
            Caught::Ok(e) => e,
            Caught::Panic(p) => return fail(format!("encoding into an empty writer panicked: {}", p.short()), render(i)),
            Caught::Monitor(_) => return fail("unexpected panic payload", render(i)),
        };
        let start = expect.len();
        expect.extend_from_slice(&alone);
        // into the VecWriter that already holds data
        let r = guard(|| match v {
            Val::Msg(m) => to_crate_msg(m).write(&mut vw),
            Val::Avp(a) => to_crate(a).write(&mut vw),
        });
        if let Caught::Panic(p) = r {
            return fail(format!("encoding into a writer holding {} octets panicked: {}", start, p.short()), render(i));
        }
        if vw.data != expect {
            let d = vw.data.iter().zip(expect.iter()).position(|(a, b)| a != b).unwrap_or(vw.data.len().min(expect.len()));
            return fail(
                format!("writer content differs from prefix ++ encodings at offset {} (value starts at {}, earlier content {})", d, start, if d < start { "CHANGED" } else { "intact" }),
                render(i),
            );
        }
        // through the monitoring writer
        let ow0 = mw.overwrites.len();
        let r = guard(|| match v {
            Val::Msg(m) => to_crate_msg(m).write(&mut mw),
            Val::Avp(a) => to_crate(a).write(&mut mw),
        });
        cx.stage(STAGE_SETUP);
        if let Caught::Panic(p) = r {
            return fail(format!("encoding into MonWriter panicked: {}", p.short()), render(i));
        }
        if let Some(o) = mw.into_base.first() {
            return fail(
                format!("positional overwrite at offset {} lands in the {} octets the writer held before the value (the value starts at {})", o.offset, vbase + start, vbase + start),
                render(i),
            );
        }
        if let Some(o) = mw.out_of_range.first() {
            return fail(format!("positional overwrite outside the written data: offset {} length {} with {} octets written", o.offset, o.len, o.writer_len), render(i));
        }
        if mw.data != expect {
            return fail("octets in MonWriter differ from prefix ++ encodings", render(i));
        }
        let end = expect.len();
        // AVP extents of this value (absolute), for the AVP-level rule
        let avp_ext: Vec<(usize, usize)> = match v {
            Val::Avp(a) => vec![(start, start + avp_wire_len(a))],
            Val::Msg(SMsg::Control { avps, .. }) => {
                let mut p = start + 12;
                avps.iter()
                    .map(|a| {
                        let l = avp_wire_len(a);
                        p += l;
                        (p - l, p)
                    })
                    .collect()
            }
            _ => vec![],
        };
        for o in &mw.overwrites[ow0..] {
            n_over += 1;
            // positions as the writer reported them are absolute; bring them back to indices into `expect`
            let o = Overwrite { offset: o.offset - vbase, len: o.len, writer_len: o.writer_len - vbase };
            if o.offset < start {
                return fail(format!("positional overwrite at offset {} touches octets before the value being encoded (which starts at {})", o.offset, start), render(i));
            }
            if o.offset + o.len > o.writer_len || o.writer_len > end {
                return fail(format!("positional overwrite [{}, {}) beyond the {} octets written", o.offset, o.offset + o.len, o.writer_len), render(i));
            }
            // (which AVP of a message is "being encoded" when an overwrite is issued cannot be observed from outside - an
            // encoder may legitimately refresh the message's Length field after every AVP - so inside a message only the
            // message's own extent is required; for a top-level AVP the extent is the AVP's)
            if let Val::Avp(_) = v {
                let (s, e) = avp_ext[0];
                if o.offset < s || o.offset + o.len > e {
                    return fail(format!("overwrite [{}, {}) issued while encoding the AVP at [{}, {}) lies outside that AVP", o.offset, o.offset + o.len, s, e), render(i));
                }
            }
        }
    }
    cx.class_n("positional overwrites observed", n_over);
    cx.class(match plen {
        0 => "prefix empty",
        1..=23 => "prefix 1..23 octets",
        24..=400 => "prefix 24..400 octets",
        _ => "prefix of about 2^16 octets or more",
    });
    cx.class(if k >= 2 { "sequence of >= 2 values" } else { "single value" });
    if mw.reentrant {
        cx.class("monitoring writer that re-enters the crate from its own methods");
    }
    if vbase != 0 {
        cx.class("monitoring writer with a virtual base (positions of 2^16 .. 2^62 and more)");
    }
    if plen > 0 || k >= 2 {
        cx.nontrivial(&expect);
    }
    cx.sample("sequences", || json!({"prefix_octets": plen, "values": vals.iter().map(describe).collect::<Vec<_>>(), "total_octets": expect.len(), "family": "sequences"}));
    Ok(())
}

fn run_tape(_part: &str, tape: &[u8], cx: &mut Cx) -> Res {
    let mut t = Tape::new(tape);
    check(&mut t, cx)
}

fn run_concrete(case: &Value, _cx: &mut Cx) -> Res {
    fail("C09 has no concrete case format (replay the tape)", case.clone())
}
