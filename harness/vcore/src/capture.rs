// Capture of everything the process writes to file descriptors 1 and 2 while a closure runs.
use std::io::Write;

pub struct Capture {
    saved1: i32,
    saved2: i32,
    fd: i32,
    /// master side when fds 1 and 2 were pointed at a pseudo-terminal (then `fd` is the slave)
    master: i32,
}

impl Capture {
    pub fn start() -> Option<Capture> {
        let _ = std::io::stdout().flush();
        let _ = std::io::stderr().flush();
        unsafe {
            let fd = libc::memfd_create(b"vf-capture\0".as_ptr() as *const libc::c_char, 0);
            if fd < 0 {
                return None;
            }
            let saved1 = libc::dup(1);
            let saved2 = libc::dup(2);
            if saved1 < 0 || saved2 < 0 || libc::dup2(fd, 1) < 0 || libc::dup2(fd, 2) < 0 {
                return None;
            }
            Some(Capture { saved1, saved2, fd, master: -1 })
        }
    }

    /// Like `start`, but fds 1 and 2 become a pseudo-terminal: code that prints only when `is_terminal()` is then observed
    /// too. The slave is non-blocking so that a chatty library cannot dead-lock against the unread master.
    pub fn start_pty() -> Option<Capture> {
        let _ = std::io::stdout().flush();
        let _ = std::io::stderr().flush();
        unsafe {
            let master = libc::posix_openpt(libc::O_RDWR | libc::O_NOCTTY);
            if master < 0 {
                return None;
            }
            let mut name = [0 as libc::c_char; 128];
            if libc::grantpt(master) != 0 || libc::unlockpt(master) != 0 || libc::ptsname_r(master, name.as_mut_ptr(), name.len()) != 0 {
                libc::close(master);
                return None;
            }
            let slave = libc::open(name.as_ptr(), libc::O_RDWR | libc::O_NOCTTY | libc::O_NONBLOCK);
            if slave < 0 {
                libc::close(master);
                return None;
            }
            let fl = libc::fcntl(master, libc::F_GETFL);
            libc::fcntl(master, libc::F_SETFL, fl | libc::O_NONBLOCK);
            let saved1 = libc::dup(1);
            let saved2 = libc::dup(2);
            if saved1 < 0 || saved2 < 0 || libc::dup2(slave, 1) < 0 || libc::dup2(slave, 2) < 0 {
                libc::close(master);
                libc::close(slave);
                return None;
            }
            Some(Capture { saved1, saved2, fd: slave, master })
        }
    }

    /// restore fds 1 and 2 and return what was written to them meanwhile
    pub fn finish(self) -> Vec<u8> {
        if self.master >= 0 {
            let _ = std::io::stdout().flush();
            let _ = std::io::stderr().flush();
            let mut out = Vec::new();
            unsafe {
                libc::dup2(self.saved1, 1);
                libc::dup2(self.saved2, 2);
                libc::close(self.saved1);
                libc::close(self.saved2);
                let mut buf = [0u8; 4096];
                loop {
                    let n = libc::read(self.master, buf.as_mut_ptr() as *mut libc::c_void, buf.len());
                    if n <= 0 {
                        break;
                    }
                    out.extend_from_slice(&buf[..n as usize]);
                    if out.len() > 1 << 20 {
                        break;
                    }
                }
                libc::close(self.fd);
                libc::close(self.master);
            }
            return out;
        }
        // push anything Rust's line-buffered stdout still holds
        let _ = std::io::stdout().flush();
        let _ = std::io::stderr().flush();
        let mut out = Vec::new();
        unsafe {
            libc::dup2(self.saved1, 1);
            libc::dup2(self.saved2, 2);
            libc::close(self.saved1);
            libc::close(self.saved2);
            let end = libc::lseek(self.fd, 0, libc::SEEK_END);
            if end > 0 {
                out.resize(end as usize, 0);
                libc::lseek(self.fd, 0, libc::SEEK_SET);
                let mut got = 0usize;
                while got < out.len() {
                    let n = libc::read(self.fd, out.as_mut_ptr().add(got) as *mut libc::c_void, out.len() - got);
                    if n <= 0 {
                        break;
                    }
                    got += n as usize;
                }
                out.truncate(got);
            }
            libc::close(self.fd);
        }
        out
    }
}
