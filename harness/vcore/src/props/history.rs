// What the same thread did just before a case must not matter (C19 states it; every encode/decode property assumes it).
// `prior_ops` performs 0..3 unrelated codec calls - results discarded - before a check's own calls, so that state
// left behind by an earlier call (a memo keyed too coarsely, a scratch buffer not cleared after a refused encode, a cache
// of the previous secret) shows up as a failure of the property that is then checked.
use crate::cx::*;
use crate::gen::*;
use crate::glue::*;
use crate::spec::*;

pub fn prior_ops(t: &mut Tape, cx: &mut Cx, allow_refusal: bool) {
    let n = match t.below(8) {
        0..=4 => 0,
        5 => 1,
        6 => 2,
        _ => 3,
    };
    if n > 0 {
        cx.class("unrelated codec calls were made on the same thread just before the case");
    }
    cx.stage(STAGE_UNATTRIBUTED);
    for _ in 0..n {
        match t.below(7) {
            0 | 1 => {
                let d = gen_data_small(t);
                let _ = crate_encode_msg(&d);
            }
            2 => {
                let k = t.below(4);
                let c = gen_control_k(t, k);
                let _ = crate_encode_msg(&c);
            }
            3 => {
                let b = gen_wire(t);
                let _ = crate_decode(&b, all_opts()[t.below(8)]);
            }
            4 => {
                let a = gen_avp(t);
                let _ = crate_encode_avp(&a);
            }
            5 => {
                let attr = ASSIGNED[t.below(39)];
                let a = SAvp { attr, hidden: false, body: gen_body_max(t, attr, 60) };
                let sl = t.below(12);
                let s = t.blob(sl);
                let rv = t.u32().to_be_bytes();
                let _ = guard(|| {
                    let h = to_crate(&a).hide(&s, &rv.into(), &[], &[0; 16]);
                    h.reveal(&s, &rv.into()).is_ok()
                });
            }
            _ if allow_refusal => {
                // an encode that is refused (oversize), caught
                cx.class("a refused encode was among the calls made just before the case");
                let big = SAvp { attr: [7u16, 11, 8][t.below(3)], hidden: false, body: if t.chance(50) { Body::Blob(vec![0x33; 1018 + t.below(40)]) } else { Body::Blob(vec![0x34; 1500]) } };
                let big = if big.attr == 8 { SAvp { attr: 8, hidden: false, body: Body::Text("x".repeat(1018 + t.below(30))) } } else { big };
                match t.below(3) {
                    0 => {
                        let _ = crate_encode_avp(&big);
                    }
                    1 => {
                        let m = SMsg::Control { length: 0, tunnel: 1, session: 2, ns: 3, nr: 4, avps: vec![SAvp { attr: 0, hidden: false, body: Body::U16(1) }, SAvp { attr: 9, hidden: false, body: Body::U16(7) }, big] };
                        let _ = crate_encode_msg(&m);
                    }
                    _ => {
                        let _ = guard(|| to_crate(&big).hide(b"s", &[9, 9, 9, 9].into(), &[], &[0; 16]));
                    }
                }
            }
            _ => {}
        }
    }
    cx.stage(STAGE_SETUP);
}
