//! Demo for change `b`: the four bitmask AVP kinds keep their 32-bit mask as four wire
//! octets and render `Debug` as the two named flags plus the raw word in hex.
//! Passes with the change, fails on the unmodified crate (derived `Kind { data: <decimal> }`).

use rl2tp::avp::types::{BearerCapabilities, BearerType, FramingCapabilities, FramingType};
use rl2tp::avp::AVP;
use rl2tp::common::{SliceReader, VecWriter};

fn record(attribute_type: u16, word: u32) -> Vec<u8> {
    // mandatory bit (crate numbering 0x01), length 10, vendor 0, type, 4-octet mask
    let mut v = vec![0x01, 10, 0, 0];
    v.extend_from_slice(&attribute_type.to_be_bytes());
    v.extend_from_slice(&word.to_be_bytes());
    v
}

fn decode_one(bytes: &[u8]) -> AVP {
    let mut r = SliceReader::from(bytes);
    let mut v = AVP::try_read_greedy(&mut r);
    assert_eq!(v.len(), 1);
    v.pop().unwrap().unwrap()
}

#[test]
fn debug_shows_flags_and_hex_word() {
    let text = format!("{:?}", FramingCapabilities::new(true, false));
    assert_eq!(
        text,
        "FramingCapabilities { async_framing_supported: true, sync_framing_supported: false, raw: 0x00000040 }"
    );
    let text = format!("{:?}", BearerCapabilities::new(true, false));
    assert_eq!(
        text,
        "BearerCapabilities { digital_access_supported: true, analog_access_supported: false, raw: 0x00000080 }"
    );
    let text = format!("{:?}", BearerType::new(true, true));
    assert_eq!(
        text,
        "BearerType { analog_request: true, digital_request: true, raw: 0x000000c0 }"
    );
    let text = format!("{:?}", FramingType::new(false, false));
    assert_eq!(
        text,
        "FramingType { analog_request: false, digital_request: false, raw: 0x00000000 }"
    );

    // A word from the wire with all sorts of other bits set.
    let avp = decode_one(&record(3, 0xdead_be40));
    let text = format!("{:?}", avp);
    assert!(text.contains("raw: 0xdeadbe40"), "{text}");
    assert!(text.contains("async_framing_supported: true"), "{text}");
    assert!(text.contains("sync_framing_supported: false"), "{text}");
    assert!(!text.contains("data"), "{text}");
    assert!(!text.contains(&0xdead_be40u32.to_string()), "{text}");
}

#[test]
fn values_behave_as_before() {
    for (ty, word) in [
        (3u16, 0xdead_be40u32),
        (4, 0xffff_ffff),
        (18, 0x0000_0080),
        (19, 0x1234_5600),
        (3, 0),
    ] {
        let bytes = record(ty, word);
        let avp = decode_one(&bytes);
        let mut w = VecWriter::new();
        avp.write(&mut w);
        assert_eq!(w.data, bytes, "all 32 bits survive decode then encode");
        assert_eq!(avp.get_length(), 4);
        let (b6, b7) = (word & 0x40 != 0, word & 0x80 != 0);
        match avp {
            AVP::FramingCapabilities(x) => {
                assert_eq!(
                    (x.is_async_framing_supported(), x.is_sync_framing_supported()),
                    (b6, b7)
                )
            }
            AVP::BearerCapabilities(x) => {
                assert_eq!(
                    (x.is_analog_access_supported(), x.is_digital_access_supported()),
                    (b6, b7)
                )
            }
            AVP::BearerType(x) => {
                assert_eq!((x.is_analog_request(), x.is_digital_request()), (b6, b7))
            }
            AVP::FramingType(x) => {
                assert_eq!((x.is_analog_request(), x.is_digital_request()), (b6, b7))
            }
            _ => panic!("unexpected kind"),
        }
    }
    // equality is still equality of the 32-bit word
    assert!(decode_one(&record(18, 0x40)) == AVP::BearerType(BearerType::new(true, false)));
    assert!(decode_one(&record(18, 0x140)) != AVP::BearerType(BearerType::new(true, false)));
    for x in [false, true] {
        for y in [false, true] {
            let v = BearerCapabilities::new(x, y);
            assert_eq!(
                (v.is_digital_access_supported(), v.is_analog_access_supported()),
                (x, y)
            );
        }
    }
}
