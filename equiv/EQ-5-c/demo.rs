// Demo for change `c`: panic message of a refused positional overwrite.
//
// `VecWriter::write_bytes_at` still refuses (panics on) every overwrite that
// does not lie inside the written data and still applies every overwrite that
// does, but the refusal now carries a descriptive message, and an offset so
// large that `offset + len` would wrap is refused by the same guard with the
// same message (instead of an arithmetic-overflow or slice-index panic).

use rl2tp::common::{VecWriter, Writer};
use std::panic::{catch_unwind, AssertUnwindSafe};

fn refusal_message(w: &mut VecWriter, bytes: &[u8], offset: usize) -> String {
    let before = w.data.clone();
    let result = catch_unwind(AssertUnwindSafe(|| w.write_bytes_at(bytes, offset)));
    let payload = result.expect_err("overwrite outside the written data must be refused");
    // A refused overwrite leaves the buffer as it was.
    assert_eq!(w.data, before);
    if let Some(s) = payload.downcast_ref::<String>() {
        s.clone()
    } else if let Some(s) = payload.downcast_ref::<&'static str>() {
        (*s).to_owned()
    } else {
        String::new()
    }
}

#[test]
fn refused_overwrite_has_descriptive_message() {
    let mut w = VecWriter::new();
    w.write_bytes(&[1, 2, 3, 4]);

    assert_eq!(
        refusal_message(&mut w, &[9, 9], 3),
        "VecWriter::write_bytes_at: refused overwrite of 2 octet(s) at offset 3, only 4 octet(s) written"
    );
    assert_eq!(
        refusal_message(&mut w, &[], 5),
        "VecWriter::write_bytes_at: refused overwrite of 0 octet(s) at offset 5, only 4 octet(s) written"
    );
}

#[test]
fn wrapping_offset_is_refused_by_the_same_guard() {
    let mut w = VecWriter::new();
    w.write_bytes(&[1, 2, 3, 4]);

    let text = refusal_message(&mut w, &[9], usize::MAX);
    assert!(
        text.starts_with("VecWriter::write_bytes_at: refused overwrite of 1 octet(s) at offset "),
        "unexpected panic message: {text}"
    );
}

#[test]
fn accepted_overwrites_are_unchanged() {
    let mut w = VecWriter::new();
    w.write_bytes(&[1, 2, 3, 4]);
    w.write_bytes_at(&[7, 8], 2);
    assert_eq!(w.data, [1, 2, 7, 8]);
    w.write_bytes_at(&[5, 6, 7, 8], 0);
    assert_eq!(w.data, [5, 6, 7, 8]);
    w.write_bytes_at(&[], 4);
    assert_eq!(w.data, [5, 6, 7, 8]);
    assert_eq!(w.len(), 4);
}
