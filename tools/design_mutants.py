#!/usr/bin/env python3
"""Generate the mutants planned in DESIGN.md section 4 as patch files (mutants/design/*.diff).
Each is one or two textual edits applied in a scratch worktree of /repo; the diff is stored together with the
checks expected to report it. Nothing is left applied anywhere."""
import os, subprocess, sys, json
V = os.path.dirname(os.path.dirname(os.path.abspath(__file__)))
WT = '/tmp/design-mutants-wt'
S = 'src/'
M = [
 # name, expected checks, [(file, old, new), ...]
 ("m01-avp-header-guard-5", "C01 C02", [(S+'message/avp/header.rs', 'if reader.len() < Self::LENGTH as usize {', 'if reader.len() < Self::LENGTH as usize - 1 {')]),
 ("m02-data-header-min-minus-2", "C01 C02", [(S+'message/data_message.rs', 'let mut minimal_length_minus_flags = 4;', 'let mut minimal_length_minus_flags = 2;')]),
 ("m03-callerrors-length-25", "C02", [(S+'message/avp/types/call_errors.rs', 'const LENGTH: usize = 26;', 'const LENGTH: usize = 25;')]),
 ("m05-q931-fixed-length-2", "C02", [(S+'message/avp/types/q931_cause_code.rs', 'const FIXED_LENGTH: usize = 3;', 'const FIXED_LENGTH: usize = 2;')]),
 ("m06-accm-skip-3", "C05", [(S+'message/avp/types/accm.rs', 'reader.skip_bytes(2);', 'reader.skip_bytes(3);')]),
 ("m07-control-writer-ns-nr-swapped", "C03 C06", [(S+'message/control_message.rs', 'writer.write_u16_be(self.ns);\n        writer.write_u16_be(self.nr);', 'writer.write_u16_be(self.nr);\n        writer.write_u16_be(self.ns);')]),
 ("m08-msgtype-get-code-16-to-15", "C03 C06 C16", [(S+'message/avp/types/message_type.rs', 'SetLinkInfo => 16u16,\n        }', 'SetLinkInfo => 15u16,\n        }')]),
 ("m10-q931-writes-msg-before-code", "C03 C06", [(S+'message/avp/types/q931_cause_code.rs', 'writer.write_u16_be(self.cause_code);\n        writer.write_u8(self.cause_msg);', 'writer.write_u8(self.cause_msg);\n        writer.write_u16_be(self.cause_code);')]),
 ("m11-data-writer-ns-nr-swapped", "C04 C06", [(S+'message/data_message.rs', 'writer.write_u16_be(ns);\n            writer.write_u16_be(nr);', 'writer.write_u16_be(nr);\n            writer.write_u16_be(ns);')]),
 ("m12-data-reader-ids-swapped", "C04 C05", [(S+'message/data_message.rs', 'let tunnel_id = unsafe { reader.read_u16_be_unchecked() };\n        let session_id = unsafe { reader.read_u16_be_unchecked() };\n\n        let maybe_ns_nr', 'let session_id = unsafe { reader.read_u16_be_unchecked() };\n        let tunnel_id = unsafe { reader.read_u16_be_unchecked() };\n\n        let maybe_ns_nr')]),
 ("m13-control-ids-swapped-reader-and-writer", "C05 C06", [
    (S+'message/control_message.rs', 'let tunnel_id = unsafe { reader.read_u16_be_unchecked() };\n        let session_id = unsafe { reader.read_u16_be_unchecked() };\n        let ns', 'let session_id = unsafe { reader.read_u16_be_unchecked() };\n        let tunnel_id = unsafe { reader.read_u16_be_unchecked() };\n        let ns'),
    (S+'message/control_message.rs', 'writer.write_u16_be(self.tunnel_id);\n        writer.write_u16_be(self.session_id);', 'writer.write_u16_be(self.session_id);\n        writer.write_u16_be(self.tunnel_id);')]),
 ("m14-vendorname-lossy-utf8", "C05 C15 C20", [(S+'message/avp/types/vendor_name.rs', "let value = std::str::from_utf8(data.borrow())\n            .map_err(|_| DecodeError::InvalidUtf8(Self::ATTRIBUTE_TYPE))?\n            .to_owned();", "let value = String::from_utf8_lossy(data.borrow()).into_owned();")]),
 ("m15-proxyid-reserved-octet-swapped-both", "C05 C06", [
    (S+'message/avp/types/proxy_authen_id.rs', '// Reserved\n        reader.skip_bytes(1);\n\n        let value = unsafe { reader.read_u8_unchecked() };', 'let value = unsafe { reader.read_u8_unchecked() };\n\n        // Reserved\n        reader.skip_bytes(1);'),
    (S+'message/avp/types/proxy_authen_id.rs', 'writer.write_bytes(&[0x00, self.value]);', 'writer.write_bytes(&[self.value, 0x00]);')]),
 ("m18-challenge-response-min-15", "C15 C20", [(S+'message/avp/types/challenge_response.rs', 'if reader.len() < Self::LENGTH {', 'if reader.len() < Self::LENGTH - 1 {')]),
 ("m19-callerrors-nonzero-reserved", "C06", [(S+'message/avp/types/call_errors.rs', 'writer.write_bytes(&[0x00, 0x00]);', 'writer.write_bytes(&[0x00, 0x01]);')]),
 ("m20-m-bit-false", "C06", [(S+'message/avp.rs', 'const IS_MANDATORY: bool = true;', 'const IS_MANDATORY: bool = false;')]),
 ("m21-writer-vendor-id-1", "C06 C03", [(S+'message/avp.rs', 'const VENDOR_ID: u16 = 0;', 'const VENDOR_ID: u16 = 1;')]),
 ("m22-h-bit-on-random-vector", "C06 C03", [(S+'message/avp.rs', 'let is_hidden = matches!(self, Hidden(_));', 'let is_hidden = matches!(self, Hidden(_) | RandomVector(_));')]),
 ("m23-tx-rx-speed-numbers-swapped-consistently", "C05 C06 C16 C20", [
    (S+'message/avp/types/tx_connect_speed.rs', 'const ATTRIBUTE_TYPE: u16 = 24;', 'const ATTRIBUTE_TYPE: u16 = 38;'),
    (S+'message/avp/types/rx_connect_speed.rs', 'const ATTRIBUTE_TYPE: u16 = 38;', 'const ATTRIBUTE_TYPE: u16 = 24;'),
    (S+'message/avp.rs', '24u16 => TxConnectSpeed(types::TxConnectSpeed::try_read(reader)?),', '24u16 => RxConnectSpeed(types::RxConnectSpeed::try_read(reader)?),'),
    (S+'message/avp.rs', '38u16 => RxConnectSpeed(types::RxConnectSpeed::try_read(reader)?),', '38u16 => TxConnectSpeed(types::TxConnectSpeed::try_read(reader)?),')]),
 ("m24-minimum-bps-little-endian", "C06 C03", [(S+'message/avp/types/minimum_bps.rs', 'writer.write_u32_be(self.value);', 'writer.write_bytes(&self.value.to_le_bytes());')]),
 ("m25-avp-length-assert-removed", "C07", [(S+'message/avp.rs', 'fn make_flags_and_length(is_mandatory: bool, is_hidden: bool, length: usize) -> [u8; 2] {\n        assert!(length <= Self::MAX_LENGTH as usize);\n', 'fn make_flags_and_length(is_mandatory: bool, is_hidden: bool, length: usize) -> [u8; 2] {\n')]),
 ("m26-control-length-assert-removed", "C07", [(S+'message/control_message.rs', '        assert!(length <= u16::MAX as usize);\n', '')]),
 ("m27-resultcode-get-length-forgets-message", "C07", [(S+'message/avp/types/result_code.rs', '            if let Some(message) = &error.error_message {\n                length += message.len()\n            }\n', '')]),
 ("m28-msb-from-length-shr-9", "C07 C06 C03", [(S+'message/avp.rs', 'let msb = ((length >> 8) & 0x3) as u8;', 'let msb = ((length >> 9) & 0x3) as u8;')]),
 ("m29-avps-read-from-parent-reader", "C08 C05", [(S+'message/control_message.rs', 'let mut avp_reader = reader.subreader(length as usize - FIXED_LENGTH);\n        let avp_and_err = AVP::try_read_greedy(&mut avp_reader);', 'let avp_and_err = AVP::try_read_greedy(reader);')]),
 ("m30-vendor-avp-skipped-plus-1", "C08 C05 C15", [(S+'message/avp.rs', 'result.push(Err(DecodeError::UnsupportedVendorId(header.vendor_id)));\n                reader.skip_bytes(header.payload_length as usize);', 'result.push(Err(DecodeError::UnsupportedVendorId(header.vendor_id)));\n                reader.skip_bytes((header.payload_length as usize + 1).min(reader.len()));')]),
 ("m31-data-payload-everything-remaining", "C08 C05 C04", [(S+'message/data_message.rs', 'payload_length = length as usize - header_length;', 'payload_length = reader.len();')]),
 ("m32-length-position-constant-2", "C09", [(S+'message/control_message.rs', 'let length_position = writer.len();', 'let length_position = 2;')]),
 ("m33-avp-start-after-placeholder", "C09 C06", [(S+'message/avp.rs', '        // Save header position\n        let start_position = writer.len();\n\n        // Dummy octets to be overwritten\n        writer.write_bytes(&[0, 0]);', '        // Dummy octets to be overwritten\n        writer.write_bytes(&[0, 0]);\n\n        // Save header position\n        let start_position = writer.len();')]),
 ("m35-control-writer-echoes-self-length", "C10 C03 C06 C07", [(S+'message/control_message.rs', 'writer.write_bytes_at(&(length as u16).to_be_bytes(), length_position);', 'writer.write_bytes_at(&(if self.length != 0 { self.length } else { length as u16 }).to_be_bytes(), length_position);')]),
 ("m36-ns-nr-flag-also-sets-reserved-13-on-data", "C10 C04 C06", [(S+'message/data_message.rs', 'flags.write(writer);\n\n        if let Some(length) = self.length {', 'if self.ns_nr.is_some() {\n            writer.write_u16_be(0x2000 | 0x1000 | 0x0020 | if self.length.is_some() { 0x0200 } else { 0 } | if self.offset.is_some() { 0x4000 } else { 0 } | if self.is_prioritized { 0x8000 } else { 0 });\n        } else {\n            flags.write(writer);\n        }\n\n        if let Some(length) = self.length {')]),
 ("m37-reveal-loop-from-2", "C11 C12", [(S+'message/avp.rs', 'for i in (1..n_chunks).rev() {', 'for i in (2..n_chunks).rev() {')]),
 ("m39-original-length-without-header-in-hide", "C11 C12", [(S+'message/avp.rs', 'let length_octets = (length as u16).to_be_bytes();\n                writer.write_bytes_at(&length_octets, 0);', 'let length_octets = ((length - Header::LENGTH as usize) as u16).to_be_bytes();\n                writer.write_bytes_at(&length_octets, 0);')]),
 ("m40-secret-omitted-from-later-blocks-both", "C12", [
    (S+'message/avp.rs', '                        // Retain only the prefix which is guaranteed to be the shared secret\n                        buffer.truncate(secret.len());\n\n                        // The intermediate value for a given chunk is MD5(secret + previous chunk)\n                        buffer.extend_from_slice(&input[prev_chunk_start..chunk_start]);', '                        buffer.clear();\n\n                        // The intermediate value for a given chunk is MD5(secret + previous chunk)\n                        buffer.extend_from_slice(&input[prev_chunk_start..chunk_start]);'),
    (S+'message/avp.rs', '                    // Retain only the prefix which is guaranteed to be the shared secret\n                    buffer.truncate(secret.len());\n\n                    // The intermediate value for a given chunk is MD5(secret + previous chunk)\n                    buffer.extend_from_slice(&chunk_data[prev_chunk_start..chunk_start]);', '                    buffer.clear();\n\n                    // The intermediate value for a given chunk is MD5(secret + previous chunk)\n                    buffer.extend_from_slice(&chunk_data[prev_chunk_start..chunk_start]);')]),
 ("m41-first-key-secret-type-rv-both", "C12", [
    (S+'message/avp.rs', 'buffer.extend_from_slice(&attribute_type_octets);\n                buffer.extend_from_slice(secret);\n                buffer.extend_from_slice(&random_vector.value);', 'buffer.extend_from_slice(secret);\n                buffer.extend_from_slice(&attribute_type_octets);\n                buffer.extend_from_slice(&random_vector.value);'),
    (S+'message/avp.rs', 'buffer.extend_from_slice(&hidden.attribute_type.to_be_bytes());\n            buffer.extend_from_slice(secret);\n            buffer.extend_from_slice(&random_vector.value);', 'buffer.extend_from_slice(secret);\n            buffer.extend_from_slice(&hidden.attribute_type.to_be_bytes());\n            buffer.extend_from_slice(&random_vector.value);')]),
 ("m43-reveal-range-check-from-0", "C13", [(S+'message/avp.rs', 'if !(Header::LENGTH..=Self::MAX_LENGTH).contains(&total_length) {', 'if !(0..=Self::MAX_LENGTH).contains(&total_length) {')]),
 ("m44-reveal-misalignment-check-removed", "C13", [(S+'message/avp.rs', '            if chunk_data.len() % chunk_size != 0 {\n                return Err(DecodeError::MisalignedHiddenAVP);\n            }\n', '')]),
 ("m45-try-read-also-validates-reserved", "C14", [(S+'message.rs', 'ValidationOptions {\n                reserved: ValidateReserved::No,\n                version: ValidateVersion::Yes,', 'ValidationOptions {\n                reserved: ValidateReserved::Yes,\n                version: ValidateVersion::Yes,')]),
 ("m46-reserved-list-gains-12", "C14 C05", [(S+'message/flags.rs', '[0, 1, 2, 3, 10, 11, 13]', '[0, 1, 2, 3, 10, 11, 12, 13]')]),
 ("m47-version-compared-with-gt", "C14 C05 C20", [(S+'message.rs', 'if version != Self::PROTOCOL_VERSION {', 'if version > Self::PROTOCOL_VERSION {')]),
 ("m49-only-first-error-returned", "C15", [(S+'message/control_message.rs', 'return Err(avp_and_err.into_iter().filter_map(|x| x.err()).collect());', 'return Err(avp_and_err.into_iter().filter_map(|x| x.err()).take(1).collect());')]),
 ("m50-error-list-reversed", "C15", [(S+'message/control_message.rs', 'return Err(avp_and_err.into_iter().filter_map(|x| x.err()).collect());', 'return Err(avp_and_err.into_iter().rev().filter_map(|x| x.err()).collect());')]),
 ("m51-first-avp-rule-dropped", "C15 C05", [(S+'message/control_message.rs', '_ => return Err(vec![DecodeError::ControlMessageTypeNotFirst]),', '_ => (),')]),
 ("m52-unknown-avp-errors-ignored-partial-message", "C15 C05", [(S+'message/control_message.rs', 'if avp_and_err.iter().any(|x| x.is_err()) {', 'if avp_and_err.iter().any(|x| matches!(x, Err(e) if !matches!(e, DecodeError::UnknownAvp(_)))) {')]),
 ("m53-msgtype-16-becomes-17-consistently", "C16 C05 C06", [
    (S+'message/avp/types/message_type.rs', '16u16 => SetLinkInfo,', '17u16 => SetLinkInfo,'),
    (S+'message/avp/types/message_type.rs', 'SetLinkInfo => 16u16,\n        }', 'SetLinkInfo => 17u16,\n        }')]),
 ("m54-errortype-variants-4-5-reordered", "C16 C05", [(S+'message/avp/types/result_code/error.rs', '    InsufficientResources,\n    InvalidSessionId,', '    InvalidSessionId,\n    InsufficientResources,')]),
 ("m55-cdncode-loses-last-variant", "C16", [(S+'message/avp/types/result_code/code.rs', '    CallEstablishTimeout,\n    CallNoFramingDetected,\n}', '    CallEstablishTimeout,\n}')]),
 ("m56-framingtype-accessor-masks-two-bits", "C17", [(S+'message/avp/types/framing_type.rs', 'pub fn is_analog_request(&self) -> bool {\n        ((self.data >> 6) & 0x1) != 0', 'pub fn is_analog_request(&self) -> bool {\n        ((self.data >> 6) & 0x3) != 0')]),
 ("m58-write-bytes-at-assert-strict", "C18", [(S+'common/vec_writer.rs', 'assert!(offset + bytes.len() <= self.data.len());', 'assert!(offset + bytes.len() < self.data.len());')]),
 ("m59-write-bytes-at-assert-weakened-to-offset", "C18", [(S+'common/vec_writer.rs', 'assert!(offset + bytes.len() <= self.data.len());', 'assert!(offset <= self.data.len());\n        let bytes = &bytes[..bytes.len().min(self.data.len() - offset)];')]),
 ("m60-read-u16-advances-by-1", "C18 C05", [(S+'common/slice_reader.rs', 'unsafe fn read_u16_be_unchecked(&mut self) -> u16 {\n        let buf = read_buf_unchecked!(self.data, 2);\n        u16::from_be_bytes(buf)', 'unsafe fn read_u16_be_unchecked(&mut self) -> u16 {\n        let buf: [u8; 2] = self.data.get_unchecked(..2).try_into().unwrap_unchecked();\n        self.data = &self.data[1..];\n        u16::from_be_bytes(buf)')]),
 ("m61-subreader-does-not-advance-parent", "C18 C05 C08", [(S+'common/slice_reader.rs', 'let new_reader = SliceReader::from(&self.data[..length]);\n        self.data = &self.data[length..];\n        new_reader', 'SliceReader::from(&self.data[..length])')]),
 ("m62-skip-n-plus-1", "C18 C05", [(S+'common/slice_reader.rs', 'fn skip_bytes(&mut self, length: usize) {\n        self.data = &self.data[length..];', 'fn skip_bytes(&mut self, length: usize) {\n        let length = if length > 0 { (length + 1).min(self.data.len()) } else { 0 };\n        self.data = &self.data[length..];')]),
 ("m63-eprintln-on-unknown-message-type", "C19", [(S+'message/avp/types/message_type.rs', 'None => Err(DecodeError::UnknownMessageType(id)),', 'None => {\n                eprintln!("unknown message type {id}");\n                Err(DecodeError::UnknownMessageType(id))\n            }')]),
 ("m64-static-leaks-previous-ns", "C19", [(S+'message/control_message.rs', 'let ns = unsafe { reader.read_u16_be_unchecked() };\n        let nr', 'static LAST_NS: std::sync::atomic::AtomicU16 = std::sync::atomic::AtomicU16::new(0);\n        let ns_wire = unsafe { reader.read_u16_be_unchecked() };\n        // sequence numbers never go backwards by more than the window\n        let prev = LAST_NS.swap(ns_wire, std::sync::atomic::Ordering::Relaxed);\n        let ns = if ns_wire == 0 && prev == 0xffff { prev } else { ns_wire };\n        let nr')]),
 ("m65-avp-name-12-13-swapped", "C20", [
    (S+'message/avp.rs', '12u16 => "Q931CauseCode",\n        13u16 => "ChallengeResponse",', '12u16 => "ChallengeResponse",\n        13u16 => "Q931CauseCode",')]),
 ("m66-rx-speed-reports-24-in-incomplete", "C20 C15", [(S+'message/avp/types/rx_connect_speed.rs', 'return Err(DecodeError::IncompleteAVP(Self::ATTRIBUTE_TYPE));', 'return Err(DecodeError::IncompleteAVP(24));')]),
 ("m67-invalid-version-carries-shifted-nibble", "C20", [(S+'message.rs', 'return Err(vec![DecodeError::InvalidVersion(version)]);', 'return Err(vec![DecodeError::InvalidVersion(version << 4)]);')]),
 ("m68-vendor-error-carries-attribute-type", "C20 C15", [(S+'message/avp.rs', 'result.push(Err(DecodeError::UnsupportedVendorId(header.vendor_id)));', 'result.push(Err(DecodeError::UnsupportedVendorId(header.attribute_type)));')]),
]

def sh(*a, **k):
    return subprocess.run(a, capture_output=True, text=True, **k)

sh('git', '-C', '/repo', 'worktree', 'remove', '--force', WT)
r = sh('git', '-C', '/repo', 'worktree', 'add', '-q', '--detach', WT, 'HEAD')
if r.returncode: sys.exit(r.stderr)
out = os.path.join(V, 'mutants', 'design'); os.makedirs(out, exist_ok=True)
index = []
try:
    for name, expected, edits in M:
        sh('git', '-C', WT, 'checkout', '--', '.')
        ok = True
        for f, old, new in edits:
            p = os.path.join(WT, f); s = open(p).read()
            if s.count(old) != 1:
                print(f"{name}: pattern found {s.count(old)} times in {f}"); ok = False; break
            open(p, 'w').write(s.replace(old, new))
        if not ok: continue
        d = sh('git', '-C', WT, 'diff').stdout
        open(os.path.join(out, name + '.diff'), 'w').write(d)
        index.append({"name": name, "expected_checks": expected.split()})
finally:
    sh('git', '-C', '/repo', 'worktree', 'remove', '--force', WT)
json.dump(index, open(os.path.join(out, 'INDEX.json'), 'w'), indent=1)
print(len(index), "mutants written to", out)
