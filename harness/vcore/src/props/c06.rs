// C06 — the encoder emits exactly the specified octets for every message and AVP.
use crate::cx::*;
use crate::gen::*;
use crate::glue::*;
use crate::prop::*;
use crate::props::c03::avp_classes;
use crate::spec::*;
use serde_json::{json, Value};

pub static DEF: PropDef = PropDef {
    id: "C06",
    title: "The encoder emits exactly the specified octets",
    rule: "G-val AVPs (all 39 kinds + opaque hidden AVPs) and control messages, and G-data messages whose Length and Offset Size fields hold arbitrary values (the encoder writes what it is given). \
Oracle: the octets in VecWriter after write = the octets of the independent reference encoder, byte for byte (flag word, big-endian header fields in RFC order, AVP header with M set, vendor id 0, \
H only on hidden AVPs, attribute type number, reserved octets zero, per-kind payload format). Non-trivial = every case; distinct by hash of the reference encoding.",
    assumptions: &["the reference encoder (vcore::spec) is the trusted base"],
    parts,
    run_tape,
    run_enum: no_enum,
    run_concrete,
    both_profiles: true,
    exhaustive_note: "",
};

fn parts(t: Tier) -> Vec<Part> {
    let (a, b, c) = match t {
        Tier::Quick => (1_200_000, 300_000, 900_000),
        Tier::Thorough => (16_000_000, 3_000_000, 10_000_000),
    };
    vec![tape("avps", a, 1200), tape("control", b, 2500), tape("data", c, 300)]
}

fn first_diff(a: &[u8], b: &[u8]) -> usize {
    a.iter().zip(b.iter()).position(|(x, y)| x != y).unwrap_or(a.len().min(b.len()))
}

pub fn check_avp(a: &SAvp, cx: &mut Cx) -> Res {
    cx.eval();
    let mut se = Vec::new();
    encode_avp(a, &mut se);
    cx.stage(STAGE_ARMED);
    let ce = crate_encode_avp(a);
    cx.stage(STAGE_SETUP);
    match ce {
        Caught::Ok(ce) => {
            if ce != se {
                return fail(
                    format!("AVP encoding differs from the specified octets at offset {}", first_diff(&ce, &se)),
                    json!({"avp": format!("{:?}", a), "specified": hex(&se), "crate": hex(&ce)}),
                );
            }
        }
        Caught::Panic(p) => return fail(format!("encoding an AVP within the size limits panicked: {}", p.short()), json!({"avp": format!("{:?}", a)})),
        Caught::Monitor(_) => return fail("unexpected panic payload", json!({})),
    }
    cx.nontrivial(&se);
    avp_classes(a, se.len(), cx);
    if !a.hidden && matches!(a.attr, 32 | 34 | 35) {
        cx.class("reserved octets checked (kinds 32, 34, 35)");
    }
    cx.sample("avps", || json!({"encoding": hex_short(&se), "family": "avps"}));
    Ok(())
}

pub fn check_msg(m: &SMsg, family: &'static str, cx: &mut Cx) -> Res {
    cx.eval();
    let se = encode_message(m);
    cx.stage(STAGE_ARMED);
    let ce = crate_encode_msg(m);
    cx.stage(STAGE_SETUP);
    match ce {
        Caught::Ok(ce) => {
            if ce != se {
                return fail(
                    format!("message encoding differs from the specified octets at offset {}", first_diff(&ce, &se)),
                    json!({"message": format!("{:?}", crate::props::c04::short(m)), "specified": hex_short(&se), "crate": hex_short(&ce)}),
                );
            }
        }
        Caught::Panic(p) => return fail(format!("encoding a message within the size limits panicked: {}", p.short()), json!({"message": format!("{:?}", crate::props::c04::short(m))})),
        Caught::Monitor(_) => return fail("unexpected panic payload", json!({})),
    }
    cx.nontrivial(&se);
    match m {
        SMsg::Control { avps, .. } => {
            cx.class("control message");
            for a in avps {
                avp_classes(a, avp_wire_len(a), cx);
            }
        }
        SMsg::Data { prio, length, ns_nr, offset, .. } => {
            cx.class("data message");
            if *prio {
                cx.class("data header bit P");
            }
            if length.is_some() {
                cx.class("data header bit L");
            }
            if ns_nr.is_some() {
                cx.class("data header bit S");
            }
            if offset.is_some() {
                cx.class("data header bit O");
            }
        }
    }
    cx.sample(family, || json!({"encoding": hex_short(&se), "family": family}));
    Ok(())
}

fn run_tape(part: &str, tape: &[u8], cx: &mut Cx) -> Res {
    let mut t = Tape::new(tape);
    crate::props::history::prior_ops(&mut t, cx, true);
    match part {
        "avps" => check_avp(&gen_avp(&mut t), cx),
        "control" => {
            let m = if t.chance(2) { gen_control_big(&mut t) } else { gen_control(&mut t) };
            check_msg(&m, "control", cx)
        }
        _ => {
            let mut m = gen_data(&mut t);
            // the encoder writes whatever Length / Offset Size it is given
            // lengths a confused caller (or encoder) could compute from the message's own parts
            if let SMsg::Data { length, offset, ns_nr, data, .. } = &mut m {
                if t.chance(25) {
                    let h = 6 + 2 + if ns_nr.is_some() { 4 } else { 0 } + if offset.is_some() { 2 } else { 0 };
                    let n = offset.unwrap_or(0) as usize;
                    let cands = [h + data.len(), h + n + data.len(), data.len(), h, (h + data.len()).saturating_sub(n), h + data.len() + 2, h + data.len() - 2];
                    *length = Some((cands[t.below(7)] & 0xffff) as u16);
                }
            }
            if let SMsg::Data { length, offset, .. } = &mut m {
                if t.chance(50) {
                    *length = if t.chance(80) { Some(t.b_u16()) } else { None };
                }
                if t.chance(50) {
                    *offset = if t.chance(80) { Some(t.b_u16()) } else { None };
                }
            }
            check_msg(&m, "data", cx)
        }
    }
}

fn run_concrete(case: &Value, _cx: &mut Cx) -> Res {
    fail("C06 has no concrete case format (replay the tape)", case.clone())
}
