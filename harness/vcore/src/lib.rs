//! vcore: reference model, generators, monitors and property oracles for the rl2tp checks.
pub mod capture;
pub mod cx;
pub mod gen;
pub mod glue;
pub mod md5;
pub mod mon;
pub mod prop;
pub mod props;
pub mod selftest;
pub mod spec;
