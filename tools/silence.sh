#!/bin/bash
# tools/silence.sh <tier> <seed> [seed ...]   run every check with each seed on the unchanged tree; any non-zero exit is listed
cd "$(dirname "$0")/.." || exit 2
tier="$1"; shift
export VERIF_EVIDENCE_DIR="$(pwd)/target/silence-evidence"; mkdir -p "$VERIF_EVIDENCE_DIR"
bad=0
for seed in "$@"; do
  for i in 01 02 03 04 05 06 07 08 09 10 11 12 13 14 15 16 17 18 19 20; do
    out=$(VERIF_SEED=$seed ./check C$i "$tier" 2>&1); rc=$?
    if [ $rc -ne 0 ]; then bad=$((bad+1)); echo "seed=$seed C$i exit=$rc: $(echo "$out" | grep -E 'VIOLATION|INCONCLUSIVE|reason' | head -3 | tr '\n' ' ')"; fi
  done
  echo "seed=$seed done (non-zero exits so far: $bad)"
done
exit $bad
