#![no_main]
// raw hidden values: [attr:2][rv:4][secret_len:1][secret][value...]
mod common;
use libfuzzer_sys::fuzz_target;
use serde_json::json;
use vcore::cx::hex;

fuzz_target!(|data: &[u8]| {
    if data.len() < 7 {
        return;
    }
    let c = common::conf();
    let attr = ((data[0] as u64) << 8) | data[1] as u64;
    let sl = (data[6] as usize % 33).min(data.len() - 7);
    let case = json!({"attribute_type": attr, "random_vector": hex(&data[2..6]), "secret": hex(&data[7..7 + sl]), "hidden_value": hex(&data[7 + sl..])});
    let r = common::CX.with(|cx| (c.def.run_concrete)(&case, &mut cx.borrow_mut()));
    common::verdict(r);
});
