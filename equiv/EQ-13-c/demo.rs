// Demo for change `c`: the MessageType code table is no longer a compile-time perfect-hash map
// but a process-wide `OnceLock` table that is built on first use by inverting the encoder's
// `get_code`.
//
// Results are unchanged for all 65536 codes. What can be seen from outside is the allocation
// pattern: the very first MessageType decode of the process (here raced by several threads,
// some of them calling from a destructor that runs during unwinding) allocates the table,
// and no later decode on any thread or in any calling context allocates anything.
//
// PASSES with the change, FAILS without it (original: the first decode allocates nothing).

use rl2tp::avp::types::MessageType;
use rl2tp::avp::AVP;
use rl2tp::common::{DecodeError, SliceReader, VecWriter};
use std::alloc::{GlobalAlloc, Layout, System};
use std::cell::Cell;
use std::sync::{mpsc, Arc, Barrier};

struct Counting;

thread_local! {
    static ALLOCATIONS: Cell<u64> = const { Cell::new(0) };
}

#[inline]
fn bump() {
    let _ = ALLOCATIONS.try_with(|c| c.set(c.get() + 1));
}

unsafe impl GlobalAlloc for Counting {
    unsafe fn alloc(&self, layout: Layout) -> *mut u8 {
        bump();
        System.alloc(layout)
    }
    unsafe fn alloc_zeroed(&self, layout: Layout) -> *mut u8 {
        bump();
        System.alloc_zeroed(layout)
    }
    unsafe fn realloc(&self, ptr: *mut u8, layout: Layout, new_size: usize) -> *mut u8 {
        bump();
        System.realloc(ptr, layout, new_size)
    }
    unsafe fn dealloc(&self, ptr: *mut u8, layout: Layout) {
        System.dealloc(ptr, layout)
    }
}

#[global_allocator]
static GLOBAL: Counting = Counting;

fn counted<R>(f: impl FnOnce() -> R) -> (R, u64) {
    let before = ALLOCATIONS.with(|c| c.get());
    let r = f();
    let after = ALLOCATIONS.with(|c| c.get());
    (r, after - before)
}

fn decode(code: u16) -> Result<MessageType, DecodeError> {
    let octets = code.to_be_bytes();
    let mut r = SliceReader::from(&octets);
    MessageType::try_read(&mut r)
}

fn expected(code: u16) -> Result<MessageType, DecodeError> {
    use MessageType::*;
    Ok(match code {
        1 => StartControlConnectionRequest,
        2 => StartControlConnectionReply,
        3 => StartControlConnectionConnected,
        4 => StopControlConnectionNotification,
        6 => Hello,
        7 => OutgoingCallRequest,
        8 => OutgoingCallReply,
        9 => OutgoingCallConnected,
        10 => IncomingCallRequest,
        11 => IncomingCallReply,
        12 => IncomingCallConnected,
        14 => CallDisconnectNotify,
        15 => WanErrorNotify,
        16 => SetLinkInfo,
        x => return Err(DecodeError::UnknownMessageType(x)),
    })
}

type Report = (u16, Result<MessageType, DecodeError>, u64);

struct DecodeOnDrop(u16, mpsc::Sender<Report>);

impl Drop for DecodeOnDrop {
    fn drop(&mut self) {
        let (r, n) = counted(|| decode(self.0));
        let _ = self.1.send((self.0, r, n));
    }
}

thread_local! {
    static AT_EXIT: std::cell::RefCell<Option<DecodeOnDrop>> = const { std::cell::RefCell::new(None) };
}

// A single test, so that this really is the first use in the process.
#[test]
fn table_is_built_once_on_first_use_and_results_never_change() {
    std::panic::set_hook(Box::new(|_| {})); // keep the deliberate unwinding below quiet

    // ---- phase 1: eight threads race for the first use -------------------------------------
    const RACERS: u16 = 8;
    let barrier = Arc::new(Barrier::new(RACERS as usize));
    let (tx, rx) = mpsc::channel::<Report>();
    let handles: Vec<_> = (0..RACERS)
        .map(|i| {
            let barrier = barrier.clone();
            let tx = tx.clone();
            std::thread::spawn(move || {
                let code = i * 3; // 0, 3, 6, .. 21: assigned and unassigned codes
                barrier.wait();
                if i % 2 == 0 {
                    let (r, n) = counted(|| decode(code));
                    tx.send((code, r, n)).unwrap();
                } else {
                    // first use from inside a destructor that runs during unwinding
                    let _ = std::panic::catch_unwind(move || {
                        let _guard = DecodeOnDrop(code, tx);
                        panic!("unwinding on purpose");
                    });
                }
            })
        })
        .collect();
    for h in handles {
        h.join().unwrap();
    }
    let _ = std::panic::take_hook(); // back to the default hook: failures below are reported
    let first: Vec<Report> = rx.try_iter().collect();
    assert_eq!(first.len(), RACERS as usize);
    for (code, r, _) in &first {
        assert_eq!(r, &expected(*code), "code {code} during the race");
    }
    let building: u64 = first.iter().map(|x| x.2).sum();
    assert!(
        building >= 1,
        "the first use builds the table on the heap (saw {building} allocations)"
    );
    assert!(
        first.iter().filter(|x| x.2 > 0).count() == 1,
        "exactly one of the racing threads builds it: {first:?}"
    );

    // ---- phase 2: never again, in any context ----------------------------------------------
    let (_, n) = counted(|| {
        for code in 0..=u16::MAX {
            assert_eq!(decode(code), expected(code));
        }
    });
    assert_eq!(n, 0);

    // fresh thread, and a thread-local destructor at thread exit
    let tx2 = tx.clone();
    std::thread::spawn(move || {
        let (r, n) = counted(|| decode(16));
        assert_eq!((r, n), (expected(16), 0));
        AT_EXIT.with(|s| *s.borrow_mut() = Some(DecodeOnDrop(5, tx2)));
    })
    .join()
    .unwrap();
    assert_eq!(rx.try_iter().collect::<Vec<_>>(), vec![(5, expected(5), 0)]);

    // concurrent exhaustive agreement, and one-to-one with the encoder
    let workers: Vec<_> = (0..4)
        .map(|_| {
            std::thread::spawn(|| {
                (0..=u16::MAX)
                    .filter(|c| decode(*c) != expected(*c))
                    .count()
            })
        })
        .collect();
    for w in workers {
        assert_eq!(w.join().unwrap(), 0);
    }
    let mut seen = 0;
    for code in 0..=u16::MAX {
        if let Ok(t) = decode(code) {
            let mut w = VecWriter::new();
            AVP::MessageType(t).write(&mut w);
            assert_eq!(w.data, [&[0x01, 8, 0, 0, 0, 0][..], &code.to_be_bytes()].concat());
            seen += 1;
        }
    }
    assert_eq!(seen, 14);
}
