// C02 — the decoder never reads outside its input, whatever reader backs it.
use crate::cx::*;
use crate::gen::*;
use crate::glue::*;
use crate::mon::*;
use crate::prop::*;
use crate::props::c01::{grid_input, GRID_SIZE};
use crate::spec::*;
use rl2tp::avp::AVP;
use rl2tp::common::{Reader, SliceReader};
use serde_json::{json, Value};

pub static DEF: PropDef = PropDef {
    id: "C02",
    title: "The decoder never reads outside its input, whatever reader backs it",
    rule: "Inputs as C01 (G-wire tapes under all 8 option sets, the same octets as bare AVP lists, the attribute-type x payload-length grid), plus each AVP kind's public try_read \
called directly on payloads of every length 0..40 (2 fills) and on generated payloads (a valid value of the kind of up to 1017 octets, then possibly cut, extended or corrupted; result also compared with the reference payload format), plus G-hidden values for reveal. Every input is decoded through MonReader (a harness reader that checks each \
fixed-width read, skip and sub-range request against the octets remaining before serving it), through OwnedReader (T = Vec<u8>) and through SliceReader; zero contract \
violations are allowed and the three results (values, errors, octets left) must be identical. Non-trivial = the decoder issued at least one unchecked request; distinct by hash of (input, leg).",
    assumptions: &[
        "reveal builds its own SliceReader: its leg relies on debug-assertion builds (std unsafe-precondition aborts, reslice panics) in a child process rather than on the monitor",
        "conforming reader = one that serves any request within the remaining octets and returns None from bytes(n) for n > remaining",
    ],
    parts,
    run_tape,
    run_enum,
    run_concrete,
    both_profiles: true,
    exhaustive_note: "type x payload-length grid and per-type try_read x payload length 0..40 are enumerated completely",
};

const PER_TYPE_SIZE: u64 = 38 * 41 * 2;

fn parts(t: Tier) -> Vec<Part> {
    let (a, b) = match t {
        Tier::Quick => (600_000, 600_000),
        Tier::Thorough => (10_000_000, 6_000_000),
    };
    vec![tape("wire", a, 900), tape("reveal", b, 400), tape("pertype-random", b, 1300), enumerate("grid", GRID_SIZE), enumerate("pertype", PER_TYPE_SIZE)]
}

fn record_log(cx: &mut Cx, l: &Log) {
    const CALLS: [&str; 6] = ["calls subreader", "calls skip", "calls u8", "calls u16", "calls u32", "calls u64"];
    const SLACK: [&str; 6] = ["min slack subreader", "min slack skip", "min slack u8", "min slack u16", "min slack u32", "min slack u64"];
    for i in 0..6 {
        if l.per[i].0 > 0 {
            cx.class_n(CALLS[i], l.per[i].0);
            cx.min(SLACK[i], l.per[i].1 as u64);
        }
    }
    if l.bytes_calls > 0 {
        cx.class_n("calls bytes", l.bytes_calls);
    }
    if l.bytes_refused > 0 {
        cx.class_n("calls bytes refused (None)", l.bytes_refused);
    }
}

fn violation(v: &ContractViolation, what: Value) -> Res {
    fail(format!("reader contract violated: {}({}) requested with {} octets remaining", v.method, v.requested, v.remaining), what)
}

pub fn check_message(b: &[u8], family: &'static str, cx: &mut Cx) -> Res {
    for o in all_opts() {
        cx.eval();
        let render = || json!({"input": hex(b), "opts": opts_str(o), "call": "Message::try_read_validate"});
        let (mut mr, log) = MonReader::new(b);
        cx.stage(STAGE_UNATTRIBUTED);
        let r_mon = guard(|| decode_via(&mut mr, o));
        let l = log.borrow().clone();
        let r_mon = match r_mon {
            Caught::Ok(r) => r,
            Caught::Monitor(p) => {
                return match p.downcast_ref::<ContractViolation>() {
                    Some(v) => violation(v, render()),
                    None => fail("unexpected panic payload", render()),
                }
            }
            Caught::Panic(_) => {
                cx.class("decoder panicked on its own (C01 territory)");
                continue;
            }
        };
        record_log(cx, &l);
        if l.calls > 0 {
            cx.nontrivial(&(b, 0u8, o.reserved, o.version, o.unused));
        }
        // the same input through a reader with T = Vec<u8> and through SliceReader
        let mut or = OwnedReader::new(b);
        let r_own = match guard(|| decode_via(&mut or, o)) {
            Caught::Ok(r) => r,
            Caught::Monitor(p) => {
                return match p.downcast_ref::<ContractViolation>() {
                    Some(v) => violation(v, render()),
                    None => fail("unexpected panic payload", render()),
                }
            }
            Caught::Panic(p) => return fail(format!("decoding through OwnedReader panicked where MonReader did not: {}", p.short()), render()),
        };
        cx.stage(STAGE_ARMED);
        let mut sr = SliceReader::from(b);
        let r_sl = match guard(|| decode_via(&mut sr, o)) {
            Caught::Ok(r) => r,
            Caught::Panic(p) => return fail(format!("decoding through SliceReader panicked where MonReader did not: {}", p.short()), render()),
            Caught::Monitor(_) => return fail("unexpected panic payload", render()),
        };
        cx.stage(STAGE_SETUP);
        if r_mon != r_own {
            let mut r = render();
            r["mon"] = json!(format!("{:?}", r_mon));
            r["owned"] = json!(format!("{:?}", r_own));
            return fail("result through OwnedReader (T = Vec<u8>) differs from result through MonReader", r);
        }
        if r_mon != r_sl {
            let mut r = render();
            r["mon"] = json!(format!("{:?}", r_mon));
            r["slice"] = json!(format!("{:?}", r_sl));
            return fail("result through SliceReader differs from result through MonReader", r);
        }
        cx.class(if r_mon.0.is_ok() { "three readers agree: Ok" } else { "three readers agree: Err" });
        cx.sample(family, || json!({"input": hex_short(b), "opts": opts_str(o), "monitored_calls": l.calls, "family": family}));
    }
    Ok(())
}

pub fn check_avps(b: &[u8], family: &'static str, cx: &mut Cx) -> Res {
    cx.eval();
    let render = || json!({"avp_region": hex(b), "call": "AVP::try_read_greedy"});
    let (mut mr, log) = MonReader::new(b);
    cx.stage(STAGE_UNATTRIBUTED);
    let r_mon = match guard(|| decode_avps_via(&mut mr)) {
        Caught::Ok(r) => r,
        Caught::Monitor(p) => {
            return match p.downcast_ref::<ContractViolation>() {
                Some(v) => violation(v, render()),
                None => fail("unexpected panic payload", render()),
            }
        }
        Caught::Panic(_) => {
            cx.class("decoder panicked on its own (C01 territory)");
            return Ok(());
        }
    };
    let l = log.borrow().clone();
    record_log(cx, &l);
    if l.calls > 0 {
        cx.nontrivial(&(b, 1u8));
    }
    let mut or = OwnedReader::new(b);
    let r_own = match guard(|| decode_avps_via(&mut or)) {
        Caught::Ok(r) => r,
        Caught::Monitor(p) => {
            return match p.downcast_ref::<ContractViolation>() {
                Some(v) => violation(v, render()),
                None => fail("unexpected panic payload", render()),
            }
        }
        Caught::Panic(p) => return fail(format!("AVP list through OwnedReader panicked where MonReader did not: {}", p.short()), render()),
    };
    cx.stage(STAGE_ARMED);
    let mut sr = SliceReader::from(b);
    let r_sl = match guard(|| decode_avps_via(&mut sr)) {
        Caught::Ok(r) => r,
        Caught::Panic(p) => return fail(format!("AVP list through SliceReader panicked where MonReader did not: {}", p.short()), render()),
        Caught::Monitor(_) => return fail("unexpected panic payload", render()),
    };
    cx.stage(STAGE_SETUP);
    if r_mon != r_own || r_mon != r_sl {
        let mut r = render();
        r["mon"] = json!(format!("{:?}", r_mon));
        r["owned"] = json!(format!("{:?}", r_own));
        r["slice"] = json!(format!("{:?}", r_sl));
        return fail("AVP list results differ between reader implementations", r);
    }
    cx.sample(family, || json!({"avp_region": hex_short(b), "monitored_calls": l.calls, "family": family}));
    Ok(())
}

fn per_type_attr(i: usize) -> u16 {
    // the 38 kinds with a public try_read (all assigned types but 39)
    ASSIGNED[i]
}

fn check_per_type(index: u64, cx: &mut Cx) -> Res {
    let mut i = index as usize;
    let fill = i % 2;
    i /= 2;
    let plen = i % 41;
    i /= 41;
    let attr = per_type_attr(i % 38);
    let payload: Vec<u8> = (0..plen).map(|k| if fill == 0 { (k == 1) as u8 } else { 0x41 + (k % 20) as u8 }).collect();
    check_per_type_payload(attr, &payload, "pertype", cx)
}

/// a generated payload for a kind's own try_read: a valid value of the kind, then possibly cut, extended or corrupted
fn gen_per_type(t: &mut Tape) -> (u16, Vec<u8>) {
    let attr = per_type_attr(t.below(38));
    let mut p = Vec::new();
    encode_payload(&gen_body(t, attr), &mut p);
    match t.below(8) {
        0 => {
            let n = t.below(p.len() + 1);
            p.truncate(n);
        }
        1 => {
            let n = 1 + t.below(40);
            let x = t.raw(n);
            p.extend_from_slice(&x);
        }
        2 if !p.is_empty() => {
            let i = t.below(p.len());
            p[i] = 0xff - (t.byte() & 0x3f);
        }
        3 => {
            let min = fmt_of(attr).map(min_len).unwrap_or(0);
            p.truncate(min.saturating_sub(1));
        }
        4 => {
            let min = fmt_of(attr).map(min_len).unwrap_or(0);
            p.truncate(min);
        }
        _ => {}
    }
    (attr, p)
}

fn check_per_type_payload(attr: u16, payload: &[u8], family: &'static str, cx: &mut Cx) -> Res {
    let plen = payload.len();
    let fill = 0usize;
    cx.eval();
    let render = || json!({"attribute_type": attr, "payload": hex(payload), "call": "types::<Kind>::try_read"});
    let (mut mr, log) = MonReader::new(payload);
    let r_mon = match guard(|| per_type_try_read(attr, &mut mr).map(|r| (r, mr.len()))) {
        Caught::Ok(r) => r,
        Caught::Monitor(p) => {
            return match p.downcast_ref::<ContractViolation>() {
                Some(v) => violation(v, render()),
                None => fail("unexpected panic payload", render()),
            }
        }
        Caught::Panic(p) => return fail(format!("per-type try_read panicked: {}", p.short()), render()),
    };
    let l = log.borrow().clone();
    record_log(cx, &l);
    let min = fmt_of(attr).map(min_len).unwrap_or(0);
    cx.class(if plen + 1 == min {
        "per-type payload = minimum - 1"
    } else if plen == min {
        "per-type payload = minimum"
    } else if plen == min + 1 {
        "per-type payload = minimum + 1"
    } else {
        "per-type payload other"
    });
    cx.nontrivial(&(attr, payload, fill, 2u8));
    let mut or = OwnedReader::new(payload);
    let r_own = match guard(|| per_type_try_read(attr, &mut or).map(|r| (r, or.len()))) {
        Caught::Ok(r) => r,
        _ => return fail("per-type try_read through OwnedReader panicked where MonReader did not", render()),
    };
    cx.stage(STAGE_ARMED);
    let mut sr = SliceReader::from(payload);
    let r_sl = match guard(|| per_type_try_read(attr, &mut sr).map(|r| (r, sr.len()))) {
        Caught::Ok(r) => r,
        _ => return fail("per-type try_read through SliceReader panicked where MonReader did not", render()),
    };
    cx.stage(STAGE_SETUP);
    if r_mon != r_own || r_mon != r_sl {
        let mut r = render();
        r["mon"] = json!(format!("{:?}", r_mon));
        r["owned"] = json!(format!("{:?}", r_own));
        r["slice"] = json!(format!("{:?}", r_sl));
        return fail("per-type results differ between reader implementations", r);
    }
    // the per-type reader must agree with the reference on acceptance (it is the same decode step)
    let spec = decode_payload(attr, payload);
    if let Some((r, _)) = &r_mon {
        match (r, &spec) {
            (Ok(a), Ok(body)) => {
                if a.attr != attr || a.hidden || a.body != *body {
                    return fail(format!("per-type try_read value {:?} differs from the reference payload format {:?}", a, body), render());
                }
            }
            (Err(_), Err(_)) => {}
            _ => return fail("per-type try_read acceptance differs from the reference payload format", render()),
        }
    }
    cx.sample(family, || json!({"attribute_type": attr, "payload": hex_short(payload), "monitored_calls": l.calls, "family": family}));
    Ok(())
}

/// reveal constructs its own SliceReader: out-of-range requests show as a panic located in the reader
/// (reslice) or as a process abort (std unsafe-precondition check, debug-assertion builds only)
pub fn check_reveal(h: &HiddenCase, cx: &mut Cx) -> Res {
    cx.eval();
    let render = || json!({"attribute_type": h.attr, "hidden_value": hex(&h.value), "secret": hex(&h.secret), "random_vector": hex(&h.rv), "call": "AVP::reveal"});
    let a = AVP::Hidden(rl2tp::avp::types::Hidden { attribute_type: h.attr, value: h.value.clone() });
    cx.stage(STAGE_ARMED);
    let r = guard(|| a.reveal(&h.secret, &h.rv.into()).map(|x| from_crate(&x)));
    cx.stage(STAGE_SETUP);
    match r {
        Caught::Ok(r) => {
            if !h.value.is_empty() && h.value.len() % 16 == 0 {
                cx.nontrivial(&(&h.value, &h.secret, h.attr, 3u8));
                cx.class(if r.is_ok() { "reveal Ok" } else { "reveal Err" });
                cx.sample("reveal", || json!({"attribute_type": h.attr, "hidden_value": hex_short(&h.value), "secret": hex(&h.secret), "result": if r.is_ok() { "Ok" } else { "Err" }, "family": "reveal"}));
            } else {
                cx.class("reveal: empty or misaligned value");
            }
            Ok(())
        }
        Caught::Panic(p) => {
            if p.file.ends_with("slice_reader.rs") {
                return fail(format!("reveal issued an out-of-range request to its reader: {}", p.short()), render());
            }
            cx.class("reveal panicked outside the reader (C13 territory)");
            Ok(())
        }
        Caught::Monitor(_) => fail("unexpected panic payload", render()),
    }
}

fn run_tape(part: &str, tape: &[u8], cx: &mut Cx) -> Res {
    let mut t = Tape::new(tape);
    match part {
        "wire" => {
            let b = gen_wire(&mut t);
            check_message(&b, "wire", cx)?;
            check_avps(&b, "wire-as-avps", cx)?;
            if b.len() > 12 {
                check_avps(&b[12..], "wire-body-as-avps", cx)?;
            }
            Ok(())
        }
        "pertype-random" => {
            let (attr, p) = gen_per_type(&mut t);
            check_per_type_payload(attr, &p, "pertype-random", cx)
        }
        _ => {
            let h = gen_hidden(&mut t);
            check_reveal(&h, cx)
        }
    }
}

fn run_enum(part: &str, index: u64, cx: &mut Cx) -> Res {
    match part {
        "grid" => {
            let b = grid_input(index);
            check_message(&b, "grid", cx)?;
            check_avps(&b[12..], "grid", cx)
        }
        _ => check_per_type(index, cx),
    }
}

fn run_concrete(case: &Value, cx: &mut Cx) -> Res {
    if let Some(b) = case.get("input").and_then(|x| x.as_str()).and_then(unhex) {
        check_message(&b, "concrete", cx)?;
        return check_avps(&b, "concrete", cx);
    }
    if let Some(b) = case.get("avp_region").and_then(|x| x.as_str()).and_then(unhex) {
        return check_avps(&b, "concrete", cx);
    }
    if let Some(v) = case.get("hidden_value").and_then(|x| x.as_str()).and_then(unhex) {
        let attr = case.get("attribute_type").and_then(|x| x.as_u64()).unwrap_or(0) as u16;
        let secret = case.get("secret").and_then(|x| x.as_str()).and_then(unhex).unwrap_or_default();
        let rv = case.get("random_vector").and_then(|x| x.as_str()).and_then(unhex).unwrap_or(vec![0; 4]);
        let mut r = [0u8; 4];
        r.copy_from_slice(&rv[..4.min(rv.len())]);
        return check_reveal(&HiddenCase { attr, value: v, secret, rv: r, crafted: None }, cx);
    }
    fail("bad concrete case", case.clone())
}
