// Property registry: each of the 20 properties is a PropDef whose cases are pure functions
// of a byte tape (randomised parts), of an index (enumerated parts) or of a concrete JSON
// case (regressions / minimised replays).
use crate::cx::{Cx, Res};
use serde_json::Value;

#[derive(Clone, Copy, Debug, PartialEq, Eq)]
pub enum Tier {
    Quick,
    Thorough,
}

#[derive(Clone, Debug)]
pub enum PartKind {
    /// `cases` generated tapes in total (split over the shards), tape length 0..=max_tape
    Tape { cases: u64, max_tape: usize },
    /// every index in 0..size (split over the shards); the sub-space is covered completely
    Enum { size: u64 },
}

#[derive(Clone, Debug)]
pub struct Part {
    pub name: &'static str,
    pub kind: PartKind,
}

pub fn tape(name: &'static str, cases: u64, max_tape: usize) -> Part {
    Part { name, kind: PartKind::Tape { cases, max_tape } }
}
pub fn enumerate(name: &'static str, size: u64) -> Part {
    Part { name, kind: PartKind::Enum { size } }
}

pub struct PropDef {
    pub id: &'static str,
    pub title: &'static str,
    /// how cases are generated and what makes one non-trivial / distinct
    pub rule: &'static str,
    pub assumptions: &'static [&'static str],
    pub parts: fn(Tier) -> Vec<Part>,
    pub run_tape: fn(part: &str, tape: &[u8], cx: &mut Cx) -> Res,
    pub run_enum: fn(part: &str, index: u64, cx: &mut Cx) -> Res,
    pub run_concrete: fn(case: &Value, cx: &mut Cx) -> Res,
    /// run in both build profiles (vdbg and vrel)?  false = vrel only
    pub both_profiles: bool,
    /// names of the enumerated sub-spaces that are covered completely (for evidence)
    pub exhaustive_note: &'static str,
}

pub fn no_enum(_part: &str, _index: u64, _cx: &mut Cx) -> Res {
    Ok(())
}

pub fn registry() -> Vec<&'static PropDef> {
    crate::props::all()
}

pub fn find(id: &str) -> Option<&'static PropDef> {
    registry().into_iter().find(|p| p.id == id)
}
