use crate::prop::PropDef;

pub mod history;
pub mod c01;
pub mod c02;
pub mod c03;
pub mod c04;
pub mod c06;
pub mod c07;
pub mod c08;
pub mod c09;
pub mod c10;
pub mod c11;
pub mod c12;
pub mod c13;
pub mod c14;
pub mod c15;
pub mod c16;
pub mod c17;
pub mod c18;
pub mod c19;
pub mod c20;
pub mod c05;

pub fn all() -> Vec<&'static PropDef> {
    vec![&c01::DEF, &c02::DEF, &c03::DEF, &c04::DEF, &c06::DEF, &c07::DEF, &c08::DEF, &c09::DEF, &c10::DEF, &c11::DEF, &c12::DEF, &c13::DEF, &c14::DEF, &c15::DEF, &c16::DEF, &c17::DEF, &c18::DEF, &c19::DEF, &c20::DEF, &c05::DEF]
}

pub fn c07_abbrev(a: &crate::spec::SAvp) -> crate::spec::SAvp {
    c07::abbreviate(a)
}
