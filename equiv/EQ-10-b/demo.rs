// Demo for change `b`: an oversize control message is refused as soon as the
// running size passes 65535 octets, not after all AVPs have been written.
//
// With the change: the panic happens right after the AVP that crosses the
// limit, the writer holds the octets up to and including that AVP only, and the
// message is an explicit one. In the normal (accepted) path the encoder asks
// the writer for its length once more per AVP.
// Without the change: every AVP is written first and `assert!(length <= u16::MAX)`
// fires at the very end.

use rl2tp::avp::types::{HostName, MessageType};
use rl2tp::avp::AVP;
use rl2tp::common::{SliceReader, VecWriter, Writer};
use rl2tp::{ControlMessage, Message};
use std::cell::Cell;
use std::panic::{catch_unwind, AssertUnwindSafe};

fn panic_text(payload: Box<dyn std::any::Any + Send>) -> String {
    if let Some(s) = payload.downcast_ref::<String>() {
        s.clone()
    } else if let Some(s) = payload.downcast_ref::<&'static str>() {
        (*s).to_owned()
    } else {
        String::new()
    }
}

fn message(n_full_avps: usize) -> Message<Vec<u8>> {
    // One Message Type AVP (8 octets) followed by AVPs of the maximum size (1023 octets)
    let mut avps = vec![AVP::MessageType(MessageType::Hello)];
    for i in 0..n_full_avps {
        avps.push(AVP::HostName(HostName {
            value: vec![i as u8; 1017],
        }));
    }
    Message::Control(ControlMessage {
        length: 0,
        tunnel_id: 7,
        session_id: 8,
        ns: 9,
        nr: 10,
        avps,
    })
}

/// A plain appending writer that counts how often its length is asked for.
#[derive(Default)]
struct CountingWriter {
    inner: VecWriter,
    len_calls: Cell<usize>,
}

impl Writer for CountingWriter {
    fn is_empty(&self) -> bool {
        self.inner.is_empty()
    }
    fn len(&self) -> usize {
        self.len_calls.set(self.len_calls.get() + 1);
        self.inner.len()
    }
    fn write_bytes(&mut self, bytes: &[u8]) {
        self.inner.write_bytes(bytes)
    }
    fn write_bytes_at(&mut self, bytes: &[u8], offset: usize) {
        self.inner.write_bytes_at(bytes, offset)
    }
    fn write_u8(&mut self, value: u8) {
        self.inner.write_u8(value)
    }
    fn write_u16_be(&mut self, value: u16) {
        self.inner.write_u16_be(value)
    }
    fn write_u32_be(&mut self, value: u32) {
        self.inner.write_u32_be(value)
    }
    fn write_u64_be(&mut self, value: u64) {
        self.inner.write_u64_be(value)
    }
}

#[test]
fn oversize_control_message_is_refused_at_the_avp_that_crosses_the_limit() {
    std::panic::set_hook(Box::new(|_| {}));

    // 12 + 8 + 80 * 1023 = 81860 octets: too large. The limit is crossed by the 65th
    // full-size AVP: 12 + 8 + 64 * 1023 = 65492 <= 65535 < 66515 = 12 + 8 + 65 * 1023
    let msg = message(80);
    let mut w = VecWriter::new();
    w.write_bytes(b"prefix");
    let result = catch_unwind(AssertUnwindSafe(|| msg.write(&mut w)));
    let text = panic_text(result.expect_err("an oversize control message must be refused"));

    assert_eq!(&w.data[..6], b"prefix");
    assert_eq!(w.data.len(), 6 + 66515, "panic message was: {text}");
    assert!(text.contains("66515 octets"), "panic message was: {text}");
    // The dummy length octets were never overwritten: nothing usable was emitted
    assert_eq!(&w.data[8..10], &[0, 0]);

    // The largest accepted message of this shape is encoded as before
    let msg = message(64);
    let mut w = CountingWriter::default();
    msg.write(&mut w);
    assert_eq!(w.inner.data.len(), 65492);
    assert_eq!(&w.inner.data[2..4], &65492u16.to_be_bytes());
    let decoded = Message::<&[u8]>::try_read(&mut SliceReader::from(&w.inner.data)).unwrap();
    match (&decoded, &msg) {
        (Message::Control(d), Message::Control(m)) => {
            assert_eq!(d.length, 65492);
            assert_eq!(d.avps, m.avps);
        }
        _ => panic!("not a control message"),
    }

    // Three length queries for the message (start, length field position, end) and,
    // with the change, three instead of two for each of the 65 AVPs
    assert_eq!(w.len_calls.get(), 3 + 3 * 65);
}
