// Demo for change `b`: wording of rendered decode errors.
//
// The Display texts of `DecodeError` are reworded. The AVP-kind name (or the
// bare number for unassigned attribute types) and every carried value are
// still shown; only the surrounding wording differs.

use rl2tp::common::{DecodeError, SliceReader};
use rl2tp::Message;

fn control(body: &[u8]) -> Vec<u8> {
    let total = 12 + body.len();
    let mut v = vec![
        0x13, 0x20, // control, length, sequence, version 2 (crate bit numbering)
        (total >> 8) as u8, total as u8, // Length
        0x00, 0x01, // Tunnel ID
        0x00, 0x02, // Session ID
        0x00, 0x03, // Ns
        0x00, 0x04, // Nr
    ];
    v.extend_from_slice(body);
    v
}

const MESSAGE_TYPE_SCCRQ: [u8; 8] = [0x01, 0x08, 0x00, 0x00, 0x00, 0x00, 0x00, 0x01];

fn decode_errors(input: &[u8]) -> Vec<DecodeError> {
    let mut r = SliceReader::from(input);
    match Message::<&[u8]>::try_read(&mut r) {
        Ok(_) => panic!("expected rejection"),
        Err(e) => e,
    }
}

#[test]
fn truncated_avp_text_via_decoder() {
    // MessageType followed by a HostName AVP with an empty payload.
    let mut body = MESSAGE_TYPE_SCCRQ.to_vec();
    body.extend_from_slice(&[0x01, 0x06, 0x00, 0x00, 0x00, 0x07]);
    let errors = decode_errors(&control(&body));
    assert_eq!(errors, vec![DecodeError::IncompleteAVP(7)]);
    assert_eq!(errors[0].to_string(), "HostName AVP: payload is truncated");
}

#[test]
fn unknown_attribute_type_text_via_decoder() {
    let mut body = MESSAGE_TYPE_SCCRQ.to_vec();
    body.extend_from_slice(&[0x01, 0x07, 0x00, 0x00, 0x00, 0x14, 0xaa]);
    let errors = decode_errors(&control(&body));
    assert_eq!(errors, vec![DecodeError::UnknownAvp(20)]);
    assert_eq!(
        errors[0].to_string(),
        "AVP header: unassigned attribute type 20"
    );
}

#[test]
fn version_text_via_decoder() {
    let mut input = control(&MESSAGE_TYPE_SCCRQ);
    input[1] = 0x30;
    let errors = decode_errors(&input);
    assert_eq!(errors, vec![DecodeError::InvalidVersion(3)]);
    assert_eq!(
        errors[0].to_string(),
        "Message header: unsupported protocol version 3"
    );
}

#[test]
fn reworded_texts_keep_name_and_value() {
    let cases: Vec<(DecodeError, &str)> = vec![
        (
            DecodeError::IncompleteAVP(38),
            "RxConnectSpeed AVP: payload is truncated",
        ),
        (
            DecodeError::IncompleteAVP(20),
            "20 AVP: payload is truncated",
        ),
        (
            DecodeError::InvalidUtf8(8),
            "VendorName AVP: string payload is not valid UTF-8",
        ),
        (
            DecodeError::InvalidUtf8(65535),
            "65535 AVP: string payload is not valid UTF-8",
        ),
        (
            DecodeError::AVPReadError(36),
            "RandomVector AVP: reader failed to deliver the payload",
        ),
        (
            DecodeError::UnknownMessageType(5),
            "MessageType AVP: unassigned message type code 5",
        ),
        (
            DecodeError::InvalidResultCodeErrorType(9),
            "ResultCode AVP: unassigned error type code 9",
        ),
        (
            DecodeError::InvalidAVPLength(5),
            "AVP header: unusable length field, value 5",
        ),
        (
            DecodeError::UnsupportedVendorId(9),
            "AVP header: vendor-specific AVP not supported, vendor ID 9",
        ),
        (
            DecodeError::InvalidOffset(77),
            "Data message: offset size 77 exceeds the remaining octets",
        ),
        (
            DecodeError::InvalidOriginalAVPLength(4),
            "Hidden AVP: original length subfield out of range, value 4",
        ),
        (DecodeError::EmptyHiddenAVP, "Hidden AVP: value is empty"),
        (
            DecodeError::ControlMessageTypeNotFirst,
            "Control message: first AVP must be MessageType",
        ),
    ];
    for (error, text) in cases {
        assert_eq!(error.to_string(), text);
    }
}
