// Per-run context shared by all property checks: counters, distinct non-trivial
// case set, samples, stage marker (for crash attribution), known-finding signatures.

use serde_json::{json, Value};
use std::collections::{BTreeMap, BTreeSet, HashSet};
use std::hash::{Hash, Hasher};

/// Layout of the crash scratch area (an mmap'd file owned by the supervisor):
///   [0..4)   stage   (u32 LE)  what the case was doing when the process died
///   [4..8)   part    (u32 LE)  index of the part being run
///   [8..16)  serial  (u64 LE)  number of cases started (heartbeat)
///   [16..20) kind    (u32 LE)  0 = tape, 1 = enum index
///   [20..24) len     (u32 LE)  tape length / 8 for enum
///   [24.. )  payload           tape octets / u64 LE index
pub const SCRATCH_SIZE: usize = 1 << 20;
/// per-shard bound on the number of distinct non-trivial case hashes that are recorded
pub const NONTRIVIAL_CAP: usize = 500_000;
pub const SCRATCH_HDR: usize = 24;

#[derive(Clone, Copy)]
pub struct Scratch {
    pub ptr: *mut u8,
}
unsafe impl Send for Scratch {}

impl Scratch {
    #[inline]
    fn put32(&self, off: usize, v: u32) {
        unsafe { std::ptr::copy_nonoverlapping(v.to_le_bytes().as_ptr(), self.ptr.add(off), 4) }
    }
    #[inline]
    fn put64(&self, off: usize, v: u64) {
        unsafe { std::ptr::copy_nonoverlapping(v.to_le_bytes().as_ptr(), self.ptr.add(off), 8) }
    }
    pub fn begin_case(&self, part: u32, serial: u64, kind: u32, payload: &[u8]) {
        let n = payload.len().min(SCRATCH_SIZE - SCRATCH_HDR);
        self.put32(0, 0);
        self.put32(4, part);
        self.put32(16, kind);
        self.put32(20, n as u32);
        unsafe { std::ptr::copy_nonoverlapping(payload.as_ptr(), self.ptr.add(SCRATCH_HDR), n) }
        // serial last: the supervisor treats a changed serial as "a new case has started"
        self.put64(8, serial);
    }
    #[inline]
    pub fn stage(&self, s: u32) {
        self.put32(0, s)
    }
}

/// Stage values with a meaning to the supervisor. A process death while the stage is
/// below STAGE_ARMED is *not* attributed to the property (the case was still setting up
/// or the death would only make a hypothesis of the property false).
pub const STAGE_SETUP: u32 = 0;
pub const STAGE_UNATTRIBUTED: u32 = 1;
pub const STAGE_ARMED: u32 = 16;

#[derive(Debug, Clone)]
pub struct Failure {
    pub reason: String,
    /// the concrete case, rendered (input octets in hex, options, values ...)
    pub rendered: Value,
    /// signature id (a predicate on the case) used for known-finding matching
    pub sig: Option<&'static str>,
}

pub type Res = Result<(), Failure>;

pub fn fail(reason: impl Into<String>, rendered: Value) -> Res {
    Err(Failure { reason: reason.into(), rendered, sig: None })
}

pub struct Cx {
    pub evals: u64,
    pub classes: BTreeMap<&'static str, u64>,
    pub dyn_classes: BTreeMap<String, u64>,
    pub mins: BTreeMap<&'static str, u64>,
    pub nontrivial: HashSet<u64>,
    pub samples: BTreeMap<&'static str, Vec<Value>>,
    pub sample_cap: usize,
    pub scratch: Option<Scratch>,
    pub known: BTreeSet<String>,
    pub excluded_known: BTreeMap<String, u64>,
    /// when set the run is a replay: known signatures are not excused
    pub strict: bool,
    /// proptest re-runs the closure while shrinking: counting stops at the first failure
    pub frozen: bool,
    pub thorough: bool,
}

impl Default for Cx {
    fn default() -> Self {
        Self::new()
    }
}

impl Cx {
    pub fn new() -> Self {
        Cx {
            evals: 0,
            classes: BTreeMap::new(),
            dyn_classes: BTreeMap::new(),
            mins: BTreeMap::new(),
            nontrivial: HashSet::new(),
            samples: BTreeMap::new(),
            sample_cap: 2,
            scratch: None,
            known: BTreeSet::new(),
            excluded_known: BTreeMap::new(),
            strict: false,
            frozen: false,
            thorough: false,
        }
    }
    pub fn profile() -> &'static str {
        if cfg!(debug_assertions) {
            "vdbg"
        } else {
            "vrel"
        }
    }
    #[inline]
    pub fn eval(&mut self) {
        if !self.frozen {
            self.evals += 1;
        }
    }
    #[inline]
    pub fn evals_n(&mut self, n: u64) {
        if !self.frozen {
            self.evals += n;
        }
    }
    #[inline]
    pub fn class(&mut self, c: &'static str) {
        if !self.frozen {
            *self.classes.entry(c).or_insert(0) += 1;
        }
    }
    pub fn class_n(&mut self, c: &'static str, n: u64) {
        if !self.frozen {
            *self.classes.entry(c).or_insert(0) += n;
        }
    }
    pub fn class_dyn(&mut self, c: String) {
        if !self.frozen {
            *self.dyn_classes.entry(c).or_insert(0) += 1;
        }
    }
    /// track the minimum of a measured quantity (e.g. slack remaining - requested)
    pub fn min(&mut self, k: &'static str, v: u64) {
        if !self.frozen {
            let e = self.mins.entry(k).or_insert(u64::MAX);
            if v < *e {
                *e = v;
            }
        }
    }
    #[inline]
    pub fn nontrivial<H: Hash + ?Sized>(&mut self, h: &H) {
        // the distinct count is conservative: each shard stops recording at NONTRIVIAL_CAP hashes
        if !self.frozen && self.nontrivial.len() < NONTRIVIAL_CAP {
            self.nontrivial.insert(hash64(h));
        }
    }
    pub fn sample(&mut self, family: &'static str, f: impl FnOnce() -> Value) {
        if self.frozen {
            return;
        }
        let cap = self.sample_cap;
        let v = self.samples.entry(family).or_default();
        if v.len() < cap {
            v.push(f());
        }
    }
    #[inline]
    pub fn stage(&self, s: u32) {
        if let Some(sc) = &self.scratch {
            sc.stage(s)
        }
    }
    /// Report a failure carrying a signature. If that signature is a listed known finding
    /// (and this is not a strict replay) the case is counted as excluded and the search goes on.
    pub fn fail_sig(&mut self, sig: &'static str, reason: impl Into<String>, rendered: impl FnOnce() -> Value) -> Res {
        if !self.strict && self.known.contains(sig) {
            if !self.frozen {
                *self.excluded_known.entry(sig.to_string()).or_insert(0) += 1;
            }
            return Ok(());
        }
        Err(Failure { reason: reason.into(), rendered: rendered(), sig: Some(sig) })
    }

    pub fn to_json(&self) -> Value {
        let mut classes = serde_json::Map::new();
        for (k, v) in &self.classes {
            classes.insert((*k).to_string(), json!(v));
        }
        for (k, v) in &self.dyn_classes {
            classes.insert(k.clone(), json!(v));
        }
        let mut mins = serde_json::Map::new();
        for (k, v) in &self.mins {
            mins.insert((*k).to_string(), json!(v));
        }
        let mut samples = serde_json::Map::new();
        for (k, v) in &self.samples {
            samples.insert((*k).to_string(), Value::Array(v.clone()));
        }
        json!({
            "evals": self.evals,
            "classes": classes,
            "mins": mins,
            "samples": samples,
            "excluded_known": self.excluded_known,
        })
    }
}

/// set by the libFuzzer targets: sanitizer builds use far more stack, so environment-sized experiments (the 64 KiB-stack thread
/// of C01) are skipped there
pub static FUZZ_MODE: std::sync::atomic::AtomicBool = std::sync::atomic::AtomicBool::new(false);

pub fn hash64<H: Hash + ?Sized>(h: &H) -> u64 {
    // DefaultHasher::new() uses fixed keys: deterministic across runs and processes
    let mut s = std::collections::hash_map::DefaultHasher::new();
    h.hash(&mut s);
    s.finish()
}

pub fn hex(b: &[u8]) -> String {
    let mut s = String::with_capacity(b.len() * 2);
    for x in b {
        s.push_str(&format!("{:02x}", x));
    }
    s
}

pub fn hex_short(b: &[u8]) -> String {
    if b.len() > 96 {
        format!("{}..({} octets)", hex(&b[..96]), b.len())
    } else {
        hex(b)
    }
}

pub fn unhex(s: &str) -> Option<Vec<u8>> {
    let s: Vec<u8> = s.bytes().filter(|c| !c.is_ascii_whitespace()).collect();
    if s.len() % 2 != 0 {
        return None;
    }
    let v = |c: u8| -> Option<u8> {
        match c {
            b'0'..=b'9' => Some(c - b'0'),
            b'a'..=b'f' => Some(c - b'a' + 10),
            b'A'..=b'F' => Some(c - b'A' + 10),
            _ => None,
        }
    };
    let mut out = Vec::with_capacity(s.len() / 2);
    for p in s.chunks(2) {
        out.push((v(p[0])? << 4) | v(p[1])?);
    }
    Some(out)
}

// ---------------------------------------------------------------- panic capture

use std::panic::{catch_unwind, AssertUnwindSafe};
use std::sync::Once;

thread_local! {
    static LAST_PANIC: std::cell::RefCell<Option<PanicInfo>> = const { std::cell::RefCell::new(None) };
}

#[derive(Debug, Clone)]
pub struct PanicInfo {
    pub message: String,
    pub file: String,
    pub line: u32,
}

static HOOK: Once = Once::new();

/// Install a silent panic hook that records message and location for `guard`.
pub fn install_silent_hook() {
    HOOK.call_once(|| {
        std::panic::set_hook(Box::new(|info| {
            let message = if let Some(s) = info.payload().downcast_ref::<&str>() {
                (*s).to_string()
            } else if let Some(s) = info.payload().downcast_ref::<String>() {
                s.clone()
            } else {
                "<non-string panic payload>".to_string()
            };
            let (file, line) = info.location().map(|l| (l.file().to_string(), l.line())).unwrap_or_default();
            // try_with: the codec may be called from a thread-local destructor after this slot is gone
            let _ = LAST_PANIC.try_with(|p| *p.borrow_mut() = Some(PanicInfo { message, file, line }));
        }));
    });
}

pub enum Caught<T> {
    Ok(T),
    /// an ordinary panic (message, location)
    Panic(PanicInfo),
    /// a panic raised by one of the harness monitors (payload preserved)
    Monitor(Box<dyn std::any::Any + Send>),
}

/// Run `f`, catching unwinding panics. Monitor payloads (non-string) are handed back.
pub fn guard<T>(f: impl FnOnce() -> T) -> Caught<T> {
    install_silent_hook();
    let _ = LAST_PANIC.try_with(|p| *p.borrow_mut() = None);
    match catch_unwind(AssertUnwindSafe(f)) {
        Ok(v) => Caught::Ok(v),
        Err(payload) => {
            if payload.is::<&str>() || payload.is::<String>() {
                let info = LAST_PANIC.try_with(|p| p.borrow_mut().take()).ok().flatten().unwrap_or(PanicInfo { message: "?".into(), file: String::new(), line: 0 });
                Caught::Panic(info)
            } else {
                Caught::Monitor(payload)
            }
        }
    }
}

impl PanicInfo {
    pub fn short(&self) -> String {
        format!("panic at {}:{}: {}", self.file, self.line, self.message)
    }
}
