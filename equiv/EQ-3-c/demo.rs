// Demo for change `c`: DataMessage::write assembles the data message header (flags, optional
// Length, tunnel id, session id, optional Ns/Nr, optional offset size) in a small local buffer and
// emits it with one write_bytes call, followed by one write_bytes call for the payload, instead
// of issuing one write_u16_be call per header field.
//
// PASSES with the change, FAILS without it.

use rl2tp::common::Writer;
use rl2tp::{DataMessage, Message};

#[derive(Debug, Clone, PartialEq, Eq)]
enum Call {
    Bytes(Vec<u8>),
    BytesAt(Vec<u8>, usize),
    U8(u8),
    U16(u16),
    U32(u32),
    U64(u64),
}

/// A conforming writer (plain byte vector) that additionally records every mutating call.
#[derive(Default)]
struct RecordingWriter {
    data: Vec<u8>,
    calls: Vec<Call>,
}

impl Writer for RecordingWriter {
    fn is_empty(&self) -> bool {
        self.data.is_empty()
    }
    fn len(&self) -> usize {
        self.data.len()
    }
    fn write_bytes(&mut self, bytes: &[u8]) {
        self.calls.push(Call::Bytes(bytes.to_vec()));
        self.data.extend_from_slice(bytes);
    }
    fn write_bytes_at(&mut self, bytes: &[u8], offset: usize) {
        self.calls.push(Call::BytesAt(bytes.to_vec(), offset));
        assert!(offset + bytes.len() <= self.data.len());
        self.data[offset..offset + bytes.len()].copy_from_slice(bytes);
    }
    fn write_u8(&mut self, value: u8) {
        self.calls.push(Call::U8(value));
        self.data.push(value);
    }
    fn write_u16_be(&mut self, value: u16) {
        self.calls.push(Call::U16(value));
        self.data.extend_from_slice(&value.to_be_bytes());
    }
    fn write_u32_be(&mut self, value: u32) {
        self.calls.push(Call::U32(value));
        self.data.extend_from_slice(&value.to_be_bytes());
    }
    fn write_u64_be(&mut self, value: u64) {
        self.calls.push(Call::U64(value));
        self.data.extend_from_slice(&value.to_be_bytes());
    }
}

#[test]
fn data_message_header_is_emitted_with_one_call() {
    let payload = [0xde, 0xad, 0xbe, 0xef];

    // Full header: priority, length, Ns/Nr and offset all present
    let full = Message::Data(DataMessage {
        is_prioritized: true,
        length: Some(18),
        tunnel_id: 0x0102,
        session_id: 0x0304,
        ns_nr: Some((0x0506, 0x0708)),
        offset: Some(0),
        data: &payload[..],
    });
    // Minimal header: only tunnel and session id
    let minimal = Message::Data(DataMessage {
        is_prioritized: false,
        length: None,
        tunnel_id: 0x0a0b,
        session_id: 0x0c0d,
        ns_nr: None,
        offset: None,
        data: &payload[..],
    });

    let mut w = RecordingWriter::default();
    w.data.extend_from_slice(&[0xee; 3]); // content that is already there
    full.write(&mut w);
    minimal.write(&mut w);

    let full_header = vec![
        0xd2, 0x20, 0x00, 18, 0x01, 0x02, 0x03, 0x04, 0x05, 0x06, 0x07, 0x08, 0x00, 0x00,
    ];
    let minimal_header = vec![0x00, 0x20, 0x0a, 0x0b, 0x0c, 0x0d];

    // Same octets as ever ...
    let mut expected = vec![0xee; 3];
    expected.extend_from_slice(&full_header);
    expected.extend_from_slice(&payload);
    expected.extend_from_slice(&minimal_header);
    expected.extend_from_slice(&payload);
    assert_eq!(w.data, expected);

    // ... but each message now arrives as header + payload, two calls.
    assert_eq!(
        w.calls,
        vec![
            Call::Bytes(full_header),
            Call::Bytes(payload.to_vec()),
            Call::Bytes(minimal_header),
            Call::Bytes(payload.to_vec()),
        ]
    );
}
