// C07 — every emitted length field is exact; oversize values are refused, not truncated.
use crate::cx::*;
use crate::gen::*;
use crate::glue::*;
use crate::prop::*;
use crate::spec::*;
use rl2tp::avp::AVP;
use rl2tp::common::VecWriter;
use serde_json::{json, Value};

pub static DEF: PropDef = PropDef {
    id: "C07",
    title: "Every emitted length field is exact; oversize values are refused",
    rule: "In range: G-val control messages and AVPs, encoded into a writer that already holds a prefix of 0..~200 000 octets in half of the cases (incl. messages filled to exactly 65 535 octets) and single AVPs. Oversize: every variable-length kind and opaque hidden AVPs with payloads that make \
the AVP 1024..~5000 octets (with extra mass on 1024 and 1025), control messages whose body crosses 65 535 octets by 1..2000, and hide() inputs whose original AVP or padded hidden value \
crosses the 1023-octet limit; AVPs whose size modulo 2^16 looks legal (65 536 .. 66 600 octets); and in-range values encoded right after a refused encode on the same thread. Oracle: an independent length walker over the emitted octets - control Length = octets emitted, every AVP length >= 6, the AVPs tile Length-12 exactly, each AVP's extent = \
its length field = 6 + get_length(). For every case either the call panicked or all those equalities hold; in range a panic is itself a violation. Non-trivial = an AVP total > 255 \
(needs the two high length bits), or within 2 of a limit, or oversize; distinct by hash of the value.",
    assumptions: &["'fails loudly' is observed as a panic caught with catch_unwind"],
    parts,
    run_tape,
    run_enum: no_enum,
    run_concrete,
    both_profiles: true,
    exhaustive_note: "",
};

fn parts(t: Tier) -> Vec<Part> {
    let (a, b, c, d, e) = match t {
        Tier::Quick => (360_000, 600_000, 180_000, 9_000, 180_000),
        Tier::Thorough => (3_000_000, 6_000_000, 2_000_000, 80_000, 2_000_000),
    };
    // "gigantic": values of 2^32 + n and 2^31 + n octets offered to the encoder through a writer that keeps only the head of what it
    // is given (a length kept in 32 bits wraps to something that looks legal); one case per shard
    vec![tape("messages", a, 2500), tape("avps", b, 1200), tape("oversize-avp", c, 300), tape("oversize-msg", d, 400), tape("hide-limits", e, 300), tape("after-refusal", c, 2500), tape("gigantic", 16, 32)]
}

/// walk the AVP records of `body`; returns the extents or the reason the walk failed
fn walk(body: &[u8]) -> Result<Vec<usize>, String> {
    let mut p = 0;
    let mut v = Vec::new();
    while p < body.len() {
        if body.len() - p < 6 {
            return Err(format!("{} stray octets at offset {} of the body", body.len() - p, p));
        }
        let len = (((body[p] >> 6) as usize) << 8) | body[p + 1] as usize;
        if len < 6 {
            return Err(format!("AVP at body offset {} declares length {} (< 6)", p, len));
        }
        if p + len > body.len() {
            return Err(format!("AVP at body offset {} declares length {} but only {} octets follow", p, len, body.len() - p));
        }
        v.push(len);
        p += len;
    }
    Ok(v)
}

/// encode one AVP alone; Ok(None) = refused (panicked)
fn enc_avp(a: &SAvp, prefix: &[u8]) -> Result<Option<(Vec<u8>, usize)>, Failure> {
    enc_avp_ctx(a, prefix, false)
}

/// `unwinding`: the call is made from a destructor while the thread unwinds (teardown paths encode from Drop)
fn enc_avp_ctx(a: &SAvp, prefix: &[u8], unwinding: bool) -> Result<Option<(Vec<u8>, usize)>, Failure> {
    let ca = to_crate(a);
    let f = || {
        let mut w = VecWriter::new();
        w.data = prefix.to_vec();
        ca.write(&mut w);
        let gl = ca.get_length();
        (w.data.split_off(prefix.len().min(w.data.len())), gl)
    };
    match if unwinding { crate::props::history::while_unwinding(f) } else { guard(f) } {
        Caught::Ok(x) => Ok(Some(x)),
        Caught::Panic(_) => Ok(None),
        Caught::Monitor(_) => Err(Failure { reason: "unexpected panic payload".into(), rendered: json!({}), sig: None }),
    }
}

fn avp_len_checks(a: &SAvp, e: &[u8], gl: usize) -> Res {
    let render = || json!({"avp": format!("{:?}", abbreviate(a)), "encoding": hex_short(e), "get_length": gl});
    if e.len() < 6 {
        return fail("fewer than 6 octets emitted for an AVP", render());
    }
    let field = (((e[0] >> 6) as usize) << 8) | e[1] as usize;
    if field != e.len() {
        return fail(format!("AVP length field {} differs from the {} octets emitted", field, e.len()), render());
    }
    if 6 + gl != e.len() {
        return fail(format!("6 + get_length() = {} differs from the {} octets emitted", 6 + gl, e.len()), render());
    }
    Ok(())
}

pub fn abbreviate(a: &SAvp) -> SAvp {
    let cut = |v: &Vec<u8>| -> Vec<u8> {
        if v.len() > 40 {
            let mut d = v[..16].to_vec();
            d.extend_from_slice(format!("...({} octets)", v.len()).as_bytes());
            d
        } else {
            v.clone()
        }
    };
    let body = match &a.body {
        Body::Blob(v) => Body::Blob(cut(v)),
        Body::Opaque(v) => Body::Opaque(cut(v)),
        Body::Text(s) if s.len() > 40 => Body::Text(format!("{}...({} octets)", s.chars().take(12).collect::<String>(), s.len())),
        b => b.clone(),
    };
    SAvp { attr: a.attr, hidden: a.hidden, body }
}

pub fn check_avp(a: &SAvp, prefix: &[u8], in_range: bool, cx: &mut Cx) -> Res {
    cx.eval();
    cx.stage(STAGE_ARMED);
    let r = enc_avp(a, prefix)?;
    cx.stage(STAGE_SETUP);
    let wl = avp_wire_len(a);
    match r {
        None => {
            if in_range {
                return fail("encoding an AVP within the size limits panicked", json!({"avp": format!("{:?}", abbreviate(a)), "wire_length": wl}));
            }
            cx.class("oversize AVP refused (panic)");
        }
        Some((e, gl)) => {
            avp_len_checks(a, &e, gl)?;
            if !in_range {
                // the call returned and every length is exact: only possible if the value was in fact not oversize
                if e.len() > 1023 {
                    return fail("an AVP longer than 1023 octets was emitted", json!({"avp": format!("{:?}", abbreviate(a)), "emitted": e.len()}));
                }
            }
        }
    }
    // the same call made from a destructor while the thread unwinds: whenever it returns the lengths are exact, oversize is refused
    if !in_range || wl >= 1020 || crate::cx::hash64(&(a.attr, wl)) % 16 == 0 {
        cx.stage(STAGE_ARMED);
        let r2 = enc_avp_ctx(a, prefix, true)?;
        cx.stage(STAGE_SETUP);
        cx.class("AVP also encoded from a destructor while the thread unwinds");
        match (r2, in_range) {
            (None, true) => return fail("encoding an AVP within the size limits panicked when called from a destructor during unwinding", json!({"avp": format!("{:?}", abbreviate(a)), "wire_length": wl})),
            (None, false) => {}
            (Some((e, gl)), _) => {
                if let Err(mut f) = avp_len_checks(a, &e, gl) {
                    f.reason = format!("called from a destructor while the thread unwinds: {}", f.reason);
                    return Err(f);
                }
                if e.len() > 1023 {
                    return fail("called from a destructor while the thread unwinds: an AVP longer than 1023 octets was emitted", json!({"avp": format!("{:?}", abbreviate(a)), "emitted": e.len()}));
                }
            }
        }
    }
    if wl > 255 {
        cx.nontrivial(&(a.attr, a.hidden, wl, crate::cx::hash64(&format!("{:?}", a.body))));
        cx.class(match wl {
            256..=1021 => "avp total 256..1021",
            1022..=1023 => "avp total within 2 of the limit (1022, 1023)",
            1024..=1025 => "avp total just over the limit (1024, 1025)",
            _ => "avp total > 1025",
        });
    } else {
        cx.class("avp total <= 255");
    }
    cx.sample(if in_range { "avps" } else { "oversize-avp" }, || json!({"avp": format!("{:?}", abbreviate(a)), "wire_length": wl, "family": if in_range { "avps" } else { "oversize-avp" }}));
    Ok(())
}

pub fn check_msg(m: &SMsg, prefix: &[u8], in_range: bool, family: &'static str, cx: &mut Cx) -> Res {
    cx.eval();
    let avps = match m {
        SMsg::Control { avps, .. } => avps,
        _ => return Ok(()),
    };
    let total: usize = 12 + avps.iter().map(avp_wire_len).sum::<usize>();
    let render = || json!({"avps": avps.len(), "specified_total": total, "writer_already_holds_octets": prefix.len(), "first_avps": format!("{:?}", avps.iter().take(3).map(abbreviate).collect::<Vec<_>>())});
    let also_unwinding = !in_range || total >= 65000 || crate::cx::hash64(&(total, avps.len())) % 16 == 0;
    for ctx in 0..(1 + also_unwinding as usize) {
        cx.stage(STAGE_ARMED);
        let r = if ctx == 0 {
            crate_encode_msg_after(m, prefix)
        } else {
            // the same call made from a destructor while the thread unwinds (teardown paths send StopCCN / CDN from Drop)
            cx.class("message also encoded from a destructor while the thread unwinds");
            match crate::props::history::while_unwinding(|| {
                let cm = to_crate_msg(m);
                let mut w = VecWriter::new();
                w.data = prefix.to_vec();
                cm.write(&mut w);
                w.data.split_off(prefix.len().min(w.data.len()))
            }) {
                Caught::Ok(v) => Caught::Ok(v),
                Caught::Panic(p) => Caught::Panic(p),
                Caught::Monitor(x) => Caught::Monitor(x),
            }
        };
        cx.stage(STAGE_SETUP);
        let judged = (|| -> Res {
            match r {
                Caught::Panic(p) => {
                    if in_range {
                        return fail(format!("encoding a message within the size limits panicked: {}", p.short()), render());
                    }
                    cx.class("oversize message refused (panic)");
                }
                Caught::Monitor(_) => return fail("unexpected panic payload", render()),
                Caught::Ok(e) => {
                    if e.len() < 12 {
                        return fail("fewer than 12 octets emitted for a control message", render());
                    }
                    let field = ((e[2] as usize) << 8) | e[3] as usize;
                    if field != e.len() {
                        return fail(format!("control Length field {} differs from the {} octets emitted", field, e.len()), render());
                    }
                    match walk(&e[12..]) {
                        Err(why) => return fail(format!("the AVPs do not tile the message body: {}", why), render()),
                        Ok(ext) => {
                            if ext.len() != avps.len() {
                                return fail(format!("{} AVP records emitted for {} AVPs", ext.len(), avps.len()), render());
                            }
                            for (a, x) in avps.iter().zip(ext.iter()) {
                                if avp_wire_len(a) != *x {
                                    return fail(format!("an AVP's emitted extent {} differs from its own encoding's length {}", x, avp_wire_len(a)), render());
                                }
                            }
                        }
                    }
                }
                }
            Ok(())
        })();
        if let Err(mut f) = judged {
            if ctx == 1 {
                f.reason = format!("called from a destructor while the thread unwinds: {}", f.reason);
            }
            return Err(f);
        }
    }
    let near = (65533..=65535).contains(&total);
    if avps.iter().any(|a| avp_wire_len(a) > 255) || near || !in_range {
        cx.nontrivial(&(total, avps.len(), crate::cx::hash64(&format!("{:?}", avps.iter().take(4).collect::<Vec<_>>()))));
    }
    cx.class(if total > 65535 {
        "message total > 65535 (oversize)"
    } else if near {
        "message total within 2 of 65535"
    } else if total > 255 {
        "message total 256..65532"
    } else {
        "message total <= 255"
    });
    cx.sample(family, || json!({"avps": avps.len(), "specified_total": total, "family": family}));
    Ok(())
}

fn gen_oversize_avp(t: &mut Tape) -> SAvp {
    // payload length that makes the AVP 1024.. octets
    let extra = match t.below(7) {
        0 => 1,
        1 => 2,
        2 => 1 + t.below(16),
        3 => 1025 - 1017 + t.below(64),
        // totals of 65 536 .. 66 600 octets and their multiples: the size modulo 2^16 looks like a legal AVP length
        4 => 65536 * (1 + t.below(2)) - 1023 + t.below(1100),
        _ => 1 + t.below(4000),
    };
    let kind = if extra > 5000 { 4 + t.below(4) * (t.below(2)) } else { t.below(8) };
    match kind {
        0 => SAvp { attr: t.b_u16(), hidden: true, body: Body::Opaque(t.blob_cheap(1017 + extra)) },
        1 => SAvp { attr: [8u16, 21, 22, 23][t.below(4)], hidden: false, body: Body::Text(t.utf8(1017 + extra)) },
        2 => {
            let n = 1017 + extra - 4;
            SAvp { attr: 1, hidden: false, body: Body::ResultCode { code: t.b_u16(), error: Some((t.below(9) as u16, Some(t.utf8(n)))) } }
        }
        3 => {
            let n = 1017 + extra - 3;
            SAvp { attr: 12, hidden: false, body: Body::Q931 { cause: t.b_u16(), msg: t.byte(), advisory: Some(t.utf8(n)) } }
        }
        _ => SAvp { attr: [7u16, 11, 26, 27, 28, 30, 31, 33, 37][t.below(9)], hidden: false, body: Body::Blob(t.blob_cheap(1017 + extra)) },
    }
}

fn gen_oversize_msg(t: &mut Tape) -> SMsg {
    let mut avps = vec![msg_type_avp(t)];
    let over = match t.below(4) {
        0 => 1,
        1 => 2,
        2 => 1 + t.below(32),
        _ => 1 + t.below(2000),
    };
    // body target: 65535 - 12 - 8 + over, built from AVPs of 7..1023 octets
    let mut remaining = 65535usize - 12 - 8 + over;
    while remaining > 0 {
        let take = if remaining <= 1023 {
            if remaining < 7 {
                // merge into the previous AVP by regrowing it is not possible: add a minimal AVP (overshoots a little more)
                7
            } else {
                remaining
            }
        } else if remaining - 1023 < 7 && remaining != 1023 {
            1000
        } else if t.chance(70) {
            1023
        } else {
            7 + t.below(1017)
        };
        avps.push(SAvp { attr: [7u16, 11, 37][t.below(3)], hidden: false, body: Body::Blob(t.blob_cheap(take - 6)) });
        remaining = remaining.saturating_sub(take);
    }
    SMsg::Control { length: gen_stale_length(t), tunnel: t.b_u16(), session: t.b_u16(), ns: t.b_u16(), nr: t.b_u16(), avps }
}

/// hide() at the limits: originals of 1022..1030 octets and paddings that push the hidden value across 1017 octets
fn check_hide_limits(t: &mut Tape, cx: &mut Cx) -> Res {
    cx.eval();
    let attr = [7u16, 11, 8, 21, 37][t.below(5)];
    let plen = match t.below(6) {
        0 => 1016,
        1 => 1017,
        2 => 1018,
        3 => 1019 + t.below(40),
        4 => 990 + t.below(27),
        _ => 1 + t.below(1017),
    };
    let body = if matches!(attr, 8 | 21) { Body::Text(t.utf8(plen)) } else { Body::Blob(t.blob_cheap(plen)) };
    let a = SAvp { attr, hidden: false, body };
    let lpn = match t.below(5) {
        0 => 0,
        1 => 1006usize.saturating_sub(plen),
        2 => 1007usize.saturating_sub(plen),
        3 => t.below(40),
        _ => t.below(1100),
    };
    let lp = t.blob_cheap(lpn);
    let sl = t.below(8);
    let secret = t.blob(sl);
    let rv = t.u32().to_be_bytes();
    let ap = [0xa5u8; 16];
    let ca = to_crate(&a);
    let render = || json!({"attribute_type": attr, "payload_octets": plen, "length_padding_octets": lpn});
    cx.stage(STAGE_ARMED);
    let r = guard(|| ca.hide(&secret, &rv.into(), &lp, &ap));
    cx.stage(STAGE_SETUP);
    let original_total = 6 + plen;
    match r {
        Caught::Panic(_) => {
            if original_total <= 1023 {
                return fail("hide() panicked on an AVP within the size limits", render());
            }
            cx.class("hide: oversize original refused (panic)");
        }
        Caught::Monitor(_) => return fail("unexpected panic payload", render()),
        Caught::Ok(h) => {
            let sh = from_crate(&h);
            let v = match &sh.body {
                Body::Opaque(v) => v.clone(),
                _ => return fail("hide() of a non-hidden AVP did not return a hidden AVP", render()),
            };
            // the original-length subfield must be exact (crate convention: total original AVP length)
            if v.len() >= 16 && v.len() % 16 == 0 {
                let pt = decrypt(attr, &v, &secret, &rv);
                let field = ((pt[0] as usize) << 8) | pt[1] as usize;
                if field != original_total {
                    return fail(format!("original-length subfield {} differs from the original AVP length {}", field, original_total), render());
                }
            } else {
                return fail("hidden value is empty or not a multiple of 16 octets", render());
            }
            // writing the hidden AVP: refused when it does not fit, exact otherwise
            match enc_avp(&sh, &[])? {
                None => {
                    if 6 + v.len() <= 1023 {
                        return fail("writing a hidden AVP within the size limits panicked", render());
                    }
                    cx.class("hide: hidden value too long for an AVP, write refused (panic)");
                }
                Some((e, gl)) => {
                    avp_len_checks(&sh, &e, gl)?;
                    if e.len() > 1023 {
                        return fail("a hidden AVP longer than 1023 octets was emitted", render());
                    }
                    cx.class("hide: hidden AVP written, lengths exact");
                }
            }
        }
    }
    cx.nontrivial(&(attr, plen, lpn, secret.len()));
    cx.sample("hide-limits", || json!({"attribute_type": attr, "payload_octets": plen, "length_padding_octets": lpn, "family": "hide-limits"}));
    Ok(())
}

/// a refused (panicking) encode followed, on the same thread, by an encode of a value within the limits: whatever the
/// refusal left behind must not leak into the next call
fn check_after_refusal(t: &mut Tape, cx: &mut Cx) -> Res {
    cx.stage(STAGE_ARMED);
    let refused = match [0usize, 0, 0, 0, 0, 1, 1, 1, 1, 1, 2, 2, 2, 2, 2, 3][t.below(16)] {
        0 => {
            let a = gen_oversize_avp(t);
            cx.class("refusal: oversize AVP alone");
            matches!(crate_encode_avp(&a), Caught::Panic(_))
        }
        1 => {
            // a control message that contains one oversize AVP among valid ones
            let mut m = gen_control_k(t, 4);
            let a = gen_oversize_avp(t);
            if let SMsg::Control { avps, .. } = &mut m {
                let at = 1 + t.below(avps.len().max(1));
                avps.insert(at.min(avps.len()), a);
            }
            cx.class("refusal: message containing an oversize AVP");
            matches!(crate_encode_msg(&m), Caught::Panic(_))
        }
        2 => {
            let a = gen_oversize_avp(t);
            cx.class("refusal: hide of an oversize AVP");
            if a.hidden {
                false
            } else {
                let ca = to_crate(&a);
                matches!(guard(|| ca.hide(b"secret", &[1, 2, 3, 4].into(), &[], &[0; 16])), Caught::Panic(_))
            }
        }
        _ => {
            cx.class("refusal: oversize message");
            matches!(crate_encode_msg(&gen_oversize_msg(t)), Caught::Panic(_))
        }
    };
    cx.stage(STAGE_SETUP);
    if refused {
        cx.class("valid encode after a refused one");
    }
    match t.below(3) {
        0 => {
            let p = gen_prefix(t);
            check_avp(&gen_avp(t), &p, true, cx)
        }
        1 => {
            let p = gen_prefix(t);
            let m = gen_control(t);
            check_msg(&m, &p, true, "after-refusal", cx)
        }
        _ => check_hide_limits(t, cx),
    }
}

fn mem_available_gib() -> u64 {
    std::fs::read_to_string("/proc/meminfo")
        .ok()
        .and_then(|s| s.lines().find(|l| l.starts_with("MemAvailable:")).and_then(|l| l.split_whitespace().nth(1).and_then(|x| x.parse::<u64>().ok())))
        .map(|kb| kb >> 20)
        .unwrap_or(0)
}

/// an AVP (alone, or as the only large AVP of a control message) whose value has 2^32 + n or 2^31 + n octets: must be refused
fn check_gigantic(t: &mut Tape, cx: &mut Cx) -> Res {
    use crate::mon::SparseWriter;
    // an encoder that stages the value in a buffer of its own needs that much real memory: only one tape in four runs the
    // experiment, and only while plenty of memory is available
    if t.below(4) != 0 || mem_available_gib() < 24 {
        cx.class("gigantic: skipped (three tapes in four, or less than 24 GiB of memory available)");
        return Ok(());
    }
    cx.eval();
    let base: usize = if t.chance(60) { 1 << 32 } else { 1 << 31 };
    // total AVP size modulo 2^32 (or 2^31): a legal-looking 6 .. 1023, exactly 0, or just over
    let n = match t.below(4) {
        0 => t.below(1018),
        1 => 0,
        2 => 1017 + t.below(8),
        _ => t.below(70000),
    };
    let value_len = base + n - 6;
    // zero pages straight from the allocator: nothing is touched unless the encoder copies it, and the writer below does not
    let value = match guard(|| vec![0u8; value_len]) {
        Caught::Ok(v) => v,
        _ => return Ok(()), // the address space was refused: nothing learnt
    };
    let hidden = t.chance(50);
    let in_message = t.chance(40);
    let a = if hidden {
        AVP::Hidden(rl2tp::avp::types::Hidden { attribute_type: t.b_u16(), value })
    } else {
        AVP::Challenge(rl2tp::avp::types::Challenge { value })
    };
    let render = || json!({"avp": if hidden { "Hidden" } else { "Challenge" }, "value_octets": value_len, "inside_a_control_message": in_message});
    cx.stage(STAGE_UNATTRIBUTED); // running out of memory here is not the codec's fault
    let r = guard(|| {
        let mut w = SparseWriter::new(4096);
        if in_message {
            let m = rl2tp::Message::<Vec<u8>>::Control(rl2tp::ControlMessage { length: 0, tunnel_id: 1, session_id: 2, ns: 3, nr: 4, avps: vec![to_crate(&SAvp { attr: 0, hidden: false, body: Body::U16(1) }), a] });
            m.write(&mut w);
        } else {
            a.write(&mut w);
        }
        (w.head, w.total)
    });
    cx.stage(STAGE_SETUP);
    match r {
        Caught::Panic(_) => {
            cx.class("value of 2^31 / 2^32 + n octets refused (panic)");
            cx.nontrivial(&(value_len, hidden, in_message, 31u8));
            Ok(())
        }
        Caught::Monitor(_) => fail("unexpected panic payload", render()),
        Caught::Ok((head, total)) => {
            let at = if in_message { 12 + 8 } else { 0 };
            let field = if head.len() >= at + 2 { (((head[at] >> 6) as usize) << 8) | head[at + 1] as usize } else { 0 };
            let mut v = render();
            v["octets_emitted"] = json!(total);
            v["avp_length_field"] = json!(field);
            v["head_of_output"] = json!(hex_short(&head[..head.len().min(40)]));
            fail(format!("an AVP of {} octets was emitted instead of being refused (its length field says {})", value_len + 6, field), v)
        }
    }
}

fn run_tape(part: &str, tape: &[u8], cx: &mut Cx) -> Res {
    if part == "gigantic" {
        return check_gigantic(&mut Tape::new(tape), cx);
    }
    let mut t = Tape::new(tape);
    match part {
        "after-refusal" => check_after_refusal(&mut t, cx),
        "messages" => {
            let m = if t.chance(3) { gen_control_big(&mut t) } else { gen_control(&mut t) };
            let p = gen_prefix(&mut t);
            if !p.is_empty() {
                cx.class("message encoded after a non-empty prefix");
            }
            check_msg(&m, &p, true, "messages", cx)
        }
        "avps" => {
            let p = gen_prefix(&mut t);
            check_avp(&gen_avp(&mut t), &p, true, cx)
        }
        "oversize-avp" => {
            let p = if t.chance(25) { gen_prefix(&mut t) } else { Vec::new() };
            check_avp(&gen_oversize_avp(&mut t), &p, false, cx)
        }
        "oversize-msg" => check_msg(&gen_oversize_msg(&mut t), &[], false, "oversize-msg", cx),
        _ => check_hide_limits(&mut t, cx),
    }
}

fn run_concrete(case: &Value, _cx: &mut Cx) -> Res {
    fail("C07 has no concrete case format (replay the tape)", case.clone())
}
