// Demo for change `d`: the rendered text of decode errors is reworded (and the
// AVP-kind name is no longer heap-allocated for assigned types).  The error
// VALUES are unchanged; the text still shows the AVP-kind name for assigned
// attribute types and the number itself for unassigned ones.
use rl2tp::avp::AVP;
use rl2tp::common::{DecodeError, SliceReader};

const NAMES: [(u16, &str); 39] = [
    (0, "MessageType"),
    (1, "ResultCode"),
    (2, "ProtocolVersion"),
    (3, "FramingCapabilities"),
    (4, "BearerCapabilities"),
    (5, "TieBreaker"),
    (6, "FirmwareRevision"),
    (7, "HostName"),
    (8, "VendorName"),
    (9, "AssignedTunnelId"),
    (10, "ReceiveWindowSize"),
    (11, "Challenge"),
    (12, "Q931CauseCode"),
    (13, "ChallengeResponse"),
    (14, "AssignedSessionId"),
    (15, "CallSerialNumber"),
    (16, "MinimumBps"),
    (17, "MaximumBps"),
    (18, "BearerType"),
    (19, "FramingType"),
    (21, "CalledNumber"),
    (22, "CallingNumber"),
    (23, "SubAddress"),
    (24, "TxConnectSpeed"),
    (25, "PhysicalChannelId"),
    (26, "InitialReceivedLcpConfReq"),
    (27, "LastSentLcpConfReq"),
    (28, "LastReceivedLcpConfReq"),
    (29, "ProxyAuthenType"),
    (30, "ProxyAuthenName"),
    (31, "ProxyAuthenChallenge"),
    (32, "ProxyAuthenId"),
    (33, "ProxyAuthenResponse"),
    (34, "CallErrors"),
    (35, "Accm"),
    (36, "RandomVector"),
    (37, "PrivateGroupId"),
    (38, "RxConnectSpeed"),
    (39, "SequencingRequired"),
];

#[test]
fn reworded_error_text_keeps_kind_names() {
    // New wording
    assert_eq!(
        DecodeError::IncompleteAVP(7).to_string(),
        "HostName AVP is incomplete"
    );
    assert_eq!(
        DecodeError::IncompleteAVP(20).to_string(),
        "20 AVP is incomplete"
    );
    assert_eq!(
        DecodeError::InvalidUtf8(21).to_string(),
        "CalledNumber AVP: string payload is not valid UTF-8"
    );
    assert_eq!(
        DecodeError::UnknownAvp(40).to_string(),
        "Attribute type 40 is not assigned to any AVP"
    );
    assert_eq!(
        DecodeError::InvalidVersion(3).to_string(),
        "Message header: version 3 is not supported"
    );

    // The error values themselves are untouched: truncated HostName AVP
    let bytes = [0x01, 0x06, 0x00, 0x00, 0x00, 0x07];
    let mut r = SliceReader::from(&bytes[..]);
    assert_eq!(
        AVP::try_read_greedy(&mut r),
        vec![Err(DecodeError::IncompleteAVP(7))]
    );

    // Kind name (assigned) or the number itself (unassigned), for every u16
    for t in 0..=u16::MAX {
        let expect = match NAMES.iter().find(|(n, _)| *n == t) {
            Some((_, name)) => (*name).to_owned(),
            None => t.to_string(),
        };
        for e in [
            DecodeError::IncompleteAVP(t),
            DecodeError::InvalidUtf8(t),
            DecodeError::AVPReadError(t),
        ] {
            let s = e.to_string();
            assert!(!s.is_empty());
            assert!(s.starts_with(&format!("{expect} AVP")), "{s}");
        }
        for e in [
            DecodeError::UnknownAvp(t),
            DecodeError::UnknownMessageType(t),
            DecodeError::InvalidResultCodeErrorType(t),
            DecodeError::InvalidAVPLength(t),
            DecodeError::InvalidOriginalAVPLength(t),
            DecodeError::UnsupportedVendorId(t),
            DecodeError::InvalidOffset(t),
        ] {
            assert!(e.to_string().contains(&t.to_string()));
        }
    }
}
