// Demo for change `a`: AVP::write emits the AVP header in its final form (single pass, length
// pre-computed from get_length()), instead of writing two dummy octets and patching them with
// write_bytes_at afterwards.
//
// PASSES with the change, FAILS without it.

use rl2tp::avp::types::{Hidden, HostName, TieBreaker};
use rl2tp::avp::AVP;
use rl2tp::common::{VecWriter, Writer};
use std::panic::{catch_unwind, AssertUnwindSafe};

#[derive(Debug, Clone, PartialEq, Eq)]
enum Call {
    Bytes(Vec<u8>),
    BytesAt(Vec<u8>, usize),
    U8(u8),
    U16(u16),
    U32(u32),
    U64(u64),
}

/// A conforming writer (plain byte vector) that additionally records every mutating call.
#[derive(Default)]
struct RecordingWriter {
    data: Vec<u8>,
    calls: Vec<Call>,
}

impl Writer for RecordingWriter {
    fn is_empty(&self) -> bool {
        self.data.is_empty()
    }
    fn len(&self) -> usize {
        self.data.len()
    }
    fn write_bytes(&mut self, bytes: &[u8]) {
        self.calls.push(Call::Bytes(bytes.to_vec()));
        self.data.extend_from_slice(bytes);
    }
    fn write_bytes_at(&mut self, bytes: &[u8], offset: usize) {
        self.calls.push(Call::BytesAt(bytes.to_vec(), offset));
        assert!(offset + bytes.len() <= self.data.len());
        self.data[offset..offset + bytes.len()].copy_from_slice(bytes);
    }
    fn write_u8(&mut self, value: u8) {
        self.calls.push(Call::U8(value));
        self.data.push(value);
    }
    fn write_u16_be(&mut self, value: u16) {
        self.calls.push(Call::U16(value));
        self.data.extend_from_slice(&value.to_be_bytes());
    }
    fn write_u32_be(&mut self, value: u32) {
        self.calls.push(Call::U32(value));
        self.data.extend_from_slice(&value.to_be_bytes());
    }
    fn write_u64_be(&mut self, value: u64) {
        self.calls.push(Call::U64(value));
        self.data.extend_from_slice(&value.to_be_bytes());
    }
}

#[test]
fn avp_is_written_in_a_single_pass_without_overwrites() {
    let mut w = RecordingWriter::default();
    w.data.extend_from_slice(&[0xee, 0xee, 0xee]); // content that is already there

    AVP::TieBreaker(TieBreaker::from(0x0102030405060708)).write(&mut w);
    AVP::Hidden(Hidden {
        attribute_type: 7,
        value: vec![0xaa; 0x120],
    })
    .write(&mut w);

    // The octets are the same as ever ...
    let mut expected = vec![0xee, 0xee, 0xee];
    expected.extend_from_slice(&[0x01, 14, 0, 0, 0, 5, 1, 2, 3, 4, 5, 6, 7, 8]);
    expected.extend_from_slice(&[0x43, 0x26, 0, 0, 0, 7]);
    expected.extend_from_slice(&[0xaa; 0x120]);
    assert_eq!(w.data, expected);

    // ... but no positional overwrite was needed to produce them:
    assert!(
        !w.calls.iter().any(|c| matches!(c, Call::BytesAt(..))),
        "write_bytes_at was called: {:?}",
        w.calls
    );
    // the very first call for each AVP already carries the final flags/length octets.
    assert_eq!(
        w.calls,
        vec![
            Call::Bytes(vec![0x01, 14]),
            Call::U16(0),
            Call::U16(5),
            Call::U64(0x0102030405060708),
            Call::Bytes(vec![0x43, 0x26]),
            Call::U16(0),
            Call::U16(7),
            Call::Bytes(vec![0xaa; 0x120]),
        ]
    );
}

#[test]
fn oversize_avp_is_refused_before_anything_is_written() {
    let mut w = VecWriter::new();
    w.data.extend_from_slice(&[1, 2, 3]);

    let avp = AVP::HostName(HostName::from(vec![0x41; 1018])); // 6 + 1018 = 1024 > 1023
    let result = catch_unwind(AssertUnwindSafe(|| avp.write(&mut w)));

    // Refused loudly (as before) ...
    assert!(result.is_err());
    // ... and, new with this change, the writer has not been touched at all.
    assert_eq!(w.data, vec![1, 2, 3]);
}
