// Child-process side: run one shard of a property's parts, or a list of concrete cases.
use proptest::collection::vec as pvec;
use proptest::prelude::*;
use proptest::test_runner::{Config, RngSeed, TestCaseError, TestError, TestRunner};
use serde_json::{json, Value};
use std::cell::RefCell;
use std::io::Write;
use vcore::cx::*;
use vcore::prop::*;

pub struct ShardArgs {
    pub prop: String,
    pub tier: Tier,
    pub shard: u64,
    pub nshards: u64,
    pub seed: u64,
    pub scratch: Option<String>,
    pub out: String,
    /// resume after a crash that was not attributed to the property: skip every case up to and
    /// including (part index, serial within the whole shard)
    pub resume_after: Option<u64>,
    pub known: Vec<String>,
    /// scale factor (percent) applied to the number of generated cases
    pub scale_pct: u64,
}

pub fn map_scratch(path: &str) -> Scratch {
    use std::os::unix::io::AsRawFd;
    let f = std::fs::OpenOptions::new().read(true).write(true).create(true).truncate(false).open(path).expect("open scratch");
    f.set_len(SCRATCH_SIZE as u64).expect("size scratch");
    let p = unsafe { libc::mmap(std::ptr::null_mut(), SCRATCH_SIZE, libc::PROT_READ | libc::PROT_WRITE, libc::MAP_SHARED, f.as_raw_fd(), 0) };
    if p == libc::MAP_FAILED {
        panic!("mmap scratch failed");
    }
    Scratch { ptr: p as *mut u8 }
}

pub fn shard_seed(seed: u64, id: &str, part: &str, shard: u64) -> u64 {
    hash64(&(seed, id, part, shard, "rl2tp-verif-v1"))
}

pub fn cases_for_shard(total: u64, shard: u64, nshards: u64) -> u64 {
    total / nshards + if shard < total % nshards { 1 } else { 0 }
}

fn reason_key(r: &str) -> String {
    r.chars().filter(|c| !c.is_ascii_digit()).collect()
}

/// ddmin-style reduction of a failing input: delete chunks, then zero octets, as long as the property's own
/// concrete-case oracle keeps failing with the same reason (digits ignored). Bounded work.
fn minimise_input(def: &PropDef, input: Vec<u8>, reason: &str, cx: &mut Cx) -> Option<(Vec<u8>, Failure)> {
    let key = reason_key(reason);
    let mut last: Option<Failure> = None;
    let mut fails = |b: &[u8], cx: &mut Cx| -> bool {
        match (def.run_concrete)(&json!({"input": hex(b)}), cx) {
            Err(f) if reason_key(&f.reason) == key => {
                last = Some(f);
                true
            }
            _ => false,
        }
    };
    if !fails(&input, cx) {
        return None;
    }
    let mut cur = input;
    let mut budget = 4000u32;
    let mut n = (cur.len() / 2).max(1);
    loop {
        let mut i = 0;
        while i + n <= cur.len() && budget > 0 {
            let mut cand = cur.clone();
            cand.drain(i..i + n);
            budget -= 1;
            if fails(&cand, cx) {
                cur = cand;
            } else {
                i += n;
            }
        }
        if n == 1 || budget == 0 {
            break;
        }
        n /= 2;
    }
    for i in 0..cur.len() {
        if budget == 0 {
            break;
        }
        if cur[i] != 0 {
            let mut cand = cur.clone();
            cand[i] = 0;
            budget -= 1;
            if fails(&cand, cx) {
                cur = cand;
            }
        }
    }
    // make sure `last` belongs to the final input
    if !fails(&cur, cx) {
        return None;
    }
    last.map(|f| (cur, f))
}

fn failure_json(part: &str, kind: &str, payload: Value, f: &Failure) -> Value {
    json!({"part": part, "kind": kind, "case": payload, "reason": f.reason, "rendered": f.rendered, "sig": f.sig, "profile": Cx::profile()})
}

pub fn run_shard(a: ShardArgs) -> i32 {
    install_silent_hook();
    let def = match find(&a.prop) {
        Some(d) => d,
        None => {
            eprintln!("unknown property {}", a.prop);
            return 2;
        }
    };
    let mut cx = Cx::new();
    cx.thorough = a.tier == Tier::Thorough;
    cx.known = a.known.iter().cloned().collect();
    let scratch = a.scratch.as_deref().map(map_scratch);
    cx.scratch = scratch;
    let cx = RefCell::new(cx);
    let serial = RefCell::new(0u64);
    let resume_after = a.resume_after.unwrap_or(0);
    let mut failures: Vec<Value> = Vec::new();
    let mut part_stats: Vec<Value> = Vec::new();

    let parts = (def.parts)(a.tier);
    'parts: for (pi, part) in parts.iter().enumerate() {
        match part.kind {
            PartKind::Tape { cases, max_tape } => {
                let cases = (cases * a.scale_pct / 100).max(a.nshards);
                let n = cases_for_shard(cases, a.shard, a.nshards);
                if n == 0 {
                    continue;
                }
                let mut cfg = Config::default();
                cfg.cases = n as u32;
                cfg.failure_persistence = None;
                cfg.rng_seed = RngSeed::Fixed(shard_seed(a.seed, def.id, part.name, a.shard));
                cfg.max_shrink_iters = 20_000;
                cfg.max_shrink_time = 0;
                let mut runner = TestRunner::new(cfg);
                let first_fail: RefCell<Option<Failure>> = RefCell::new(None);
                let r = runner.run(&pvec(any::<u8>(), 0..=max_tape), |tape| {
                    let mut cx = cx.borrow_mut();
                    let mut s = serial.borrow_mut();
                    if !cx.frozen {
                        *s += 1;
                        if *s <= resume_after {
                            return Ok(());
                        }
                    }
                    if let Some(sc) = &cx.scratch {
                        sc.begin_case(pi as u32, *s, 0, &tape);
                    }
                    match (def.run_tape)(part.name, &tape, &mut cx) {
                        Ok(()) => Ok(()),
                        Err(f) => {
                            cx.frozen = true;
                            let reason = f.reason.clone();
                            *first_fail.borrow_mut() = Some(f);
                            Err(TestCaseError::fail(reason))
                        }
                    }
                });
                part_stats.push(json!({"name": part.name, "kind": "tape", "cases": n, "max_tape": max_tape}));
                match r {
                    Ok(()) => {}
                    Err(TestError::Fail(_, tape)) => {
                        // re-run the minimal tape to obtain the rendered failure
                        let mut c = cx.borrow_mut();
                        c.frozen = true;
                        let f = match (def.run_tape)(part.name, &tape, &mut c) {
                            Err(f) => f,
                            Ok(()) => first_fail.borrow().clone().unwrap_or(Failure { reason: "failure did not reproduce on the shrunk tape".into(), rendered: Value::Null, sig: None }),
                        };
                        // second stage for byte-input properties: minimise the concrete octets while the same oracle still fails
                        let mut fj = failure_json(part.name, "tape", json!({"tape": hex(&tape)}), &f);
                        if let Some(input) = f.rendered.get("input").and_then(|x| x.as_str()).and_then(unhex) {
                            if let Some((small, f2)) = minimise_input(def, input, &f.reason, &mut c) {
                                let mut cj = failure_json(part.name, "concrete", json!({"input": hex(&small)}), &f2);
                                cj["found_as"] = json!({"kind": "tape", "part": part.name, "tape": hex(&tape), "reason": f.reason});
                                fj = cj;
                            }
                        }
                        failures.push(fj);
                        break 'parts;
                    }
                    Err(TestError::Abort(why)) => {
                        eprintln!("proptest aborted: {}", why);
                        return 2;
                    }
                }
            }
            PartKind::Enum { size } => {
                let mut idx = a.shard;
                let mut n = 0u64;
                while idx < size {
                    let mut c = cx.borrow_mut();
                    let mut s = serial.borrow_mut();
                    *s += 1;
                    if *s > resume_after {
                        if let Some(sc) = &c.scratch {
                            sc.begin_case(pi as u32, *s, 1, &idx.to_le_bytes());
                        }
                        n += 1;
                        if let Err(f) = (def.run_enum)(part.name, idx, &mut c) {
                            failures.push(failure_json(part.name, "enum", json!({"index": idx}), &f));
                            part_stats.push(json!({"name": part.name, "kind": "enum", "size": size, "visited": n}));
                            break 'parts;
                        }
                    }
                    idx += a.nshards;
                }
                part_stats.push(json!({"name": part.name, "kind": "enum", "size": size, "visited": n}));
            }
        }
    }
    let cx = cx.into_inner();
    write_out(&a.out, &cx, failures, part_stats)
}

fn write_out(out: &str, cx: &Cx, failures: Vec<Value>, part_stats: Vec<Value>) -> i32 {
    // distinct non-trivial hashes as raw u64 LE
    let mut nt = Vec::with_capacity(cx.nontrivial.len() * 8);
    for h in &cx.nontrivial {
        nt.extend_from_slice(&h.to_le_bytes());
    }
    if std::fs::write(format!("{}.nt", out), &nt).is_err() {
        return 2;
    }
    let v = json!({"cx": cx.to_json(), "failures": failures, "parts": part_stats, "profile": Cx::profile()});
    let mut f = match std::fs::File::create(out) {
        Ok(f) => f,
        Err(_) => return 2,
    };
    if f.write_all(v.to_string().as_bytes()).is_err() {
        return 2;
    }
    0
}

/// Run one case from a replay/regression JSON value, strictly (known findings are not excused).
/// Returns Ok(()) / Err(failure).
pub fn run_case(def: &PropDef, case: &Value, cx: &mut Cx) -> Res {
    let kind = case.get("kind").and_then(|x| x.as_str()).unwrap_or("concrete");
    let part = case.get("part").and_then(|x| x.as_str()).unwrap_or("");
    match kind {
        "tape" => {
            let tape = case.get("case").and_then(|c| c.get("tape")).and_then(|x| x.as_str()).and_then(unhex);
            match tape {
                Some(t) => (def.run_tape)(part, &t, cx),
                None => fail("replay file has no tape", case.clone()),
            }
        }
        "enum" => match case.get("case").and_then(|c| c.get("index")).and_then(|x| x.as_u64()) {
            Some(i) => (def.run_enum)(part, i, cx),
            None => fail("replay file has no index", case.clone()),
        },
        _ => {
            let c = case.get("case").unwrap_or(case);
            (def.run_concrete)(c, cx)
        }
    }
}

/// child mode: run the cases in `files` one after the other; out = JSON list of per-file results
pub fn run_files(prop: &str, files: &[String], scratch: Option<&str>, out: &str, strict: bool, known: &[String]) -> i32 {
    install_silent_hook();
    let def = match find(prop) {
        Some(d) => d,
        None => return 2,
    };
    let mut cx = Cx::new();
    cx.strict = strict;
    cx.known = known.iter().cloned().collect();
    cx.scratch = scratch.map(map_scratch);
    let mut results = Vec::new();
    for (i, f) in files.iter().enumerate() {
        let v: Value = match std::fs::read_to_string(f).ok().and_then(|s| serde_json::from_str(&s).ok()) {
            Some(v) => v,
            None => {
                eprintln!("cannot read case file {}", f);
                return 2;
            }
        };
        if let Some(sc) = &cx.scratch {
            sc.begin_case(0, i as u64 + 1, 2, f.as_bytes());
        }
        match run_case(def, &v, &mut cx) {
            Ok(()) => results.push(json!({"file": f, "ok": true})),
            Err(fl) => results.push(json!({"file": f, "ok": false, "reason": fl.reason, "rendered": fl.rendered, "sig": fl.sig, "profile": Cx::profile()})),
        }
    }
    let v = json!({"results": results, "cx": cx.to_json(), "profile": Cx::profile()});
    if std::fs::write(out, v.to_string()).is_err() {
        return 2;
    }
    0
}
