// Demo for change `b`: AVP::hide / AVP::reveal obtain the first-block pad
// MD5(attribute type + secret + random vector) through a per-thread memo that is keyed by the
// COMPLETE MD5 input (stored and compared octet for octet).
//
// Results are unchanged (checked below against an independent RFC 2661 s4.3 computation); the
// only thing that can be seen from outside is the allocation pattern: an immediately repeated
// hide (or a reveal following a hide) with the same attribute type, secret and random vector
// performs one heap allocation less than the first one.
//
// PASSES with the change, FAILS without it (original: every call allocates the same amount).

use rl2tp::avp::types::{Hidden, HostName, RandomVector, VendorName};
use rl2tp::avp::AVP;
use std::alloc::{GlobalAlloc, Layout, System};
use std::cell::Cell;
use std::sync::mpsc;

struct Counting;

thread_local! {
    static ALLOCATIONS: Cell<u64> = const { Cell::new(0) };
}

#[inline]
fn bump() {
    let _ = ALLOCATIONS.try_with(|c| c.set(c.get() + 1));
}

unsafe impl GlobalAlloc for Counting {
    unsafe fn alloc(&self, layout: Layout) -> *mut u8 {
        bump();
        System.alloc(layout)
    }
    unsafe fn alloc_zeroed(&self, layout: Layout) -> *mut u8 {
        bump();
        System.alloc_zeroed(layout)
    }
    unsafe fn realloc(&self, ptr: *mut u8, layout: Layout, new_size: usize) -> *mut u8 {
        bump();
        System.realloc(ptr, layout, new_size)
    }
    unsafe fn dealloc(&self, ptr: *mut u8, layout: Layout) {
        System.dealloc(ptr, layout)
    }
}

#[global_allocator]
static GLOBAL: Counting = Counting;

fn counted<R>(f: impl FnOnce() -> R) -> (R, u64) {
    let before = ALLOCATIONS.with(|c| c.get());
    let r = f();
    let after = ALLOCATIONS.with(|c| c.get());
    (r, after - before)
}

// ---- independent RFC 2661 section 4.3 ------------------------------------------------------

fn md5_of(parts: &[&[u8]]) -> [u8; 16] {
    let mut v = Vec::new();
    for p in parts {
        v.extend_from_slice(p);
    }
    md5::compute(v).0
}

fn ref_hide(
    attribute_type: u16,
    payload: &[u8],
    secret: &[u8],
    rv: &[u8; 4],
    lp: &[u8],
    ap: &[u8; 16],
) -> Vec<u8> {
    let mut plain = ((6 + payload.len()) as u16).to_be_bytes().to_vec();
    plain.extend_from_slice(payload);
    plain.extend_from_slice(lp);
    let pad = (16 - plain.len() % 16) % 16;
    plain.extend_from_slice(&ap[..pad]);
    let mut out: Vec<u8> = Vec::new();
    for (i, block) in plain.chunks(16).enumerate() {
        let key = if i == 0 {
            md5_of(&[&attribute_type.to_be_bytes(), secret, rv])
        } else {
            md5_of(&[secret, &out[(i - 1) * 16..i * 16]])
        };
        out.extend(block.iter().zip(key.iter()).map(|(a, b)| a ^ b));
    }
    out
}

const AP: [u8; 16] = [0x5a; 16];

fn host(name: &[u8]) -> AVP {
    AVP::HostName(HostName {
        value: name.to_vec(),
    })
}

fn hide_counted(avp: &AVP, secret: &[u8], rv: [u8; 4], lp: &[u8]) -> (Vec<u8>, u64) {
    let avp = avp.clone();
    let rv = RandomVector::from(rv);
    let (hidden, n) = counted(|| avp.hide(secret, &rv, lp, &AP));
    match hidden {
        AVP::Hidden(Hidden {
            attribute_type: 7,
            value,
        }) => (value, n),
        other => panic!("unexpected {other:?}"),
    }
}

#[test]
fn repeated_hide_with_same_key_material_allocates_once_less() {
    let avp = host(b"lac-1"); // 2 + 5 octets: a single 16-octet block
    let rv = [1, 2, 3, 4];

    // get any one-time per-thread set-up out of the way
    let _ = hide_counted(&avp, b"warm-up", [9, 9, 9, 9], b"");

    let (v1, n1) = hide_counted(&avp, b"secret-A", rv, b""); // miss
    let (v2, n2) = hide_counted(&avp, b"secret-A", rv, b""); // hit
    let (v3, n3) = hide_counted(&avp, b"secret-B", rv, b""); // same length, miss
    let (v4, n4) = hide_counted(&avp, b"secret-B", [1, 2, 3, 5], b""); // other rv, miss
    let (v5, n5) = hide_counted(&avp, b"secret-B", [1, 2, 3, 5], b""); // hit

    // values: always the RFC construction, hit or miss
    assert_eq!(v1, ref_hide(7, b"lac-1", b"secret-A", &rv, b"", &AP));
    assert_eq!(v2, v1);
    assert_eq!(v3, ref_hide(7, b"lac-1", b"secret-B", &rv, b"", &AP));
    assert_eq!(v4, ref_hide(7, b"lac-1", b"secret-B", &[1, 2, 3, 5], b"", &AP));
    assert_eq!(v5, v4);
    assert_ne!(v1, v3);
    assert_ne!(v3, v4);

    // allocation pattern: this is what the change makes visible
    assert_eq!(n1, n3);
    assert_eq!(n1, n4);
    assert_eq!(n2 + 1, n1, "repeat with identical key material saves one allocation");
    assert_eq!(n5 + 1, n4);
}

#[test]
fn reveal_after_hide_reuses_the_pad_and_is_never_confused() {
    let rv = RandomVector::from([7, 7, 7, 7]);
    let avp = host(b"lns");
    let hidden = avp.clone().hide(b"k1", &rv, b"", &AP);

    // cold reveal on a fresh thread vs. reveal right after the matching hide
    let h2 = hidden.clone();
    let cold = std::thread::spawn(move || {
        // one-time set-up of this thread with unrelated key material
        let _ = host(b"x").hide(b"zz", &RandomVector::from([0; 4]), b"", &AP);
        let _ = h2.clone().reveal(b"other", &RandomVector::from([0; 4]));
        counted(|| h2.reveal(b"k1", &RandomVector::from([7, 7, 7, 7])))
    })
    .join()
    .unwrap();
    let _ = avp.clone().hide(b"k1", &rv, b"", &AP);
    let h3 = hidden.clone();
    let warm = counted(|| h3.reveal(b"k1", &rv));
    assert_eq!(cold.0, Ok(avp.clone()));
    assert_eq!(warm.0, Ok(avp.clone()));
    assert_eq!(warm.1 + 1, cold.1, "reveal after matching hide saves one allocation");

    // Interleave key material that differs in exactly one place each time (attribute type,
    // one secret octet, secret length with the octets shifted into the neighbour field, rv):
    // every result equals the independent computation.
    let cases: Vec<(AVP, u16, Vec<u8>, Vec<u8>, [u8; 4])> = vec![
        (host(b"abc"), 7, b"abc".to_vec(), b"k1".to_vec(), [7, 7, 7, 7]),
        (
            AVP::VendorName(VendorName {
                value: "abc".to_owned(),
            }),
            8,
            b"abc".to_vec(),
            b"k1".to_vec(),
            [7, 7, 7, 7],
        ),
        (host(b"abc"), 7, b"abc".to_vec(), b"k2".to_vec(), [7, 7, 7, 7]),
        (host(b"abc"), 7, b"abc".to_vec(), b"k2\x07".to_vec(), [7, 7, 7, 0]),
        (host(b"abc"), 7, b"abc".to_vec(), b"k2".to_vec(), [7, 7, 7, 0]),
        (host(b"abc"), 7, b"abc".to_vec(), b"".to_vec(), [7, 7, 7, 0]),
        (host(b"abc"), 7, b"abc".to_vec(), vec![0x61; 300], [7, 7, 7, 0]),
        (host(b"abc"), 7, b"abc".to_vec(), vec![0x61; 300], [7, 7, 7, 0]),
    ];
    for round in 0..2 {
        for (avp, t, payload, secret, rvb) in &cases {
            let rv = RandomVector::from(*rvb);
            let lp = [0x11u8; 20]; // forces a second block
            let h = avp.clone().hide(secret, &rv, &lp, &AP);
            match &h {
                AVP::Hidden(Hidden {
                    attribute_type,
                    value,
                }) => {
                    assert_eq!(attribute_type, t);
                    assert_eq!(
                        value,
                        &ref_hide(*t, payload, secret, rvb, &lp, &AP),
                        "round {round}"
                    );
                }
                other => panic!("unexpected {other:?}"),
            }
            assert_eq!(h.reveal(secret, &rv).as_ref(), Ok(avp));
        }
    }
}

// Same octets in every calling context: inside a destructor that runs during unwinding and
// inside thread-local destructors at thread exit, with the crate's memo slot not yet created,
// still alive, or already destroyed.
struct HideOnDrop(mpsc::Sender<(AVP, Result<AVP, rl2tp::common::DecodeError>)>);

impl Drop for HideOnDrop {
    fn drop(&mut self) {
        let rv = RandomVector::from([4, 3, 2, 1]);
        let h = host(b"ctx").hide(b"s3cr3t", &rv, b"pad", &AP);
        let r = h.clone().reveal(b"s3cr3t", &rv);
        let _ = self.0.send((h, r));
    }
}

thread_local! {
    static AT_EXIT: std::cell::RefCell<Option<HideOnDrop>> = const { std::cell::RefCell::new(None) };
}

#[test]
fn identical_in_destructors_unwinding_and_thread_exit() {
    let rv = RandomVector::from([4, 3, 2, 1]);
    let reference = AVP::Hidden(Hidden {
        attribute_type: 7,
        value: ref_hide(7, b"ctx", b"s3cr3t", &[4, 3, 2, 1], b"pad", &AP),
    });
    assert_eq!(host(b"ctx").hide(b"s3cr3t", &rv, b"pad", &AP), reference);

    let (tx, rx) = mpsc::channel();

    let tx1 = tx.clone();
    let _ = std::panic::catch_unwind(move || {
        let _guard = HideOnDrop(tx1);
        panic!("unwinding on purpose");
    });

    for order in 0..3 {
        let tx2 = tx.clone();
        std::thread::spawn(move || {
            let rv = RandomVector::from([4, 3, 2, 1]);
            if order == 1 {
                let _ = host(b"ctx").hide(b"s3cr3t", &rv, b"pad", &AP);
            }
            AT_EXIT.with(|s| *s.borrow_mut() = Some(HideOnDrop(tx2)));
            if order == 2 {
                let _ = host(b"ctx").hide(b"s3cr3t", &rv, b"pad", &AP);
            }
        })
        .join()
        .unwrap();
    }
    drop(tx);

    let got: Vec<_> = rx.iter().collect();
    assert_eq!(got.len(), 4);
    for (h, r) in got {
        assert_eq!(h, reference);
        assert_eq!(r, Ok(host(b"ctx")));
    }
}
