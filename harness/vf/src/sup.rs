// Supervisor: spawns shard children in both build profiles, watches for aborts and hangs,
// merges results, writes evidence, prints VIOLATION / KNOWN-FINDING lines.
use serde_json::{json, Map, Value};
use std::collections::{BTreeMap, HashSet};
use std::path::{Path, PathBuf};
use std::process::{Child, Command, Stdio};
use std::time::{Duration, Instant};
use vcore::cx::*;
use vcore::prop::*;

pub struct SupArgs {
    pub prop: String,
    pub tier: Tier,
    pub seed: u64,
    pub bins: Vec<(String, String)>, // (profile, path)
    pub verif: PathBuf,
    pub replay: Option<String>,
    pub jobs: usize,
    pub scale_pct: u64,
    pub fuzz_stats: Option<String>,
}

pub struct Known {
    pub sig: String,
    pub text: String,
}

pub fn read_known(verif: &Path, prop: &str) -> Vec<Known> {
    let mut v = Vec::new();
    if let Ok(s) = std::fs::read_to_string(verif.join("KNOWN_FINDINGS.txt")) {
        for line in s.lines() {
            let line = line.trim();
            if let Some(rest) = line.strip_prefix("known:") {
                let rest = rest.trim();
                let mut it = rest.splitn(3, ' ');
                let p = it.next().unwrap_or("");
                let s = it.next().unwrap_or("");
                let text = it.next().unwrap_or("").to_string();
                if p == format!("property={}", prop) {
                    if let Some(sig) = s.strip_prefix("sig=") {
                        v.push(Known { sig: sig.to_string(), text });
                    }
                }
            }
        }
    }
    v
}

struct Job {
    profile: String,
    bin: String,
    shard: u64,
    resume_after: Option<u64>,
    restarts: u32,
}

struct Running {
    job: Job,
    child: Child,
    scratch: PathBuf,
    out: PathBuf,
    last_serial: u64,
    last_change: Instant,
}

#[derive(Debug, Clone)]
struct ScratchState {
    stage: u32,
    part: u32,
    serial: u64,
    kind: u32,
    payload: Vec<u8>,
}

fn read_scratch(p: &Path) -> Option<ScratchState> {
    let b = std::fs::read(p).ok()?;
    if b.len() < SCRATCH_HDR {
        return None;
    }
    let g32 = |o: usize| u32::from_le_bytes(b[o..o + 4].try_into().unwrap());
    let len = g32(20) as usize;
    Some(ScratchState {
        stage: g32(0),
        part: g32(4),
        serial: u64::from_le_bytes(b[8..16].try_into().unwrap()),
        kind: g32(16),
        payload: b.get(SCRATCH_HDR..SCRATCH_HDR + len)?.to_vec(),
    })
}

fn read_serial(p: &Path) -> u64 {
    use std::io::{Read, Seek, SeekFrom};
    let mut buf = [0u8; 8];
    if let Ok(mut f) = std::fs::File::open(p) {
        if f.seek(SeekFrom::Start(8)).is_ok() && f.read_exact(&mut buf).is_ok() {
            return u64::from_le_bytes(buf);
        }
    }
    0
}

pub struct Violation {
    pub replay: PathBuf,
    pub reason: String,
}

pub struct Sup {
    a: SupArgs,
    def: &'static PropDef,
    tmp: PathBuf,
    known: Vec<Known>,
    violations: Vec<Violation>,
    infra: Vec<String>,
    merged_evals: u64,
    classes: BTreeMap<String, u64>,
    mins: BTreeMap<String, u64>,
    excluded: BTreeMap<String, u64>,
    samples: BTreeMap<String, Vec<Value>>,
    nontrivial: HashSet<u64>,
    parts_seen: BTreeMap<String, Value>,
    regressions: u64,
    profiles_run: Vec<String>,
    t0: Instant,
}

fn tier_str(t: Tier) -> &'static str {
    match t {
        Tier::Quick => "quick",
        Tier::Thorough => "thorough",
    }
}

impl Sup {
    pub fn new(a: SupArgs) -> Result<Self, String> {
        let def = find(&a.prop).ok_or_else(|| format!("unknown property {}", a.prop))?;
        let tmp = a.verif.join("target").join("run").join(format!("{}-{}-{}", a.prop, std::process::id(), tier_str(a.tier)));
        std::fs::create_dir_all(&tmp).map_err(|e| format!("mkdir {}: {}", tmp.display(), e))?;
        let known = read_known(&a.verif, &a.prop);
        Ok(Sup {
            a,
            def,
            tmp,
            known,
            violations: Vec::new(),
            infra: Vec::new(),
            merged_evals: 0,
            classes: BTreeMap::new(),
            mins: BTreeMap::new(),
            excluded: BTreeMap::new(),
            samples: BTreeMap::new(),
            nontrivial: HashSet::new(),
            parts_seen: BTreeMap::new(),
            regressions: 0,
            profiles_run: Vec::new(),
            t0: Instant::now(),
        })
    }

    fn profiles(&self) -> Vec<(String, String)> {
        if self.def.both_profiles {
            self.a.bins.clone()
        } else {
            self.a.bins.iter().filter(|(p, _)| p == "vrel").cloned().collect()
        }
    }

    fn known_arg(&self) -> String {
        self.known.iter().map(|k| k.sig.clone()).collect::<Vec<_>>().join(",")
    }

    fn save_replay(&self, case: &Value) -> PathBuf {
        let dir = self.a.verif.join("replays").join(&self.a.prop);
        let _ = std::fs::create_dir_all(&dir);
        let mut v = case.clone();
        if let Some(o) = v.as_object_mut() {
            o.insert("property".into(), json!(self.a.prop));
            o.insert("seed".into(), json!(self.a.seed));
            o.insert("gen_version".into(), json!("v1"));
        }
        let s = v.to_string();
        let p = dir.join(format!("{:016x}.json", hash64(&s)));
        let _ = std::fs::write(&p, serde_json::to_string_pretty(&v).unwrap_or(s));
        p
    }

    fn merge_cx(&mut self, cx: &Value) {
        self.merged_evals += cx.get("evals").and_then(|x| x.as_u64()).unwrap_or(0);
        if let Some(m) = cx.get("classes").and_then(|x| x.as_object()) {
            for (k, v) in m {
                *self.classes.entry(k.clone()).or_insert(0) += v.as_u64().unwrap_or(0);
            }
        }
        if let Some(m) = cx.get("mins").and_then(|x| x.as_object()) {
            for (k, v) in m {
                let v = v.as_u64().unwrap_or(u64::MAX);
                let e = self.mins.entry(k.clone()).or_insert(u64::MAX);
                if v < *e {
                    *e = v;
                }
            }
        }
        if let Some(m) = cx.get("excluded_known").and_then(|x| x.as_object()) {
            for (k, v) in m {
                *self.excluded.entry(k.clone()).or_insert(0) += v.as_u64().unwrap_or(0);
            }
        }
        if let Some(m) = cx.get("samples").and_then(|x| x.as_object()) {
            for (k, v) in m {
                let e = self.samples.entry(k.clone()).or_default();
                if let Some(a) = v.as_array() {
                    for s in a {
                        if e.len() < 3 && !e.contains(s) {
                            e.push(s.clone());
                        }
                    }
                }
            }
        }
    }

    fn merge_nt(&mut self, out: &Path) {
        let p = PathBuf::from(format!("{}.nt", out.display()));
        if let Ok(b) = std::fs::read(&p) {
            for c in b.chunks_exact(8) {
                self.nontrivial.insert(u64::from_le_bytes(c.try_into().unwrap()));
            }
        }
        let _ = std::fs::remove_file(p);
    }

    /// run `vf files` on one case file in a fresh child; returns (outcome, detail)
    fn run_one(&self, bin: &str, file: &Path, timeout: Duration) -> OneOutcome {
        let scratch = self.tmp.join(format!("one-{}.scratch", hash64(&(bin, file))));
        let out = self.tmp.join(format!("one-{}.json", hash64(&(bin, file))));
        let _ = std::fs::remove_file(&out);
        let mut c = match Command::new(bin)
            .arg("files")
            .arg("--prop")
            .arg(&self.a.prop)
            .arg("--scratch")
            .arg(&scratch)
            .arg("--out")
            .arg(&out)
            .arg("--strict")
            .arg("--")
            .arg(file)
            .stdin(Stdio::null())
            .stdout(Stdio::null())
            .stderr(Stdio::null())
            .spawn()
        {
            Ok(c) => c,
            Err(e) => return OneOutcome::Infra(format!("spawn {}: {}", bin, e)),
        };
        let t0 = Instant::now();
        loop {
            match c.try_wait() {
                Ok(Some(st)) => {
                    let stage = read_scratch(&scratch).map(|s| s.stage).unwrap_or(0);
                    let _ = std::fs::remove_file(&scratch);
                    if st.code() == Some(0) {
                        let v: Option<Value> = std::fs::read_to_string(&out).ok().and_then(|s| serde_json::from_str(&s).ok());
                        let _ = std::fs::remove_file(&out);
                        let r = v.as_ref().and_then(|v| v.get("results")).and_then(|r| r.get(0)).cloned();
                        return match r {
                            Some(r) if r.get("ok").and_then(|x| x.as_bool()) == Some(true) => OneOutcome::Pass,
                            Some(r) => OneOutcome::Fail(r),
                            None => OneOutcome::Infra("child wrote no result".into()),
                        };
                    }
                    if st.code() == Some(2) {
                        return OneOutcome::Infra("child reported an infrastructure error".into());
                    }
                    return OneOutcome::Died(describe_status(&st), stage);
                }
                Ok(None) => {
                    if t0.elapsed() > timeout {
                        let _ = c.kill();
                        let _ = c.wait();
                        let stage = read_scratch(&scratch).map(|s| s.stage).unwrap_or(0);
                        let _ = std::fs::remove_file(&scratch);
                        return OneOutcome::Hang(stage);
                    }
                    std::thread::sleep(Duration::from_millis(5));
                }
                Err(e) => return OneOutcome::Infra(format!("wait: {}", e)),
            }
        }
    }

    fn hang_secs() -> u64 {
        std::env::var("VERIF_HANG_SECS").ok().and_then(|x| x.parse().ok()).unwrap_or(20)
    }

    fn case_from_scratch(&self, s: &ScratchState) -> Value {
        let parts = (self.def.parts)(self.a.tier);
        let part = parts.get(s.part as usize).map(|p| p.name).unwrap_or("");
        match s.kind {
            0 => json!({"kind": "tape", "part": part, "case": {"tape": hex(&s.payload)}}),
            1 => {
                let mut b = [0u8; 8];
                b.copy_from_slice(&s.payload[..8.min(s.payload.len())]);
                json!({"kind": "enum", "part": part, "case": {"index": u64::from_le_bytes(b)}})
            }
            _ => json!({"kind": "file", "file": String::from_utf8_lossy(&s.payload)}),
        }
    }

    /// Try to reduce a tape whose case kills the process: truncation then zeroing, each candidate in a child.
    fn shrink_crash(&self, bin: &str, case: &Value) -> Value {
        let tape = match case.get("case").and_then(|c| c.get("tape")).and_then(|x| x.as_str()).and_then(unhex) {
            Some(t) => t,
            None => return case.clone(),
        };
        let dies = |t: &[u8]| -> bool {
            let mut c = case.clone();
            c["case"]["tape"] = json!(hex(t));
            let f = self.tmp.join("shrink-candidate.json");
            if std::fs::write(&f, c.to_string()).is_err() {
                return false;
            }
            matches!(self.run_one(bin, &f, Duration::from_secs(10)), OneOutcome::Died(_, st) if st >= STAGE_ARMED)
        };
        let mut cur = tape;
        let mut budget = 250;
        // truncate
        let mut step = cur.len() / 2;
        while step > 0 && budget > 0 {
            if cur.len() > step {
                let cand = cur[..cur.len() - step].to_vec();
                budget -= 1;
                if dies(&cand) {
                    cur = cand;
                    continue;
                }
            }
            step /= 2;
        }
        // zero chunks
        let mut chunk = (cur.len() / 2).max(1);
        while chunk > 0 && budget > 0 {
            let mut i = 0;
            while i < cur.len() && budget > 0 {
                let end = (i + chunk).min(cur.len());
                if cur[i..end].iter().any(|&x| x != 0) {
                    let mut cand = cur.clone();
                    for x in &mut cand[i..end] {
                        *x = 0;
                    }
                    budget -= 1;
                    if dies(&cand) {
                        cur = cand;
                    }
                }
                i = end;
            }
            chunk /= 2;
        }
        let mut c = case.clone();
        c["case"]["tape"] = json!(hex(&cur));
        c
    }

    fn spawn(&self, job: &Job) -> Result<Running, String> {
        let tag = format!("{}-{}-{}", job.profile, job.shard, job.restarts);
        let scratch = self.tmp.join(format!("{}.scratch", tag));
        let out = self.tmp.join(format!("{}.json", tag));
        let _ = std::fs::remove_file(&scratch);
        let mut cmd = Command::new(&job.bin);
        cmd.arg("shard")
            .arg("--prop")
            .arg(&self.a.prop)
            .arg("--tier")
            .arg(tier_str(self.a.tier))
            .arg("--shard")
            .arg(job.shard.to_string())
            .arg("--nshards")
            .arg(self.a.jobs.to_string())
            .arg("--seed")
            .arg(self.a.seed.to_string())
            .arg("--scale")
            .arg(self.a.scale_pct.to_string())
            .arg("--scratch")
            .arg(&scratch)
            .arg("--out")
            .arg(&out)
            .arg("--known")
            .arg(self.known_arg());
        if let Some(r) = job.resume_after {
            cmd.arg("--resume-after").arg(r.to_string());
        }
        // fds 1 and 2 of the children are pipes nobody reads from only for C19's own worker;
        // ordinary shards get /dev/null (the crate must not print; C19 decides that separately)
        let errf = std::fs::File::create(self.tmp.join(format!("{}.stderr", tag))).map_err(|e| format!("stderr file: {}", e))?;
        let child = cmd.stdin(Stdio::null()).stdout(Stdio::null()).stderr(Stdio::from(errf)).spawn().map_err(|e| format!("spawn {}: {}", job.bin, e))?;
        Ok(Running { job: Job { profile: job.profile.clone(), bin: job.bin.clone(), shard: job.shard, resume_after: job.resume_after, restarts: job.restarts }, child, scratch, out, last_serial: 0, last_change: Instant::now() })
    }

    fn handle_death(&mut self, r: &Running, what: String, pending: &mut Vec<Job>) {
        let st = match read_scratch(&r.scratch) {
            Some(s) => s,
            None => {
                self.infra.push(format!("child {} shard {} {} and left no scratch state", r.job.profile, r.job.shard, what));
                return;
            }
        };
        let case = self.case_from_scratch(&st);
        if st.stage >= STAGE_ARMED {
            // confirm in a fresh process
            let f = self.tmp.join(format!("confirm-{}-{}.json", r.job.profile, r.job.shard));
            let _ = std::fs::write(&f, case.to_string());
            match self.run_one(&r.job.bin, &f, Duration::from_secs(Self::hang_secs())) {
                OneOutcome::Died(desc, stage2) if stage2 >= STAGE_ARMED => {
                    let small = self.shrink_crash(&r.job.bin, &case);
                    let mut v = small;
                    v["profile"] = json!(r.job.profile);
                    v["reason"] = json!(format!("the process running the case died ({}) at stage {} (re-confirmed in a fresh process)", desc, stage2));
                    let p = self.save_replay(&v);
                    self.violations.push(Violation { replay: p, reason: v["reason"].as_str().unwrap_or("").to_string() });
                }
                OneOutcome::Fail(res) => {
                    let mut v = case.clone();
                    v["profile"] = json!(r.job.profile);
                    v["reason"] = res.get("reason").cloned().unwrap_or(Value::Null);
                    v["rendered"] = res.get("rendered").cloned().unwrap_or(Value::Null);
                    let p = self.save_replay(&v);
                    self.violations.push(Violation { replay: p, reason: v["reason"].as_str().unwrap_or("").to_string() });
                }
                OneOutcome::Hang(_) => {
                    self.hang_verdict(r, &case, "the case did not terminate when re-run alone");
                }
                other => {
                    self.infra.push(format!("child {} shard {} {} at stage {} but the case did not reproduce alone ({:?})", r.job.profile, r.job.shard, what, st.stage, other.tag()));
                }
            }
        } else {
            // death not attributable to the property: skip the case and go on
            if r.job.restarts >= 300 {
                self.infra.push(format!("child {} shard {} died {} times outside the property's own steps; giving up (see C01/C02)", r.job.profile, r.job.shard, r.job.restarts + 1));
                return;
            }
            *self.classes.entry("cases skipped: process died outside the property's own steps".into()).or_insert(0) += 1;
            pending.push(Job { profile: r.job.profile.clone(), bin: r.job.bin.clone(), shard: r.job.shard, resume_after: Some(st.serial), restarts: r.job.restarts + 1 });
        }
    }

    fn hang_verdict(&mut self, r: &Running, case: &Value, why: &str) {
        if self.a.prop == "C01" {
            let mut v = case.clone();
            v["profile"] = json!(r.job.profile);
            v["reason"] = json!(format!("non-termination: {} within {} s", why, Self::hang_secs()));
            let p = self.save_replay(&v);
            self.violations.push(Violation { replay: p, reason: v["reason"].as_str().unwrap_or("").to_string() });
        } else {
            self.infra.push(format!("a case did not terminate within {} s ({}); non-termination is C01's to report", Self::hang_secs(), why));
        }
    }

    fn handle_hang(&mut self, r: &Running, pending: &mut Vec<Job>) {
        let st = match read_scratch(&r.scratch) {
            Some(s) => s,
            None => {
                self.infra.push("hung child left no scratch state".into());
                return;
            }
        };
        let case = self.case_from_scratch(&st);
        let f = self.tmp.join(format!("hang-{}-{}.json", r.job.profile, r.job.shard));
        let _ = std::fs::write(&f, case.to_string());
        match self.run_one(&r.job.bin, &f, Duration::from_secs(Self::hang_secs())) {
            OneOutcome::Hang(_) => self.hang_verdict(r, &case, "the case did not terminate when re-run alone"),
            OneOutcome::Infra(e) => self.infra.push(e),
            _ => {
                // the case terminates alone: the stall was not the case's doing; continue after it
                if r.job.restarts >= 5 {
                    self.infra.push("repeated stalls without a non-terminating case".into());
                    return;
                }
                pending.push(Job { profile: r.job.profile.clone(), bin: r.job.bin.clone(), shard: r.job.shard, resume_after: Some(st.serial.saturating_sub(1)), restarts: r.job.restarts + 1 });
            }
        }
    }

    fn handle_done(&mut self, r: &Running) {
        let v: Value = match std::fs::read_to_string(&r.out).ok().and_then(|s| serde_json::from_str(&s).ok()) {
            Some(v) => v,
            None => {
                self.infra.push(format!("child {} shard {} wrote no result", r.job.profile, r.job.shard));
                return;
            }
        };
        if let Some(cx) = v.get("cx") {
            self.merge_cx(cx);
        }
        self.merge_nt(&r.out);
        if let Some(ps) = v.get("parts").and_then(|x| x.as_array()) {
            for p in ps {
                let name = p.get("name").and_then(|x| x.as_str()).unwrap_or("").to_string();
                let e = self.parts_seen.entry(name.clone()).or_insert_with(|| json!({"name": name, "kind": p.get("kind").cloned().unwrap_or(Value::Null), "cases": 0u64, "visited": 0u64}));
                if let Some(c) = p.get("cases").and_then(|x| x.as_u64()) {
                    e["cases"] = json!(e["cases"].as_u64().unwrap_or(0) + c);
                    e["max_tape"] = p.get("max_tape").cloned().unwrap_or(Value::Null);
                }
                if let Some(c) = p.get("visited").and_then(|x| x.as_u64()) {
                    e["visited"] = json!(e["visited"].as_u64().unwrap_or(0) + c);
                    e["size"] = p.get("size").cloned().unwrap_or(Value::Null);
                }
            }
        }
        if let Some(fs) = v.get("failures").and_then(|x| x.as_array()) {
            for f in fs {
                let p = self.save_replay(f);
                self.violations.push(Violation { replay: p, reason: f.get("reason").and_then(|x| x.as_str()).unwrap_or("").to_string() });
            }
        }
        let _ = std::fs::remove_file(&r.out);
        let _ = std::fs::remove_file(&r.scratch);
    }

    fn run_regressions(&mut self) {
        if std::env::var("VERIF_SKIP_REGRESSIONS").map(|v| !v.is_empty()).unwrap_or(false) {
            return; // sensitivity experiments only: shows what the generated search finds on its own
        }
        let dir = self.a.verif.join("regressions").join(&self.a.prop);
        let mut files: Vec<PathBuf> = match std::fs::read_dir(&dir) {
            Ok(rd) => rd.filter_map(|e| e.ok()).map(|e| e.path()).filter(|p| p.extension().map(|x| x == "json").unwrap_or(false)).collect(),
            Err(_) => Vec::new(),
        };
        files.sort();
        for f in files {
            for (profile, bin) in self.profiles() {
                self.regressions += 1;
                match self.run_one(&bin, &f, Duration::from_secs(Self::hang_secs())) {
                    OneOutcome::Pass => {}
                    OneOutcome::Fail(res) => {
                        self.violations.push(Violation { replay: f.clone(), reason: format!("regression case fails in {}: {}", profile, res.get("reason").and_then(|x| x.as_str()).unwrap_or("")) });
                    }
                    OneOutcome::Died(desc, stage) => {
                        if stage >= STAGE_ARMED {
                            self.violations.push(Violation { replay: f.clone(), reason: format!("regression case kills the process in {} ({})", profile, desc) });
                        } else {
                            self.infra.push(format!("regression {} died outside the property's own steps in {} ({})", f.display(), profile, desc));
                        }
                    }
                    OneOutcome::Hang(_) => {
                        if self.a.prop == "C01" {
                            self.violations.push(Violation { replay: f.clone(), reason: format!("regression case does not terminate in {}", profile) });
                        } else {
                            self.infra.push(format!("regression {} did not terminate", f.display()));
                        }
                    }
                    OneOutcome::Infra(e) => self.infra.push(e),
                }
            }
        }
    }

    pub fn run_replay(&mut self, path: &str) -> i32 {
        let f = PathBuf::from(path);
        let profile_hint: Option<String> = std::fs::read_to_string(&f).ok().and_then(|s| serde_json::from_str::<Value>(&s).ok()).and_then(|v| v.get("profile").and_then(|x| x.as_str()).map(|s| s.to_string()));
        let mut failed = false;
        for (profile, bin) in self.a.bins.clone() {
            let r = self.run_one(&bin, &f, Duration::from_secs(Self::hang_secs()));
            let line = match &r {
                OneOutcome::Pass => "pass".to_string(),
                OneOutcome::Fail(res) => {
                    failed = true;
                    format!("FAIL: {}", res.get("reason").and_then(|x| x.as_str()).unwrap_or(""))
                }
                OneOutcome::Died(d, st) => {
                    if *st >= STAGE_ARMED {
                        failed = true;
                    }
                    format!("process died ({}) at stage {}", d, st)
                }
                OneOutcome::Hang(_) => {
                    if self.a.prop == "C01" {
                        failed = true;
                    }
                    "did not terminate".to_string()
                }
                OneOutcome::Infra(e) => {
                    eprintln!("replay infrastructure error: {}", e);
                    return 2;
                }
            };
            println!("replay {} [{}{}]: {}", path, profile, if profile_hint.as_deref() == Some(profile.as_str()) { ", profile of the original failure" } else { "" }, line);
        }
        if failed {
            println!("VIOLATION property={} replay={}", self.a.prop, path);
            1
        } else {
            0
        }
    }

    pub fn run(&mut self) -> i32 {
        self.run_regressions();
        let mut pending: Vec<Job> = Vec::new();
        for (profile, bin) in self.profiles() {
            self.profiles_run.push(profile.clone());
            for s in 0..self.a.jobs as u64 {
                pending.push(Job { profile: profile.clone(), bin: bin.clone(), shard: s, resume_after: None, restarts: 0 });
            }
        }
        pending.reverse();
        let mut running: Vec<Running> = Vec::new();
        let hang = Duration::from_secs(Self::hang_secs());
        while !pending.is_empty() || !running.is_empty() {
            while running.len() < self.a.jobs && !pending.is_empty() {
                let j = pending.pop().unwrap();
                match self.spawn(&j) {
                    Ok(r) => running.push(r),
                    Err(e) => {
                        self.infra.push(e);
                    }
                }
            }
            let mut i = 0;
            let mut progressed = false;
            while i < running.len() {
                let status = running[i].child.try_wait();
                match status {
                    Ok(Some(st)) => {
                        let r = running.swap_remove(i);
                        progressed = true;
                        if st.code() == Some(0) {
                            self.handle_done(&r);
                        } else if st.code() == Some(2) {
                            let tag = format!("{}-{}-{}", r.job.profile, r.job.shard, r.job.restarts);
                            let err = std::fs::read_to_string(self.tmp.join(format!("{}.stderr", tag))).unwrap_or_default();
                            self.infra.push(format!("child {} shard {} reported an infrastructure error: {}", r.job.profile, r.job.shard, err.trim()));
                        } else {
                            if self.violations.is_empty() {
                                self.handle_death(&r, describe_status(&st), &mut pending);
                            }
                            let _ = std::fs::remove_file(&r.scratch);
                        }
                    }
                    Ok(None) => {
                        let s = read_serial(&running[i].scratch);
                        if s != running[i].last_serial {
                            running[i].last_serial = s;
                            running[i].last_change = Instant::now();
                        } else if running[i].last_change.elapsed() > hang {
                            let mut r = running.swap_remove(i);
                            let _ = r.child.kill();
                            let _ = r.child.wait();
                            self.handle_hang(&r, &mut pending);
                            let _ = std::fs::remove_file(&r.scratch);
                            progressed = true;
                            continue;
                        }
                        i += 1;
                    }
                    Err(e) => {
                        self.infra.push(format!("wait: {}", e));
                        running.swap_remove(i);
                    }
                }
            }
            if !self.violations.is_empty() || !self.infra.is_empty() {
                // stop early: kill what is still running
                for r in running.iter_mut() {
                    let _ = r.child.kill();
                    let _ = r.child.wait();
                }
                running.clear();
                pending.clear();
            }
            if !progressed {
                std::thread::sleep(Duration::from_millis(15));
            }
        }
        self.finish()
    }

    fn finish(&mut self) -> i32 {
        let wall = self.t0.elapsed().as_secs_f64();
        // evidence
        let mut samples: Vec<Value> = Vec::new();
        for (fam, v) in &self.samples {
            for s in v {
                let mut s = s.clone();
                if let Some(o) = s.as_object_mut() {
                    o.entry("family").or_insert(json!(fam));
                }
                samples.push(s);
            }
        }
        let parts: Vec<Value> = self.parts_seen.values().cloned().map(|mut p| {
            let ex = p.get("kind").and_then(|k| k.as_str()) == Some("enum") && p.get("visited").and_then(|x| x.as_u64()) == p.get("size").and_then(|x| x.as_u64()).map(|s| s * self.profiles_run.len() as u64);
            p["exhaustive"] = json!(ex);
            p
        }).collect();
        let all_enum = !parts.is_empty() && parts.iter().all(|p| p["exhaustive"] == json!(true));
        let mut classes = Map::new();
        for (k, v) in &self.classes {
            classes.insert(k.clone(), json!(v));
        }
        let mut fuzz = Value::Null;
        if let Some(fs) = &self.a.fuzz_stats {
            if let Ok(s) = std::fs::read_to_string(fs) {
                fuzz = serde_json::from_str(&s).unwrap_or(Value::Null);
                if let Some(n) = fuzz.get("runs").and_then(|x| x.as_u64()) {
                    self.merged_evals += n;
                }
            }
        }
        let ev = json!({
            "property_id": self.a.prop,
            "tier": tier_str(self.a.tier),
            "seed": self.a.seed,
            "level": "exploration",
            "coverage": {
                "evaluations": self.merged_evals,
                "distinct_nontrivial": self.nontrivial.len(),
                "distinct_nontrivial_note": format!("union over shards of 64-bit hashes of non-trivial cases; each shard records at most {} hashes, so the number is a lower bound", NONTRIVIAL_CAP),
                "rule": self.def.rule,
                "samples": samples,
                "exhaustive": all_enum,
                "exhaustive_subspaces": self.def.exhaustive_note,
                "parts": parts,
                "profiles": self.profiles_run,
                "classes": classes,
                "mins": self.mins,
                "excluded_known": self.excluded,
                "regressions_replayed": self.regressions,
                "fuzz": fuzz,
                "scale_pct": self.a.scale_pct,
            },
            "assumptions": self.def.assumptions,
            "wall_s": wall,
            "violations": self.violations.len(),
        });
        // sensitivity experiments (tools/mutate.sh) send their evidence elsewhere so that the committed files
        // always describe the unchanged tree
        let evdir = std::env::var("VERIF_EVIDENCE_DIR").map(PathBuf::from).unwrap_or_else(|_| self.a.verif.join("evidence"));
        let _ = std::fs::create_dir_all(&evdir);
        let evp = evdir.join(format!("{}.json", self.a.prop));
        if let Err(e) = std::fs::write(&evp, serde_json::to_string_pretty(&ev).unwrap()) {
            self.infra.push(format!("cannot write evidence: {}", e));
        }
        let _ = std::fs::remove_dir_all(&self.tmp);

        for k in &self.known {
            let n = self.excluded.get(&k.sig).copied().unwrap_or(0);
            println!("KNOWN-FINDING: property={} sig={} {} (cases matching this run: {})", self.a.prop, k.sig, k.text, n);
        }
        // one line per distinct reason (at most 5); every replay file is kept on disk
        let mut seen: Vec<String> = Vec::new();
        for v in &self.violations {
            let key: String = v.reason.chars().filter(|c| !c.is_ascii_digit()).collect();
            if seen.contains(&key) {
                continue;
            }
            seen.push(key);
            if seen.len() > 5 {
                break;
            }
            println!("VIOLATION property={} replay={}", self.a.prop, v.replay.display());
            println!("  reason: {}", v.reason);
        }
        if self.violations.len() > seen.len().min(5) {
            println!("  ({} failing cases in total; the others repeat the reasons above, replay files are in {})", self.violations.len(), self.a.verif.join("replays").join(&self.a.prop).display());
        }
        if !self.violations.is_empty() {
            return 1;
        }
        if !self.infra.is_empty() {
            for e in &self.infra {
                eprintln!("INCONCLUSIVE: {}", e);
            }
            return 2;
        }
        println!(
            "{} {}: held on {} evaluations ({} distinct non-trivial) in {:.1}s, profiles {:?}",
            self.a.prop,
            tier_str(self.a.tier),
            self.merged_evals,
            self.nontrivial.len(),
            wall,
            self.profiles_run
        );
        if self.nontrivial.len() < 2 || self.merged_evals == 0 {
            eprintln!("INCONCLUSIVE: the run explored fewer than 2 distinct non-trivial cases");
            return 2;
        }
        0
    }
}

#[derive(Debug)]
pub enum OneOutcome {
    Pass,
    Fail(Value),
    Died(String, u32),
    /// stage at which the case was when the watchdog fired (kept for debugging output)
    #[allow(dead_code)]
    Hang(u32),
    Infra(String),
}
impl OneOutcome {
    fn tag(&self) -> &'static str {
        match self {
            OneOutcome::Pass => "pass",
            OneOutcome::Fail(_) => "fail",
            OneOutcome::Died(..) => "died",
            OneOutcome::Hang(_) => "hang",
            OneOutcome::Infra(_) => "infra",
        }
    }
}

fn describe_status(st: &std::process::ExitStatus) -> String {
    use std::os::unix::process::ExitStatusExt;
    if let Some(sig) = st.signal() {
        let name = match sig {
            6 => "SIGABRT",
            11 => "SIGSEGV",
            4 => "SIGILL",
            7 => "SIGBUS",
            9 => "SIGKILL",
            _ => "signal",
        };
        format!("{} ({})", name, sig)
    } else {
        format!("exit status {:?}", st.code())
    }
}
