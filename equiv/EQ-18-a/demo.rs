// Demo for change `a`: DecodeError Display texts reworded, hexadecimal added next to decimal.
// PASSES with the change, FAILS on the original crate.
use rl2tp::avp::AVP;
use rl2tp::common::{DecodeError, SliceReader};

#[test]
fn display_has_hex_addition_and_new_wording() {
    // Unassigned attribute type: the decimal number is still shown, hex is added.
    let s = DecodeError::UnknownAvp(40).to_string();
    assert!(s.contains("40"), "{s}");
    assert!(s.contains("0x0028"), "{s}");
    assert_eq!(s, "unknown AVP type: 40 (0x0028)");

    // AVP-related error: kind name still shown, hex of the attribute type added.
    let s = DecodeError::IncompleteAVP(7).to_string();
    assert!(s.contains("HostName"), "{s}");
    assert!(s.contains("0x0007"), "{s}");
    assert_eq!(s, "AVP HostName is incomplete [attribute type 0x0007]");

    // Unassigned number in an AVP-related error: decimal number shown as the name.
    let s = DecodeError::InvalidUtf8(20).to_string();
    assert!(s.contains("20"), "{s}");
    assert!(s.contains("0x0014"), "{s}");

    let s = DecodeError::InvalidVersion(3).to_string();
    assert_eq!(s, "invalid version field: 3 (0x3), expected 2");
}

#[test]
fn display_of_a_real_decode_error() {
    // AVP record: M bit, length 8, vendor 0, attribute type 200 (unassigned), 2 payload octets.
    let bytes = [0x01u8, 0x08, 0x00, 0x00, 0x00, 0xC8, 0xAA, 0xBB];
    let mut r = SliceReader::from(&bytes[..]);
    let res = AVP::try_read_greedy(&mut r);
    assert_eq!(res.len(), 1);
    let e = res.into_iter().next().unwrap().unwrap_err();
    assert_eq!(e, DecodeError::UnknownAvp(200));
    assert_eq!(e.to_string(), "unknown AVP type: 200 (0x00C8)");
}

#[test]
fn every_variant_renders_non_empty_for_every_payload() {
    for x in 0..=u16::MAX {
        for e in [
            DecodeError::IncompleteAVP(x),
            DecodeError::UnknownMessageType(x),
            DecodeError::InvalidUtf8(x),
            DecodeError::InvalidResultCodeErrorType(x),
            DecodeError::AVPReadError(x),
            DecodeError::InvalidAVPLength(x),
            DecodeError::UnknownAvp(x),
            DecodeError::InvalidOriginalAVPLength(x),
            DecodeError::UnsupportedVendorId(x),
            DecodeError::InvalidOffset(x),
            DecodeError::InvalidVersion(x as u8),
        ] {
            let s = e.to_string();
            assert!(!s.is_empty());
            assert!(s.contains("0x"), "{s}");
        }
    }
}
