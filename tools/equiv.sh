#!/bin/bash
# tools/equiv.sh <n> <x>: import a property-preserving change from /tmp/w3-<n>/out/<x> (or /verif/equiv/EQ-<n>-<x>), confirm
# it (suite passes; demo passes with it and fails without it), run all 20 checks INCLUDING the regression cases against it:
# every check must stay silent (exit 0). Records the result in equiv/EQ-<n>-<x>/meta.json.
set -u
V="$(cd "$(dirname "$0")/.." && pwd)"
N="$1"; X="$2"; NAME="EQ-$N-$X"
SRC="/tmp/w3-$N/out/$X"; DST="$V/equiv/$NAME"
mkdir -p "$DST"
[ -f "$SRC/patch.diff" ] && cp "$SRC/patch.diff" "$SRC/demo.rs" "$SRC/meta.txt" "$DST/" 2>/dev/null
[ -f "$DST/patch.diff" ] || { echo "no patch for $NAME" >&2; exit 2; }
W="/tmp/verify-$NAME"
git -C /repo worktree remove --force "$W" 2>/dev/null
git -C /repo worktree add -q --detach "$W" HEAD || exit 2
cleanup() { git -C /repo worktree remove --force "$W" 2>/dev/null; rm -rf "$W"; }
trap cleanup EXIT
cd "$W" || exit 2
export CARGO_NET_OFFLINE=true CARGO_TARGET_DIR="/tmp/verify-target"
mkdir -p tests && cp "$DST/demo.rs" tests/demo.rs
cargo test --offline --test demo >/dev/null 2>&1; base_rc=$?
git apply "$DST/patch.diff" || { echo "patch does not apply"; exit 2; }
suite=$(cargo test --offline --lib 2>&1 | grep -E "^test result" | tail -1)
doc=$(cargo test --offline --doc 2>&1 | grep -E "^test result" | tail -1)
cargo test --offline --test demo >/dev/null 2>&1; mut_rc=$?
cd "$V"
ok=1; [ $base_rc -ne 0 ] || ok=0; [ $mut_rc -eq 0 ] || ok=0
echo "$suite" | grep -q "ok\. 98 passed" || ok=0; echo "$doc" | grep -q "ok\. 3 passed" || ok=0
res=$(MUTATE_SKIP_TESTS=1 MUTATE_SKIP_REGRESSIONS= VERIF_SCALE_PCT="${EQUIV_SCALE_PCT:-50}" "$V/tools/mutate.sh" "$DST/patch.diff" 2>&1)
alarms=$(echo "$res" | grep '^CAUGHT:' | sed 's/^CAUGHT: *//'); other=$(echo "$res" | grep '^OTHER:' | sed 's/^OTHER: *//')
reasons=$(echo "$res" | grep -E '^  C[0-9]+' | head -8)
echo "[$NAME] confirmed=$ok (demo without: rc=$base_rc, with: rc=$mut_rc) ALARMS: ${alarms:-none} OTHER: ${other:-none}"
[ -n "$reasons" ] && echo "$reasons"
python3 - "$DST" "$NAME" "$ok" "$suite" "$doc" "$base_rc" "$mut_rc" "$alarms" "$other" "$reasons" <<'PY'
import json, sys, os
dst, name, ok, suite, doc, brc, mrc, alarms, other, reasons = sys.argv[1:11]
meta = open(os.path.join(dst, 'meta.txt')).read() if os.path.exists(os.path.join(dst, 'meta.txt')) else ''
json.dump({"id": name, "kind": "property-preserving change: all 20 properties still hold, behaviour differs where they leave it open",
  "author": "independent sub-agent given the 20 property texts and a scratch worktree", "what_changes": meta.strip(),
  "confirmed": ok == '1',
  "what_was_run": {"scratch worktree": {"cargo test --lib with the change": suite, "cargo test --doc with the change": doc, "demo exit code without the change": int(brc), "demo exit code with the change": int(mrc)},
                   "all 20 checks incl. regression cases, VERIF_SCALE_PCT=" + os.environ.get('EQUIV_SCALE_PCT', '50'): {"checks reporting VIOLATION (false alarms unless the change does break the property)": alarms.split(), "checks exiting 2": other.split(), "reasons": reasons.splitlines()}}},
  open(os.path.join(dst, 'meta.json'), 'w'), indent=1)
PY
