// What the same thread did just before a case must not matter (C19 states it; every encode/decode property assumes it).
// `prior_ops` performs 0..3 unrelated codec calls - results discarded - before a check's own calls, so that state
// left behind by an earlier call (a memo keyed too coarsely, a scratch buffer not cleared after a refused encode, a cache
// of the previous secret) shows up as a failure of the property that is then checked.
use crate::cx::*;
use crate::gen::*;
use crate::glue::*;
use crate::spec::*;

pub fn prior_ops(t: &mut Tape, cx: &mut Cx, allow_refusal: bool) {
    let n = match t.below(8) {
        0..=4 => 0,
        5 => 1,
        6 => 2,
        _ => 3,
    };
    if n > 0 {
        cx.class("unrelated codec calls were made on the same thread just before the case");
    }
    cx.stage(STAGE_UNATTRIBUTED);
    for _ in 0..n {
        match t.below(7) {
            0 | 1 => {
                let d = gen_data_small(t);
                let _ = crate_encode_msg(&d);
            }
            2 => {
                let k = t.below(4);
                let c = gen_control_k(t, k);
                let _ = crate_encode_msg(&c);
            }
            3 => {
                let b = gen_wire(t);
                let _ = crate_decode(&b, all_opts()[t.below(8)]);
            }
            4 => {
                let a = gen_avp(t);
                let _ = crate_encode_avp(&a);
            }
            5 => {
                let attr = ASSIGNED[t.below(39)];
                let a = SAvp { attr, hidden: false, body: gen_body_max(t, attr, 60) };
                let sl = t.below(12);
                let s = t.blob(sl);
                let rv = t.u32().to_be_bytes();
                let _ = guard(|| {
                    let h = to_crate(&a).hide(&s, &rv.into(), &[], &[0; 16]);
                    h.reveal(&s, &rv.into()).is_ok()
                });
            }
            _ if allow_refusal => {
                // an encode that is refused (oversize), caught
                cx.class("a refused encode was among the calls made just before the case");
                let big = SAvp { attr: [7u16, 11, 8][t.below(3)], hidden: false, body: if t.chance(50) { Body::Blob(vec![0x33; 1018 + t.below(40)]) } else { Body::Blob(vec![0x34; 1500]) } };
                let big = if big.attr == 8 { SAvp { attr: 8, hidden: false, body: Body::Text("x".repeat(1018 + t.below(30))) } } else { big };
                match t.below(3) {
                    0 => {
                        let _ = crate_encode_avp(&big);
                    }
                    1 => {
                        let m = SMsg::Control { length: 0, tunnel: 1, session: 2, ns: 3, nr: 4, avps: vec![SAvp { attr: 0, hidden: false, body: Body::U16(1) }, SAvp { attr: 9, hidden: false, body: Body::U16(7) }, big] };
                        let _ = crate_encode_msg(&m);
                    }
                    _ => {
                        let _ = guard(|| to_crate(&big).hide(b"s", &[9, 9, 9, 9].into(), &[], &[0; 16]));
                    }
                }
            }
            _ => {}
        }
    }
    cx.stage(STAGE_SETUP);
}

// ---------------------------------------------------------------- caller contexts
// The codec's results must not depend on what the *calling thread* is doing. Two contexts a library user really has:
// a destructor that runs while the thread unwinds from a panic (tunnel teardown sending StopCCN from Drop), and a
// thread-local destructor that runs at thread exit, possibly after thread-locals the library created are gone.

struct HarnessUnwind;

/// Run `f` from a destructor that executes while the calling thread is unwinding (`std::thread::panicking()` is true).
/// A panic raised by `f` is caught inside the destructor (it must not escape it), exactly as `guard` does elsewhere.
pub fn while_unwinding<R>(f: impl FnOnce() -> R) -> Caught<R> {
    struct G<F: FnOnce() -> R, R> {
        f: Option<F>,
        out: *mut Option<Caught<R>>,
    }
    impl<F: FnOnce() -> R, R> Drop for G<F, R> {
        fn drop(&mut self) {
            if let Some(f) = self.f.take() {
                let r = guard(f);
                unsafe { *self.out = Some(r) }
            }
        }
    }
    install_silent_hook();
    let mut out: Option<Caught<R>> = None;
    let p = &mut out as *mut Option<Caught<R>>;
    let _ = std::panic::catch_unwind(std::panic::AssertUnwindSafe(|| {
        let _g = G { f: Some(f), out: p };
        // no hook, no message: a plain unwind raised by the harness itself
        std::panic::resume_unwind(Box::new(HarnessUnwind));
    }));
    out.expect("the destructor ran")
}

struct AtExit(std::cell::RefCell<Option<Box<dyn FnOnce()>>>);
impl Drop for AtExit {
    fn drop(&mut self) {
        let f = self.0.borrow_mut().take();
        if let Some(f) = f {
            f()
        }
    }
}
thread_local! {
    static EXIT_EARLY: AtExit = AtExit(std::cell::RefCell::new(None));
    static EXIT_LATE: AtExit = AtExit(std::cell::RefCell::new(None));
}

/// Run `f` three times on a fresh thread: in its body, and from two thread-local destructors at thread exit, one registered
/// before and one after the body's call (so that, whatever order the platform destroys thread-locals in, one of them runs after
/// the thread-locals the callee may have created were destroyed). `f` must catch its own panics (use `guard`).
/// Returns [body, destructor registered first, destructor registered last]; None if the thread could not be created.
pub fn at_thread_exit<R: Send + 'static>(f: std::sync::Arc<dyn Fn() -> R + Send + Sync>) -> Option<Vec<R>> {
    use std::sync::{Arc, Mutex};
    let slot: Arc<Mutex<Vec<(u8, R)>>> = Arc::new(Mutex::new(Vec::new()));
    let s2 = slot.clone();
    let h = std::thread::Builder::new()
        .spawn(move || {
            let (fa, sa) = (f.clone(), s2.clone());
            EXIT_EARLY.with(|a| {
                *a.0.borrow_mut() = Some(Box::new(move || {
                    let r = fa();
                    if let Ok(mut g) = sa.lock() {
                        g.push((1, r));
                    }
                }))
            });
            let r = f();
            if let Ok(mut g) = s2.lock() {
                g.push((0, r));
            }
            let (fb, sb) = (f.clone(), s2.clone());
            EXIT_LATE.with(|a| {
                *a.0.borrow_mut() = Some(Box::new(move || {
                    let r = fb();
                    if let Ok(mut g) = sb.lock() {
                        g.push((2, r));
                    }
                }))
            });
        })
        .ok()?;
    h.join().ok()?;
    let mut v = std::mem::take(&mut *slot.lock().ok()?);
    v.sort_by_key(|x| x.0);
    if v.len() != 3 {
        return None;
    }
    Some(v.into_iter().map(|x| x.1).collect())
}

pub const CONTEXT_NAMES: [&str; 4] = [
    "from a destructor while the calling thread unwinds",
    "on a fresh thread",
    "from a thread-local destructor at thread exit (registered before the thread's own calls)",
    "from a thread-local destructor at thread exit (registered after the thread's own calls)",
];

/// `f` renders the result of some codec calls (panics caught and rendered by `f` itself). Returns the first context in which the
/// rendering differs from `want`, with what it was there; Ok(true) if all four contexts were run, Ok(false) if no thread could be had.
pub fn same_in_contexts(want: &str, f: std::sync::Arc<dyn Fn() -> String + Send + Sync>) -> Result<bool, (&'static str, String)> {
    let r = match while_unwinding(|| f()) {
        Caught::Ok(s) => s,
        _ => "panic".to_string(),
    };
    if r != want {
        return Err((CONTEXT_NAMES[0], r));
    }
    match at_thread_exit(f) {
        Some(rs) => {
            for (k, r) in rs.into_iter().enumerate() {
                if r != want {
                    return Err((CONTEXT_NAMES[1 + k], r));
                }
            }
            Ok(true)
        }
        None => Ok(false),
    }
}
