// C10 — re-encoding a decoded message is stable: one round reaches a fixed point.
use crate::cx::*;
use crate::gen::*;
use crate::glue::*;
use crate::prop::*;
use crate::spec::*;
use rl2tp::common::{SliceReader, VecWriter};
use rl2tp::Message;
use serde_json::{json, Value};

pub static DEF: PropDef = PropDef {
    id: "C10",
    title: "Re-encoding a decoded message is stable",
    rule: "Inputs: G-noncanon tapes (accepted by construction: reserved flag bits, version nibble, P/O on control - each only under options that allow it - M unset, AVP reserved bits, surplus payload \
octets on fixed-size kinds, junk reserved octets, fewer than 6 trailing octets in the AVP region, octets after the declared Length) and the accepted subset of G-wire tapes, each under the options that \
accepted it; data messages only without the O bit. Oracle: m = decode(b, opts); e1 = encode(m); decode_strict(e1) = Ok(m') with m' = m up to the control Length field and m'.length = |e1|; encode(m') = e1. \
Non-trivial = e1 differs from the octets consumed (the input really was non-canonical); distinct by hash of (input, options).",
    assumptions: &[],
    parts,
    run_tape,
    run_enum: no_enum,
    run_concrete,
    both_profiles: true,
    exhaustive_note: "",
};

fn parts(t: Tier) -> Vec<Part> {
    let (a, b) = match t {
        Tier::Quick => (750_000, 900_000),
        Tier::Thorough => (8_000_000, 10_000_000),
    };
    vec![tape("noncanon", a, 900), tape("wire", b, 900)]
}

pub fn check(b: &[u8], o: Opts, must_accept: bool, dress: Option<&Dress>, family: &'static str, cx: &mut Cx) -> Res {
    cx.eval();
    let render = || json!({"input": hex_short(b), "opts": opts_str(o)});
    cx.stage(STAGE_UNATTRIBUTED);
    // everything on crate values; projections only for rendering
    let r = guard(|| {
        let mut rd = SliceReader::from(b);
        let m: Message<&[u8]> = match Message::try_read_validate(&mut rd, copts(o)) {
            Ok(m) => m,
            Err(e) => return Err(format!("{:?}", e)),
        };
        let consumed = b.len() - rl2tp::common::Reader::len(&rd);
        let mut w = VecWriter::new();
        m.write(&mut w);
        Ok((m, consumed, w.data))
    });
    let (m, consumed, e1) = match r {
        Caught::Ok(Ok(x)) => x,
        Caught::Ok(Err(e)) => {
            if must_accept {
                return fail(format!("harness: an input built to be accepted was rejected: {} (C05 territory)", e), render());
            }
            cx.class("not accepted (outside the property's domain)");
            return Ok(());
        }
        _ => {
            cx.class("decode or first encode panicked (C01/C07 territory)");
            return Ok(());
        }
    };
    if let Message::Data(_) = &m {
        let w = ((b[0] as u16) << 8) | b[1] as u16;
        if w & O != 0 {
            cx.class("data message with the O bit (outside the property's domain)");
            return Ok(());
        }
    }
    cx.stage(STAGE_ARMED);
    let r2 = guard(|| {
        let mut rd = SliceReader::from(&e1[..]);
        let m2: Result<Message<&[u8]>, _> = Message::try_read_validate(&mut rd, copts(STRICT));
        let left = rl2tp::common::Reader::len(&rd);
        match m2 {
            Err(e) => Err(format!("strict decoding of the re-encoding was rejected: {:?}", e)),
            Ok(m2) => {
                // m' = m up to the control Length field, which tracks the new size
                let same = match (&m, &m2) {
                    (Message::Control(a), Message::Control(b2)) => {
                        a.tunnel_id == b2.tunnel_id && a.session_id == b2.session_id && a.ns == b2.ns && a.nr == b2.nr && a.avps == b2.avps && b2.length as usize == e1.len()
                    }
                    (Message::Data(a), Message::Data(b2)) => a == b2,
                    _ => false,
                };
                if !same {
                    return Err(format!("the re-decoded value differs: m = {:?}  m' = {:?}", crate::props::c04::short(&from_crate_msg(&m)), crate::props::c04::short(&from_crate_msg(&m2))));
                }
                if left != 0 {
                    return Err(format!("{} octets left after strictly decoding the re-encoding", left));
                }
                let mut w = VecWriter::new();
                m2.write(&mut w);
                if w.data != e1 {
                    return Err(format!("encode(m') differs from encode(m): {} vs {}", hex_short(&w.data), hex_short(&e1)));
                }
                Ok(())
            }
        }
    });
    cx.stage(STAGE_SETUP);
    match r2 {
        Caught::Ok(Ok(())) => {}
        Caught::Ok(Err(why)) => {
            let mut v = render();
            v["re_encoding"] = json!(hex_short(&e1));
            return fail(why, v);
        }
        Caught::Panic(p) => return fail(format!("re-decoding / re-encoding panicked: {}", p.short()), render()),
        Caught::Monitor(_) => return fail("unexpected panic payload", render()),
    }
    let noncanon = e1[..] != b[..consumed.min(b.len())];
    if noncanon {
        cx.nontrivial(&(b, o.reserved, o.version, o.unused));
        cx.class("accepted, non-canonical input normalised in one step");
    } else {
        cx.class("accepted, canonical input");
    }
    if let Some(d) = dress {
        if d.reserved_flag_bits {
            cx.class("normalised: reserved flag bits");
        }
        if d.version_not_2 {
            cx.class("normalised: version nibble");
        }
        if d.ctrl_p_or_o {
            cx.class("normalised: P/O on control");
        }
        if d.m_unset {
            cx.class("normalised: M bit unset");
        }
        if d.avp_reserved_bits {
            cx.class("normalised: AVP reserved bits");
        }
        if d.surplus {
            cx.class("normalised: surplus payload octets");
        }
        if d.reserved_octets {
            cx.class("normalised: junk reserved octets");
        }
        if d.trailing_in_region > 0 {
            cx.class("normalised: < 6 trailing octets in the AVP region");
        }
        if d.after_length > 0 {
            cx.class("normalised: octets after the declared Length");
        }
    }
    cx.class(match &m {
        Message::Control(_) => "fixed point: control message",
        Message::Data(_) => "fixed point: data message",
    });
    cx.sample(family, || json!({"input": hex_short(b), "opts": opts_str(o), "re_encoding": hex_short(&e1), "family": family}));
    Ok(())
}

fn run_tape(part: &str, tape: &[u8], cx: &mut Cx) -> Res {
    let mut t = Tape::new(tape);
    match part {
        "noncanon" => {
            let (b, o, _v, d) = encode_noncanon(&mut t);
            check(&b, o, true, Some(&d), "noncanon", cx)
        }
        _ => {
            let b = gen_wire(&mut t);
            // weakest options accept the most; also try one random option set
            check(&b, Opts { reserved: false, version: false, unused: false }, false, None, "wire", cx)?;
            let o = all_opts()[t.below(8)];
            check(&b, o, false, None, "wire", cx)
        }
    }
}

fn run_concrete(case: &Value, cx: &mut Cx) -> Res {
    match case.get("input").and_then(|x| x.as_str()).and_then(unhex) {
        Some(b) => {
            for o in all_opts() {
                check(&b, o, false, None, "concrete", cx)?;
            }
            Ok(())
        }
        None => fail("bad concrete case", case.clone()),
    }
}
