// Demo for change `a`: a data message whose Length field is smaller than the fixed
// header AND whose Offset Size points past the end of the buffer (two faults at once).
// Original crate: Err([InvalidOffset(..)]); changed crate: Err([IncompleteDataMessageHeader]).
use rl2tp::common::{DecodeError, SliceReader};
use rl2tp::{Message, ValidateReserved, ValidateUnused, ValidateVersion, ValidationOptions};

fn strict() -> ValidationOptions {
    ValidationOptions {
        reserved: ValidateReserved::Yes,
        version: ValidateVersion::Yes,
        unused: ValidateUnused::Yes,
    }
}

fn decode(input: &[u8]) -> Result<Message<&[u8]>, Vec<DecodeError>> {
    Message::try_read_validate(&mut SliceReader::from(input), strict())
}

#[test]
fn two_faults_length_too_small_and_offset_too_large() {
    let input = [
        0x42, 0x20, // flags: L + O, version 2
        0x00, 0x03, // Length = 3 (smaller than the 10-octet header)
        0x00, 0x01, // tunnel id
        0x00, 0x02, // session id
        0xff, 0xff, // Offset Size far beyond the buffer
        0xaa, // one octet
    ];
    assert_eq!(
        decode(&input),
        Err(vec![DecodeError::IncompleteDataMessageHeader])
    );
}

#[test]
fn single_faults_keep_their_error() {
    // Only the Offset Size is wrong (Length is the true size, 11).
    let only_offset = [
        0x42, 0x20, 0x00, 0x0b, 0x00, 0x01, 0x00, 0x02, 0x00, 0x09, 0xaa,
    ];
    assert_eq!(decode(&only_offset), Err(vec![DecodeError::InvalidOffset(9)]));
    // Only the Length is wrong (Offset Size 0 is fine).
    let only_length = [
        0x42, 0x20, 0x00, 0x03, 0x00, 0x01, 0x00, 0x02, 0x00, 0x00, 0xaa,
    ];
    assert_eq!(
        decode(&only_length),
        Err(vec![DecodeError::IncompleteDataMessageHeader])
    );
    // Length covers the fixed fields but not the offset padding.
    let length_inside_pad = [
        0x42, 0x20, 0x00, 0x0a, 0x00, 0x01, 0x00, 0x02, 0x00, 0x01, 0x00, 0xaa,
    ];
    assert_eq!(
        decode(&length_inside_pad),
        Err(vec![DecodeError::IncompleteDataMessageHeader])
    );
    // A valid message still decodes.
    let valid = [
        0x42, 0x20, 0x00, 0x0c, 0x00, 0x01, 0x00, 0x02, 0x00, 0x01, 0x00, 0xaa,
    ];
    match decode(&valid) {
        Ok(Message::Data(d)) => {
            assert_eq!(d.data, &[0xaa][..]);
            assert_eq!(d.length, Some(12));
            assert_eq!(d.offset, None);
        }
        other => panic!("unexpected {:?}", other),
    }
}
