// Demo for change `a`: state of a SliceReader after a refused `bytes()` request.
//
// With the change a refused request (longer than what remains) still returns
// `None` and does not panic, but leaves the reader exhausted. Without the
// change the reader keeps its position.

use rl2tp::common::{Reader, SliceReader};

#[test]
fn refused_bytes_request_exhausts_the_reader() {
    let input = [1u8, 2, 3, 4, 5];
    let mut r = SliceReader::from(&input);

    // Satisfiable requests behave as a plain cursor.
    assert_eq!(r.bytes(2), Some(&input[..2]));
    assert_eq!(r.len(), 3);

    // Request longer than what remains: refused, no panic.
    assert_eq!(r.bytes(4), None);

    // Changed behaviour: the reader is now exhausted.
    assert!(r.is_empty());
    assert_eq!(r.len(), 0);
    assert_eq!(r.bytes(1), None);
    assert_eq!(r.bytes(0), Some(&input[5..]));
}

#[test]
fn exact_and_empty_requests_are_unaffected() {
    let input = [9u8, 8, 7];
    let mut r = SliceReader::from(&input);
    assert_eq!(r.bytes(0), Some(&input[..0]));
    assert_eq!(r.len(), 3);
    assert_eq!(r.bytes(3), Some(&input[..]));
    assert!(r.is_empty());
    assert_eq!(r.bytes(0), Some(&input[3..]));
}
