// Demo for change `d`: the encoder assembles fixed-layout headers on the stack and hands
// them to the Writer with one bulk `write_bytes` call instead of one call per field.
//
// A logging Writer records every call.  The emitted octets are identical to what the
// crate's VecWriter receives (and to the hand-written expected octets below); only the
// sequence of Writer calls differs:
//   control header: 1 call (12 octets) instead of 6;
//   AVP header:     1 call (4 octets: dummy flags/length + vendor id) instead of 2;
//   data header:    1 call (6..14 octets) instead of 3..7.
// Appending behind existing content and the positional length overwrite are as before.

use rl2tp::avp::types::{AssignedTunnelId, MessageType};
use rl2tp::avp::AVP;
use rl2tp::common::{VecWriter, Writer};
use rl2tp::{ControlMessage, DataMessage, Message};

#[derive(Default)]
struct LogWriter {
    data: Vec<u8>,
    log: Vec<String>,
}

impl Writer for LogWriter {
    fn is_empty(&self) -> bool {
        self.data.is_empty()
    }
    fn len(&self) -> usize {
        self.data.len()
    }
    fn write_bytes(&mut self, bytes: &[u8]) {
        self.log.push(format!("bytes({})", bytes.len()));
        self.data.extend_from_slice(bytes);
    }
    fn write_bytes_at(&mut self, bytes: &[u8], offset: usize) {
        self.log.push(format!("at({},{})", offset, bytes.len()));
        assert!(offset + bytes.len() <= self.data.len());
        self.data[offset..offset + bytes.len()].copy_from_slice(bytes);
    }
    fn write_u8(&mut self, value: u8) {
        self.log.push("u8".to_owned());
        self.data.push(value);
    }
    fn write_u16_be(&mut self, value: u16) {
        self.log.push("u16".to_owned());
        self.data.extend_from_slice(&value.to_be_bytes());
    }
    fn write_u32_be(&mut self, value: u32) {
        self.log.push("u32".to_owned());
        self.data.extend_from_slice(&value.to_be_bytes());
    }
    fn write_u64_be(&mut self, value: u64) {
        self.log.push("u64".to_owned());
        self.data.extend_from_slice(&value.to_be_bytes());
    }
}

const PREFIX: [u8; 3] = [0xde, 0xad, 0x99];

fn both(msg: &Message<Vec<u8>>) -> (Vec<u8>, Vec<String>) {
    // Encode behind a 3-octet prefix into both writers
    let mut vw = VecWriter::new();
    vw.write_bytes(&PREFIX);
    msg.write(&mut vw);

    let mut lw = LogWriter::default();
    lw.data.extend_from_slice(&PREFIX);
    msg.write(&mut lw);

    assert_eq!(lw.data, vw.data, "octets differ between writers");
    assert_eq!(&lw.data[..3], &PREFIX);
    (lw.data[3..].to_vec(), lw.log)
}

#[test]
fn control_message_header_is_one_bulk_write() {
    let msg = Message::Control(ControlMessage {
        length: 0,
        tunnel_id: 0x0102,
        session_id: 0x0304,
        ns: 0x0506,
        nr: 0x0708,
        avps: vec![
            AVP::MessageType(MessageType::StartControlConnectionRequest),
            AVP::AssignedTunnelId(AssignedTunnelId { value: 0xbeef }),
        ],
    });
    let (octets, log) = both(&msg);
    println!("{log:?}");

    #[rustfmt::skip]
    let expected = vec![
        0x13, 0x20, 0x00, 0x1c, 0x01, 0x02, 0x03, 0x04, 0x05, 0x06, 0x07, 0x08,
        0x01, 0x08, 0x00, 0x00, 0x00, 0x00, 0x00, 0x01,
        0x01, 0x08, 0x00, 0x00, 0x00, 0x09, 0xbe, 0xef,
    ];
    assert_eq!(octets, expected);

    assert_eq!(
        log,
        [
            "bytes(12)", // control header
            "bytes(4)", "u16", "u16", "at(15,2)", // Message Type AVP
            "bytes(4)", "u16", "u16", "at(23,2)", // Assigned Tunnel Id AVP
            "at(5,2)",   // control length
        ],
        "unexpected Writer call sequence"
    );
}

#[test]
fn zero_length_body_control_message() {
    let msg = Message::Control(ControlMessage {
        length: 0,
        tunnel_id: 1,
        session_id: 2,
        ns: 3,
        nr: 4,
        avps: vec![],
    });
    let (octets, log) = both(&msg);
    assert_eq!(
        octets,
        [0x13, 0x20, 0x00, 0x0c, 0x00, 0x01, 0x00, 0x02, 0x00, 0x03, 0x00, 0x04]
    );
    assert_eq!(log, ["bytes(12)", "at(5,2)"]);
}

#[test]
fn data_message_header_is_one_bulk_write() {
    // All optional fields present
    let full = Message::Data(DataMessage {
        is_prioritized: true,
        length: Some(17),
        tunnel_id: 0x1111,
        session_id: 0x2222,
        ns_nr: Some((0x3333, 0x4444)),
        offset: Some(0),
        data: vec![0xaa, 0xbb, 0xcc],
    });
    let (octets, log) = both(&full);
    #[rustfmt::skip]
    let expected = vec![
        0xd2, 0x20, 0x00, 0x11, 0x11, 0x11, 0x22, 0x22, 0x33, 0x33, 0x44, 0x44, 0x00, 0x00,
        0xaa, 0xbb, 0xcc,
    ];
    assert_eq!(octets, expected);
    assert_eq!(log, ["bytes(14)", "bytes(3)"]);

    // No optional field present
    let bare = Message::Data(DataMessage {
        is_prioritized: false,
        length: None,
        tunnel_id: 5,
        session_id: 6,
        ns_nr: None,
        offset: None,
        data: vec![0xde, 0xad, 0xbe, 0xef],
    });
    let (octets, log) = both(&bare);
    assert_eq!(
        octets,
        [0x00, 0x20, 0x00, 0x05, 0x00, 0x06, 0xde, 0xad, 0xbe, 0xef]
    );
    assert_eq!(log, ["bytes(6)", "bytes(4)"]);

    // Length and sequence numbers only
    let some = Message::Data(DataMessage {
        is_prioritized: false,
        length: Some(13),
        tunnel_id: 5,
        session_id: 6,
        ns_nr: Some((7, 8)),
        offset: None,
        data: vec![0x01],
    });
    let (octets, log) = both(&some);
    assert_eq!(
        octets,
        [0x12, 0x20, 0x00, 0x0d, 0x00, 0x05, 0x00, 0x06, 0x00, 0x07, 0x00, 0x08, 0x01]
    );
    assert_eq!(log, ["bytes(12)", "bytes(1)"]);
}
