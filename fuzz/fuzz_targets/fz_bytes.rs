#![no_main]
// raw octets straight into the decoder (its documented domain is "any byte string")
mod common;
use libfuzzer_sys::fuzz_target;
use serde_json::json;
use vcore::cx::hex;

fuzz_target!(|data: &[u8]| {
    let c = common::conf();
    let case = json!({"input": hex(data)});
    let r = common::CX.with(|cx| (c.def.run_concrete)(&case, &mut cx.borrow_mut()));
    common::verdict(r);
});
