// C13 — revealing is total: any hidden octets, secret and random vector give Ok or Err.
use crate::cx::*;
use crate::gen::*;
use crate::glue::*;
use crate::prop::*;
use crate::spec::*;
use rl2tp::avp::AVP;
use serde_json::{json, Value};

pub static DEF: PropDef = PropDef {
    id: "C13",
    title: "Revealing is total",
    rule: "G-hidden tapes: (a) uniformly random (attribute type, value octets, secret, random vector) with value lengths 0..1040 including non-multiples of 16; (b) crafted plaintexts with a chosen \
original-length field (0, 5, 6, exact, |v|+4, |v|+5, 1023, 1024, random) and optionally a valid payload of the kind, encrypted with the reference key schedule so that the crate decrypts exactly that \
plaintext. Each case runs in a child process in both build profiles. Oracle: no panic or abort; the result is Ok(avp) whose attribute type is the announced one, or Err; an empty value, a value whose \
length is not a multiple of 16, and a declared original length whose payload does not fit in the decrypted value each give Err. One random case in 64 is revealed again from a destructor while the thread unwinds and from thread-local destructors at thread exit: no panic there either, same result. Non-trivial = value length a positive multiple of 16; distinct by hash of the inputs.",
    assumptions: &["the reference decryption (harness MD5) is used only to build crafted inputs and to know the declared original length of a case"],
    parts,
    run_tape,
    run_enum: no_enum,
    run_concrete,
    both_profiles: true,
    exhaustive_note: "",
};

fn parts(t: Tier) -> Vec<Part> {
    let a = match t {
        Tier::Quick => 1_200_000,
        Tier::Thorough => 12_000_000,
    };
    vec![tape("hidden", a, 1200), tape("related-secrets", a / 4, 1500)]
}

pub fn check(h: &HiddenCase, cx: &mut Cx) -> Res {
    cx.eval();
    let render = || json!({"attribute_type": h.attr, "hidden_value": hex(&h.value), "secret": hex(&h.secret), "random_vector": hex(&h.rv)});
    let a = AVP::Hidden(rl2tp::avp::types::Hidden { attribute_type: h.attr, value: h.value.clone() });
    cx.stage(STAGE_ARMED);
    let r = guard(|| a.reveal(&h.secret, &h.rv.into()).map(|x| from_crate(&x)));
    cx.stage(STAGE_SETUP);
    let r = match r {
        Caught::Ok(r) => r,
        Caught::Panic(p) => return fail(format!("reveal() panicked: {}", p.short()), render()),
        Caught::Monitor(_) => return fail("unexpected panic payload", render()),
    };
    let aligned = !h.value.is_empty() && h.value.len() % 16 == 0;
    if h.value.is_empty() {
        cx.class("empty value");
        if r.is_ok() {
            return fail("reveal() accepted an empty hidden value", render());
        }
    } else if !aligned {
        cx.class("value length not a multiple of 16");
        if r.is_ok() {
            return fail("reveal() accepted a hidden value whose length is not a multiple of 16", render());
        }
    } else {
        cx.nontrivial(&(h.attr, &h.value, &h.secret, h.rv));
        let pt = decrypt(h.attr, &h.value, &h.secret, &h.rv);
        let declared = ((pt[0] as usize) << 8) | pt[1] as usize;
        let avail = pt.len() - 2;
        cx.class(if declared < 6 {
            "declared original length < 6"
        } else if declared - 6 <= avail {
            "declared original length fits"
        } else if declared <= 1023 {
            "declared original length too large but <= 1023"
        } else {
            "declared original length > 1023"
        });
        if declared >= 6 && declared - 6 > avail && r.is_ok() {
            return fail(format!("reveal() accepted a decrypted original length {} whose payload ({}) does not fit in the {} octets available", declared, declared - 6, avail), render());
        }
        if declared < 6 && r.is_ok() {
            return fail(format!("reveal() accepted a decrypted original length {} below the 6-octet AVP header", declared), render());
        }
    }
    match &r {
        Ok(avp) => {
            if avp.hidden || avp.attr != h.attr {
                return fail(format!("reveal() returned an AVP of type {}{} for announced type {}", avp.attr, if avp.hidden { " (still hidden)" } else { "" }, h.attr), render());
            }
            cx.class_dyn(format!("Ok kind {:02}", avp.attr));
        }
        Err(_) => cx.class("Err"),
    }
    cx.sample(if h.crafted.is_some() { "crafted" } else { "random" }, || json!({"attribute_type": h.attr, "hidden_value": hex_short(&h.value), "secret": hex(&h.secret), "random_vector": hex(&h.rv), "result": if r.is_ok() { "Ok" } else { "Err" }, "family": if h.crafted.is_some() { "crafted" } else { "random" }}));
    Ok(())
}

fn run_tape(part: &str, tape: &[u8], cx: &mut Cx) -> Res {
    let mut t = Tape::new(tape);
    if part == "related-secrets" {
        // a value hidden under s1 revealed under s1, then under a related s2 (a peer with a different secret), back to back
        let h = gen_hide(&mut t);
        let s2 = related_secret_for(&mut t, &h.secret, Some(h.avp.attr.to_be_bytes()));
        let v1 = hide(h.avp.attr, &h.payload, &h.secret, &h.rv, &h.lp, &h.ap);
        let v2 = hide(h.avp.attr, &h.payload, &s2, &h.rv, &h.lp, &h.ap);
        for (v, s) in [(&v1, &h.secret), (&v1, &s2), (&v2, &h.secret), (&v2, &s2)] {
            check(&HiddenCase { attr: h.avp.attr, value: v.clone(), secret: s.clone(), rv: h.rv, crafted: Some(6 + h.payload.len()) }, cx)?;
        }
        return Ok(());
    }
    let ctx = t.below(64) == 0;
    let h = gen_hidden(&mut t);
    check(&h, cx)?;
    if ctx {
        // the same reveal called from a destructor while the thread unwinds and from thread-local destructors at thread exit
        let (attr, value, secret, rv) = (h.attr, h.value.clone(), h.secret.clone(), h.rv);
        let f: std::sync::Arc<dyn Fn() -> String + Send + Sync> = std::sync::Arc::new(move || {
            let a = AVP::Hidden(rl2tp::avp::types::Hidden { attribute_type: attr, value: value.clone() });
            match guard(|| a.reveal(&secret, &rv.into()).map(|x| from_crate(&x))) {
                Caught::Ok(r) => format!("{:?}", r),
                Caught::Panic(p) => format!("panic: {}", p.short()),
                Caught::Monitor(_) => "panic".to_string(),
            }
        });
        cx.eval();
        cx.stage(STAGE_ARMED);
        let want = f();
        let r = crate::props::history::same_in_contexts(&want, f);
        cx.stage(STAGE_SETUP);
        match r {
            Ok(true) => cx.class("also revealed while unwinding and from thread-local destructors at thread exit"),
            Ok(false) => {}
            Err((how, got)) => {
                return fail(
                    format!("reveal() {} when called {}", if got.starts_with("panic") { "panicked" } else { "returned a different result" }, how),
                    json!({"attribute_type": h.attr, "hidden_value": hex(&h.value), "secret": hex(&h.secret), "random_vector": hex(&h.rv), "there": got.chars().take(300).collect::<String>(), "normally": want.chars().take(300).collect::<String>()}),
                )
            }
        }
    }
    Ok(())
}

fn run_concrete(case: &Value, cx: &mut Cx) -> Res {
    if let Some(v) = case.get("hidden_value").and_then(|x| x.as_str()).and_then(unhex) {
        let attr = case.get("attribute_type").and_then(|x| x.as_u64()).unwrap_or(0) as u16;
        let secret = case.get("secret").and_then(|x| x.as_str()).and_then(unhex).unwrap_or_default();
        let rv = case.get("random_vector").and_then(|x| x.as_str()).and_then(unhex).unwrap_or(vec![0; 4]);
        let mut r = [0u8; 4];
        r.copy_from_slice(&rv[..4.min(rv.len())]);
        return check(&HiddenCase { attr, value: v, secret, rv: r, crafted: None }, cx);
    }
    fail("bad concrete case", case.clone())
}
