// Demo for change `c`: how the per-record window is made in AVP::try_read_greedy.
//
// With the change every record's payload is carved out with exactly one
// `subreader(payload_length)` call on the list reader, whatever kind of record it is:
//   - vendor-specific record : the sub-reader is dropped unread (before: `skip_bytes(n)`)
//   - hidden record          : `bytes(n)` is issued to the sub-reader (before: to the list reader)
//   - regular record         : unchanged
// The decoded list is identical; only the sequence of Reader trait calls differs, which is
// observed here with a logging Reader implemented on top of the public trait.

use rl2tp::avp::AVP;
use rl2tp::common::{DecodeError, SliceReader};
use rl2tp::Reader;
use std::cell::RefCell;
use std::rc::Rc;

type Log = Rc<RefCell<Vec<String>>>;

/// A contract-honouring reader over a slice which records every consuming call together
/// with its nesting depth (0 = the list reader, 1 = a per-record sub-reader).
struct LogReader<'a> {
    data: &'a [u8],
    depth: usize,
    log: Log,
}

impl<'a> LogReader<'a> {
    fn new(data: &'a [u8], log: Log) -> Self {
        Self { data, depth: 0, log }
    }
    fn note(&self, what: String) {
        self.log.borrow_mut().push(format!("d{}:{}", self.depth, what));
    }
    fn take(&mut self, n: usize) -> &'a [u8] {
        assert!(n <= self.data.len(), "request outside the remaining octets");
        let (head, tail) = self.data.split_at(n);
        self.data = tail;
        head
    }
}

impl<'a> Reader<&'a [u8]> for LogReader<'a> {
    fn is_empty(&self) -> bool {
        self.data.is_empty()
    }
    fn len(&self) -> usize {
        self.data.len()
    }
    fn subreader(&mut self, length: usize) -> Self {
        self.note(format!("subreader({length})"));
        let head = self.take(length);
        LogReader { data: head, depth: self.depth + 1, log: self.log.clone() }
    }
    fn bytes(&mut self, length: usize) -> Option<&'a [u8]> {
        self.note(format!("bytes({length})"));
        if length > self.data.len() {
            return None;
        }
        Some(self.take(length))
    }
    unsafe fn read_u8_unchecked(&mut self) -> u8 {
        self.note("u8".into());
        self.take(1)[0]
    }
    unsafe fn read_u16_be_unchecked(&mut self) -> u16 {
        self.note("u16".into());
        u16::from_be_bytes(self.take(2).try_into().unwrap())
    }
    unsafe fn read_u32_be_unchecked(&mut self) -> u32 {
        self.note("u32".into());
        u32::from_be_bytes(self.take(4).try_into().unwrap())
    }
    unsafe fn read_u64_be_unchecked(&mut self) -> u64 {
        self.note("u64".into());
        u64::from_be_bytes(self.take(8).try_into().unwrap())
    }
    fn skip_bytes(&mut self, length: usize) {
        self.note(format!("skip({length})"));
        self.take(length);
    }
}

fn record(flag_bits: u8, vendor: u16, attribute_type: u16, payload: &[u8]) -> Vec<u8> {
    let length = 6 + payload.len() as u16;
    let mut v = vec![
        (((length >> 8) as u8 & 0x3) << 6) | flag_bits,
        length as u8,
        (vendor >> 8) as u8,
        vendor as u8,
        (attribute_type >> 8) as u8,
        attribute_type as u8,
    ];
    v.extend_from_slice(payload);
    v
}

fn input() -> Vec<u8> {
    let mut v = record(0x01, 9, 7, b"abc"); // vendor-specific
    v.extend(record(0x03, 0, 7, &[0x55; 16])); // hidden
    v.extend(record(0x01, 0, 10, &[0, 4])); // Receive Window Size
    v
}

const HEADER: [&str; 4] = ["d0:u8", "d0:u8", "d0:u16", "d0:u16"];

#[test]
fn one_subreader_per_record() {
    let bytes = input();
    let log: Log = Default::default();
    let mut r = LogReader::new(&bytes, log.clone());
    let got = AVP::try_read_greedy(&mut r);
    assert_eq!(r.len(), 0);

    let mut expected: Vec<String> = Vec::new();
    // vendor-specific: header, window carved and dropped
    expected.extend(HEADER.iter().map(|s| s.to_string()));
    expected.push("d0:subreader(3)".into());
    // hidden: header, window carved, value taken from the window
    expected.extend(HEADER.iter().map(|s| s.to_string()));
    expected.push("d0:subreader(16)".into());
    expected.push("d1:bytes(16)".into());
    // regular: header, window carved, payload decoded from the window
    expected.extend(HEADER.iter().map(|s| s.to_string()));
    expected.push("d0:subreader(2)".into());
    expected.push("d1:u16".into());

    assert_eq!(*log.borrow(), expected);
    assert!(!log.borrow().iter().any(|c| c.contains("skip")));

    // The decoded list is what it always was, and equals the SliceReader result.
    let mut s = SliceReader::from(&bytes[..]);
    let reference = AVP::try_read_greedy(&mut s);
    assert_eq!(got, reference);
    assert_eq!(got.len(), 3);
    assert_eq!(got[0], Err(DecodeError::UnsupportedVendorId(9)));
    assert!(matches!(&got[1], Ok(AVP::Hidden(h)) if h.attribute_type == 7 && h.value == vec![0x55; 16]));
    assert!(matches!(&got[2], Ok(AVP::ReceiveWindowSize(_))));
}
