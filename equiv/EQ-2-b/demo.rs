// Demo for change `b`: an AVP record with TWO independent faults (non-zero vendor id
// AND a length field that reaches beyond the available octets) is now reported as
// UnsupportedVendorId(vendor); the unmodified crate reports InvalidAVPLength(..).
// In both versions exactly one error is produced for the record and parsing stops there.
// Single-fault records keep their error.

use rl2tp::avp::AVP;
use rl2tp::common::{DecodeError, SliceReader};
use rl2tp::Message;

// length field 32, vendor id 9, attribute type 7, but only one payload octet follows
const VENDOR_AND_OVERLONG: [u8; 7] = [0x01, 0x20, 0x00, 0x09, 0x00, 0x07, 0x41];
// same, vendor id 0
const OVERLONG_ONLY: [u8; 7] = [0x01, 0x20, 0x00, 0x00, 0x00, 0x07, 0x41];
// vendor id 9, length exact (7)
const VENDOR_ONLY: [u8; 7] = [0x01, 0x07, 0x00, 0x09, 0x00, 0x07, 0x41];

#[test]
fn double_fault_in_avp_list() {
    let mut r = SliceReader::from(&VENDOR_AND_OVERLONG[..]);
    let res = AVP::try_read_greedy(&mut r);
    assert_eq!(res, vec![Err(DecodeError::UnsupportedVendorId(9))]);
}

#[test]
fn double_fault_after_good_records() {
    // Host Name "A", then a vendor-specific record (skipped), then the double fault
    let mut bytes = vec![0x01, 0x07, 0x00, 0x00, 0x00, 0x07, 0x41];
    bytes.extend_from_slice(&VENDOR_ONLY);
    bytes.extend_from_slice(&VENDOR_AND_OVERLONG);
    let mut r = SliceReader::from(&bytes);
    let res = AVP::try_read_greedy(&mut r);
    assert_eq!(res.len(), 3);
    assert!(res[0].is_ok());
    assert_eq!(res[1], Err(DecodeError::UnsupportedVendorId(9)));
    assert_eq!(res[2], Err(DecodeError::UnsupportedVendorId(9)));
}

#[test]
fn double_fault_in_control_message() {
    let total = 12 + 8 + VENDOR_AND_OVERLONG.len();
    let mut msg = vec![
        0x13, 0x20, // flags: control, length, Ns/Nr, version 2 (crate bit numbering)
        0x00, total as u8, // length
        0x00, 0x01, 0x00, 0x02, 0x00, 0x03, 0x00, 0x04, // tunnel, session, Ns, Nr
        0x01, 0x08, 0x00, 0x00, 0x00, 0x00, 0x00, 0x06, // Message Type = Hello
    ];
    msg.extend_from_slice(&VENDOR_AND_OVERLONG);
    let mut r = SliceReader::from(&msg);
    let res = Message::<&[u8]>::try_read(&mut r);
    assert_eq!(res, Err(vec![DecodeError::UnsupportedVendorId(9)]));
}

#[test]
fn single_faults_unchanged() {
    let mut r = SliceReader::from(&OVERLONG_ONLY[..]);
    let res = AVP::try_read_greedy(&mut r);
    assert_eq!(res.len(), 1);
    assert!(matches!(res[0], Err(DecodeError::InvalidAVPLength(_))));

    // a vendor-specific record of usable length is skipped and parsing goes on
    let mut bytes = VENDOR_ONLY.to_vec();
    bytes.extend_from_slice(&[0x01, 0x07, 0x00, 0x00, 0x00, 0x07, 0x42]);
    let mut r = SliceReader::from(&bytes);
    let res = AVP::try_read_greedy(&mut r);
    assert_eq!(res.len(), 2);
    assert_eq!(res[0], Err(DecodeError::UnsupportedVendorId(9)));
    assert!(res[1].is_ok());
}
