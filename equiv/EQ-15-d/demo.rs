// Demo for change `d`: early exit in the control-message body.
//
// With the change a control message whose first AVP record is not a (valid) Message Type is
// refused as soon as that first record has been looked at; the records behind it are never
// read. Without the change the whole body is parsed first and the verdict is taken afterwards.
// The result (Err([ControlMessageTypeNotFirst])) is the same; only the sequence of Reader
// trait calls differs, which is observed with a logging Reader built on the public trait.

use rl2tp::common::{DecodeError, SliceReader};
use rl2tp::{Message, Reader};
use std::cell::RefCell;
use std::rc::Rc;

type Log = Rc<RefCell<Vec<String>>>;

/// A contract-honouring reader over a slice which records every consuming call together
/// with its nesting depth (0 = the message reader, 1 = the AVP body reader, 2 = a per-record sub-reader).
struct LogReader<'a> {
    data: &'a [u8],
    depth: usize,
    log: Log,
}

impl<'a> LogReader<'a> {
    fn new(data: &'a [u8], log: Log) -> Self {
        Self { data, depth: 0, log }
    }
    fn note(&self, what: String) {
        self.log.borrow_mut().push(format!("d{}:{}", self.depth, what));
    }
    fn take(&mut self, n: usize) -> &'a [u8] {
        assert!(n <= self.data.len(), "request outside the remaining octets");
        let (head, tail) = self.data.split_at(n);
        self.data = tail;
        head
    }
}

impl<'a> Reader<&'a [u8]> for LogReader<'a> {
    fn is_empty(&self) -> bool {
        self.data.is_empty()
    }
    fn len(&self) -> usize {
        self.data.len()
    }
    fn subreader(&mut self, length: usize) -> Self {
        self.note(format!("subreader({length})"));
        let head = self.take(length);
        LogReader { data: head, depth: self.depth + 1, log: self.log.clone() }
    }
    fn bytes(&mut self, length: usize) -> Option<&'a [u8]> {
        self.note(format!("bytes({length})"));
        if length > self.data.len() {
            return None;
        }
        Some(self.take(length))
    }
    unsafe fn read_u8_unchecked(&mut self) -> u8 {
        self.note("u8".into());
        self.take(1)[0]
    }
    unsafe fn read_u16_be_unchecked(&mut self) -> u16 {
        self.note("u16".into());
        u16::from_be_bytes(self.take(2).try_into().unwrap())
    }
    unsafe fn read_u32_be_unchecked(&mut self) -> u32 {
        self.note("u32".into());
        u32::from_be_bytes(self.take(4).try_into().unwrap())
    }
    unsafe fn read_u64_be_unchecked(&mut self) -> u64 {
        self.note("u64".into());
        u64::from_be_bytes(self.take(8).try_into().unwrap())
    }
    fn skip_bytes(&mut self, length: usize) {
        self.note(format!("skip({length})"));
        self.take(length);
    }
}

fn record(flag_bits: u8, vendor: u16, attribute_type: u16, payload: &[u8]) -> Vec<u8> {
    let length = 6 + payload.len() as u16;
    let mut v = vec![
        (((length >> 8) as u8 & 0x3) << 6) | flag_bits,
        length as u8,
        (vendor >> 8) as u8,
        vendor as u8,
        (attribute_type >> 8) as u8,
        attribute_type as u8,
    ];
    v.extend_from_slice(payload);
    v
}

fn control(body: &[u8]) -> Vec<u8> {
    let total = 12 + body.len();
    let mut v = vec![0x13, 0x20, (total >> 8) as u8, total as u8, 0, 1, 0, 2, 0, 3, 0, 4];
    v.extend_from_slice(body);
    v
}

fn run(bytes: &[u8]) -> (Result<Message<&[u8]>, Vec<DecodeError>>, Vec<String>, usize) {
    let log: Log = Default::default();
    let mut r = LogReader::new(bytes, log.clone());
    let got = Message::try_read(&mut r);
    let calls = log.borrow().clone();
    (got, calls, r.len())
}

/// Number of record headers fetched from the AVP body reader (each header starts with two u8 reads).
fn headers_read(calls: &[String]) -> usize {
    calls.iter().filter(|c| c.as_str() == "d1:u8").count() / 2
}

#[test]
fn body_not_starting_with_message_type_is_refused_after_one_record() {
    let mut body = record(0x01, 0, 10, &[0, 4]); // Receive Window Size comes first: wrong
    body.extend(record(0x01, 0, 0, &[0, 1])); // Message Type, too late
    body.extend(record(0x01, 0, 7, b"host.example")); // Host Name
    body.extend(record(0x01, 0, 9, &[0, 7])); // Assigned Tunnel Id
    let mut bytes = control(&body);
    bytes.extend([0xAA; 5]); // next datagram's octets, must stay untouched

    let (got, calls, remaining) = run(&bytes);
    assert_eq!(got, Err(vec![DecodeError::ControlMessageTypeNotFirst]));
    assert_eq!(remaining, 5, "the declared message length is consumed either way");

    // Only the first record was looked at ...
    assert_eq!(headers_read(&calls), 1, "calls: {calls:?}");
    // ... and nothing at all was requested after its payload had been decoded.
    assert_eq!(calls.last().map(String::as_str), Some("d2:u16"), "calls: {calls:?}");
    assert_eq!(calls.iter().filter(|c| c.starts_with("d1:subreader")).count(), 1);

    // Same verdict as with the stock reader.
    let mut s = SliceReader::from(&bytes[..]);
    assert_eq!(Message::try_read(&mut s), got);
    assert_eq!(s.len(), 5);
}

#[test]
fn undecodable_first_record_is_refused_after_one_record() {
    let mut body = record(0x01, 0, 0, &[0, 5]); // Message Type with unassigned code 5
    body.extend(record(0x01, 0, 10, &[0, 4]));
    body.extend(record(0x01, 0, 200, b"??")); // unknown AVP, never reached
    let bytes = control(&body);

    let (got, calls, remaining) = run(&bytes);
    assert_eq!(got, Err(vec![DecodeError::ControlMessageTypeNotFirst]));
    assert_eq!(remaining, 0);
    assert_eq!(headers_read(&calls), 1, "calls: {calls:?}");
}

#[test]
fn bodies_starting_with_message_type_are_read_to_the_end() {
    // Valid first record: every record is visited, errors come back one per bad record, in order.
    let mut body = record(0x01, 0, 0, &[0, 1]);
    body.extend(record(0x01, 0, 200, b"??")); // unknown AVP
    body.extend(record(0x01, 0, 10, &[0, 4])); // fine
    body.extend(record(0x01, 31, 7, b"v")); // vendor-specific
    let bytes = control(&body);
    let (got, calls, _) = run(&bytes);
    assert_eq!(
        got,
        Err(vec![DecodeError::UnknownAvp(200), DecodeError::UnsupportedVendorId(31)])
    );
    assert_eq!(headers_read(&calls), 4);

    // And an all-good message is accepted with its AVPs in wire order.
    let mut body = record(0x01, 0, 0, &[0, 1]);
    body.extend(record(0x01, 0, 10, &[0, 4]));
    body.extend(record(0x01, 0, 9, &[0, 7]));
    let bytes = control(&body);
    let (got, calls, _) = run(&bytes);
    let mut s = SliceReader::from(&bytes[..]);
    assert_eq!(got, Message::try_read(&mut s));
    match got {
        Ok(Message::Control(c)) => assert_eq!(c.avps.len(), 3),
        other => panic!("unexpected {other:?}"),
    }
    assert_eq!(headers_read(&calls), 3);
}
