// Demo for change `d`: DecodeError is rendered through a message catalogue with
// `{avp}` / `{value}` placeholders (Display) and a hand-written Debug with named fields.
// PASSES with the change, FAILS on the original crate.
use rl2tp::common::{DecodeError, SliceReader};
use rl2tp::Message;

#[test]
fn display_comes_from_the_catalogue() {
    assert_eq!(
        DecodeError::IncompleteAVP(7).to_string(),
        "AVP HostName: incomplete"
    );
    assert_eq!(
        DecodeError::InvalidUtf8(20).to_string(),
        "AVP 20: string payload is not valid UTF-8"
    );
    assert_eq!(
        DecodeError::AVPReadError(13).to_string(),
        "AVP ChallengeResponse: read error while parsing"
    );
    assert_eq!(
        DecodeError::UnknownAvp(40).to_string(),
        "AVP: unknown type 40"
    );
    assert_eq!(
        DecodeError::InvalidVersion(3).to_string(),
        "Message: invalid version field 3"
    );
    assert_eq!(
        DecodeError::ControlMessageWithoutNsNr.to_string(),
        "Control message: required NsNr field missing"
    );
}

#[test]
fn debug_uses_named_fields() {
    assert_eq!(
        format!("{:?}", DecodeError::IncompleteAVP(7)),
        "IncompleteAVP { attribute_type: 7 }"
    );
    assert_eq!(
        format!("{:?}", DecodeError::InvalidVersion(3)),
        "InvalidVersion { version: 3 }"
    );
    assert_eq!(
        format!("{:?}", DecodeError::UnsupportedVendorId(9)),
        "UnsupportedVendorId { vendor_id: 9 }"
    );
    assert_eq!(format!("{:?}", DecodeError::IncompleteFlags), "IncompleteFlags");

    // through a real decode: version nibble 3
    let bytes = [0x00u8, 0x30, 0x00, 0x01, 0x00, 0x02, 0xFF];
    let mut r = SliceReader::from(&bytes[..]);
    let err = Message::<&[u8]>::try_read(&mut r).unwrap_err();
    assert_eq!(err, vec![DecodeError::InvalidVersion(3)]);
    assert_eq!(format!("{err:?}"), "[InvalidVersion { version: 3 }]");
}

#[test]
fn still_a_std_error_and_total() {
    fn takes_error(e: &dyn std::error::Error) -> String {
        e.to_string()
    }
    for x in 0..=u16::MAX {
        let s = takes_error(&DecodeError::AVPReadError(x));
        assert!(s.starts_with("AVP ") && s.ends_with(": read error while parsing"), "{s}");
        assert!(!format!("{:?}", DecodeError::InvalidOffset(x)).is_empty());
    }
}
