use rl2tp::common::Reader;
use std::cell::RefCell;
use std::rc::Rc;

/// One entry per trait call issued by the crate.
#[allow(dead_code)]
#[derive(Clone, Debug, PartialEq, Eq)]
enum Call {
    IsEmpty { depth: usize },
    Len { depth: usize },
    Subreader { depth: usize, n: usize },
    Bytes { depth: usize, n: usize, served: bool },
    Skip { depth: usize, n: usize },
    U8 { depth: usize },
    U16 { depth: usize },
    U32 { depth: usize },
    U64 { depth: usize },
}

/// A bounds-checking reader over an owned buffer that hands out owned byte vectors (as a
/// scatter/gather reader has to). Every unchecked request is asserted to fit, `len()` is honest,
/// and a declined `bytes(n)` consumes nothing. `decline_from`: `bytes(n)` with `n >= decline_from`
/// is declined although `n` octets remain (`usize::MAX` = never decline, i.e. fully conforming).
struct TestReader {
    data: Rc<Vec<u8>>,
    pos: usize,
    end: usize,
    depth: usize,
    decline_from: usize,
    log: Rc<RefCell<Vec<Call>>>,
}

#[allow(dead_code)]
impl TestReader {
    fn new(data: &[u8], decline_from: usize) -> Self {
        Self {
            data: Rc::new(data.to_vec()),
            pos: 0,
            end: data.len(),
            depth: 0,
            decline_from,
            log: Rc::new(RefCell::new(Vec::new())),
        }
    }

    fn calls(&self) -> Vec<Call> {
        self.log.borrow().clone()
    }

    fn remaining(&self) -> usize {
        self.end - self.pos
    }

    fn take(&mut self, n: usize) -> &[u8] {
        assert!(n <= self.end - self.pos, "request outside the remaining octets");
        let start = self.pos;
        self.pos += n;
        &self.data[start..start + n]
    }
}

impl Reader<Vec<u8>> for TestReader {
    fn is_empty(&self) -> bool {
        self.log.borrow_mut().push(Call::IsEmpty { depth: self.depth });
        self.pos == self.end
    }

    fn len(&self) -> usize {
        self.log.borrow_mut().push(Call::Len { depth: self.depth });
        self.end - self.pos
    }

    fn subreader(&mut self, length: usize) -> Self {
        self.log.borrow_mut().push(Call::Subreader {
            depth: self.depth,
            n: length,
        });
        assert!(length <= self.end - self.pos, "subreader outside the remaining octets");
        let sub = Self {
            data: self.data.clone(),
            pos: self.pos,
            end: self.pos + length,
            depth: self.depth + 1,
            decline_from: self.decline_from,
            log: self.log.clone(),
        };
        self.pos += length;
        sub
    }

    fn bytes(&mut self, length: usize) -> Option<Vec<u8>> {
        let served = length <= self.end - self.pos && length < self.decline_from;
        self.log.borrow_mut().push(Call::Bytes {
            depth: self.depth,
            n: length,
            served,
        });
        if !served {
            return None;
        }
        Some(self.take(length).to_vec())
    }

    unsafe fn read_u8_unchecked(&mut self) -> u8 {
        self.log.borrow_mut().push(Call::U8 { depth: self.depth });
        self.take(1)[0]
    }

    unsafe fn read_u16_be_unchecked(&mut self) -> u16 {
        self.log.borrow_mut().push(Call::U16 { depth: self.depth });
        u16::from_be_bytes(self.take(2).try_into().unwrap())
    }

    unsafe fn read_u32_be_unchecked(&mut self) -> u32 {
        self.log.borrow_mut().push(Call::U32 { depth: self.depth });
        u32::from_be_bytes(self.take(4).try_into().unwrap())
    }

    unsafe fn read_u64_be_unchecked(&mut self) -> u64 {
        self.log.borrow_mut().push(Call::U64 { depth: self.depth });
        u64::from_be_bytes(self.take(8).try_into().unwrap())
    }

    fn skip_bytes(&mut self, length: usize) {
        self.log.borrow_mut().push(Call::Skip {
            depth: self.depth,
            n: length,
        });
        self.take(length);
    }
}

// ---------------------------------------------------------------------------------------------

use rl2tp::common::{DecodeError, SliceReader, VecWriter};
use rl2tp::{DataMessage, Message};

fn encode(has_length: bool, has_ns_nr: bool, offset: Option<u16>, prio: bool) -> Vec<u8> {
    let mut data = vec![0xEEu8; offset.unwrap_or(0) as usize];
    data.extend_from_slice(&[0xde, 0xad, 0xbe, 0xef, 0x01]);
    let header = 2
        + if has_length { 2 } else { 0 }
        + 4
        + if has_ns_nr { 4 } else { 0 }
        + if offset.is_some() { 2 } else { 0 };
    let total = (header + data.len()) as u16;
    let msg = Message::Data(DataMessage {
        is_prioritized: prio,
        length: if has_length { Some(total) } else { None },
        tunnel_id: 0x1122,
        session_id: 0x3344,
        ns_nr: if has_ns_nr { Some((7, 8)) } else { None },
        offset,
        data,
    });
    let mut w = VecWriter::new();
    msg.write(&mut w);
    assert_eq!(w.data.len(), total as usize);
    w.data
}

fn owned(m: Result<Message<&[u8]>, Vec<DecodeError>>) -> Result<Message<Vec<u8>>, Vec<DecodeError>> {
    m.map(|m| match m {
        Message::Control(c) => Message::Control(c),
        Message::Data(d) => Message::Data(DataMessage {
            is_prioritized: d.is_prioritized,
            length: d.length,
            tunnel_id: d.tunnel_id,
            session_id: d.session_id,
            ns_nr: d.ns_nr,
            offset: d.offset,
            data: d.data.to_vec(),
        }),
    })
}

fn all_shapes() -> Vec<Vec<u8>> {
    let mut v = Vec::new();
    for has_length in [false, true] {
        for has_ns_nr in [false, true] {
            for offset in [None, Some(0u16), Some(3)] {
                for prio in [false, true] {
                    v.push(encode(has_length, has_ns_nr, offset, prio));
                }
            }
        }
    }
    v
}

/// Results are those of SliceReader for every shape, every truncation and with trailing octets;
/// the bounds-checking reader never sees a request that does not fit. Holds with and without
/// the change.
#[test]
fn results_equal_slice_reader() {
    for bytes in all_shapes() {
        let mut inputs: Vec<Vec<u8>> = (0..=bytes.len()).map(|k| bytes[..k].to_vec()).collect();
        let mut longer = bytes.clone();
        longer.extend_from_slice(&[9, 9, 9]);
        inputs.push(longer);
        // corrupt the offset size / length fields as well
        for i in 2..bytes.len().min(14) {
            let mut c = bytes.clone();
            c[i] = 0xff;
            inputs.push(c);
        }
        for input in inputs {
            let mut s = SliceReader::from(&input);
            let want = owned(Message::try_read(&mut s));
            let mut r = TestReader::new(&input, usize::MAX);
            let got = Message::<Vec<u8>>::try_read(&mut r);
            assert_eq!(got, want, "input {input:02x?}");
            assert_eq!(r.remaining(), rl2tp::Reader::len(&s), "input {input:02x?}");
        }
    }
}

/// With the change a data message costs exactly two len() calls on the reader (one for the flag
/// word, one for the rest of the message), whatever optional fields are present. Without the
/// change it is three to four.
#[test]
fn data_message_asks_for_the_length_once() {
    for bytes in all_shapes() {
        let mut r = TestReader::new(&bytes, usize::MAX);
        let got = Message::<Vec<u8>>::try_read(&mut r);
        assert!(matches!(got, Ok(Message::Data(_))));
        let calls = r.calls();
        let len_calls = calls
            .iter()
            .filter(|c| matches!(c, Call::Len { .. } | Call::IsEmpty { .. }))
            .count();
        assert_eq!(len_calls, 2, "calls {calls:?}");
    }
}
