// Demo for change `d`: ControlMessage::write stages the AVPs in a per-thread buffer, so the
// header goes out with its final Length and the body follows as one append; the Writer is
// never asked for a positional overwrite. `std::thread::panicking()` is consulted only to
// decide whether the per-thread buffer is recycled (not while unwinding) - the octets and the
// Writer call sequence are the same in every calling context.
//
// PASSES with the change, FAILS without it (original: placeholder length, per-AVP
// placeholder + write_bytes_at, final write_bytes_at for the message Length).

use rl2tp::avp::types::{Hidden, HostName, MessageType, ProtocolVersion};
use rl2tp::avp::AVP;
use rl2tp::common::{SliceReader, VecWriter, Writer};
use rl2tp::{
    ControlMessage, Message, ValidateReserved, ValidateUnused, ValidateVersion, ValidationOptions,
};
use std::alloc::{GlobalAlloc, Layout, System};
use std::cell::Cell;
use std::sync::mpsc;

// ---- per-thread allocation counter -------------------------------------------------------

struct Counting;

thread_local! {
    static ALLOCATIONS: Cell<u64> = const { Cell::new(0) };
}

#[inline]
fn bump() {
    let _ = ALLOCATIONS.try_with(|c| c.set(c.get() + 1));
}

unsafe impl GlobalAlloc for Counting {
    unsafe fn alloc(&self, layout: Layout) -> *mut u8 {
        bump();
        System.alloc(layout)
    }
    unsafe fn alloc_zeroed(&self, layout: Layout) -> *mut u8 {
        bump();
        System.alloc_zeroed(layout)
    }
    unsafe fn realloc(&self, ptr: *mut u8, layout: Layout, new_size: usize) -> *mut u8 {
        bump();
        System.realloc(ptr, layout, new_size)
    }
    unsafe fn dealloc(&self, ptr: *mut u8, layout: Layout) {
        System.dealloc(ptr, layout)
    }
}

#[global_allocator]
static GLOBAL: Counting = Counting;

fn counted<R>(f: impl FnOnce() -> R) -> (R, u64) {
    let before = ALLOCATIONS.with(|c| c.get());
    let r = f();
    let after = ALLOCATIONS.with(|c| c.get());
    (r, after - before)
}

// ---- recording writer ----------------------------------------------------------------------

#[derive(Clone, Debug, PartialEq, Eq)]
enum Call {
    Bytes(Vec<u8>),
    BytesAt(Vec<u8>, usize),
    U8(u8),
    U16(u16),
    U32(u32),
    U64(u64),
}

#[derive(Default)]
struct Recorder {
    data: Vec<u8>,
    calls: Vec<Call>,
}

impl Writer for Recorder {
    fn is_empty(&self) -> bool {
        self.data.is_empty()
    }
    fn len(&self) -> usize {
        self.data.len()
    }
    fn write_bytes(&mut self, bytes: &[u8]) {
        self.calls.push(Call::Bytes(bytes.to_vec()));
        self.data.extend_from_slice(bytes);
    }
    fn write_bytes_at(&mut self, bytes: &[u8], offset: usize) {
        self.calls.push(Call::BytesAt(bytes.to_vec(), offset));
        assert!(offset + bytes.len() <= self.data.len());
        self.data[offset..offset + bytes.len()].copy_from_slice(bytes);
    }
    fn write_u8(&mut self, value: u8) {
        self.calls.push(Call::U8(value));
        self.data.push(value);
    }
    fn write_u16_be(&mut self, value: u16) {
        self.calls.push(Call::U16(value));
        self.data.extend_from_slice(&value.to_be_bytes());
    }
    fn write_u32_be(&mut self, value: u32) {
        self.calls.push(Call::U32(value));
        self.data.extend_from_slice(&value.to_be_bytes());
    }
    fn write_u64_be(&mut self, value: u64) {
        self.calls.push(Call::U64(value));
        self.data.extend_from_slice(&value.to_be_bytes());
    }
}

// ---- fixtures ------------------------------------------------------------------------------

fn message(avps: Vec<AVP>) -> Message {
    Message::Control(ControlMessage {
        length: 0,
        tunnel_id: 0x1122,
        session_id: 0x3344,
        ns: 5,
        nr: 6,
        avps,
    })
}

fn sccrq() -> Message {
    message(vec![
        AVP::MessageType(MessageType::StartControlConnectionRequest),
        AVP::ProtocolVersion(ProtocolVersion {
            version: 1,
            revision: 0,
        }),
        AVP::HostName(HostName {
            value: b"lac".to_vec(),
        }),
    ])
}

const SCCRQ_BODY: [u8; 25] = [
    0x01, 8, 0, 0, 0, 0, 0, 1, // Message Type
    0x01, 8, 0, 0, 0, 2, 1, 0, // Protocol Version
    0x01, 9, 0, 0, 0, 7, b'l', b'a', b'c', // Host Name
];

fn sccrq_octets() -> Vec<u8> {
    let mut v = vec![0x13, 0x20, 0, 37, 0x11, 0x22, 0x33, 0x44, 0, 5, 0, 6];
    v.extend_from_slice(&SCCRQ_BODY);
    v
}

fn strict() -> ValidationOptions {
    ValidationOptions {
        reserved: ValidateReserved::Yes,
        version: ValidateVersion::Yes,
        unused: ValidateUnused::Yes,
    }
}

fn opaque(n_value: usize) -> AVP {
    AVP::Hidden(Hidden {
        attribute_type: 7,
        value: vec![0xaa; n_value],
    })
}

// ---- tests ---------------------------------------------------------------------------------

#[test]
fn control_message_is_appended_front_to_back() {
    let mut w = Recorder::default();
    w.write_bytes(b"earlier content");
    w.calls.clear();

    sccrq().write(&mut w);

    let mut all = b"earlier content".to_vec();
    all.extend(sccrq_octets());
    assert_eq!(w.data, all, "octets are what they always were");

    assert_eq!(
        w.calls,
        vec![
            Call::U16(0x1320),
            Call::U16(37),
            Call::U16(0x1122),
            Call::U16(0x3344),
            Call::U16(5),
            Call::U16(6),
            Call::Bytes(SCCRQ_BODY.to_vec()),
        ]
    );

    // ZLB: header only
    let mut z = Recorder::default();
    message(vec![]).write(&mut z);
    assert_eq!(z.data, [0x13, 0x20, 0, 12, 0x11, 0x22, 0x33, 0x44, 0, 5, 0, 6]);
    assert_eq!(z.calls.len(), 6);
    assert!(z.calls.iter().all(|c| matches!(c, Call::U16(_))));

    // and it still decodes to itself under the strictest options, back to back
    let mut v = VecWriter::new();
    sccrq().write(&mut v);
    message(vec![]).write(&mut v);
    sccrq().write(&mut v);
    let mut r = SliceReader::from(&v.data);
    for expect_avps in [3usize, 0, 3] {
        match Message::try_read_validate(&mut r, strict()).unwrap() {
            Message::Control(c) => {
                assert_eq!(c.avps.len(), expect_avps);
                assert_eq!(c.length as usize, 12 + if expect_avps == 3 { 25 } else { 0 });
            }
            Message::Data(_) => panic!("data?"),
        }
    }
    assert!(rl2tp::Reader::is_empty(&r));
}

#[test]
fn oversize_is_refused_before_the_writer_sees_anything() {
    // 64 x 1023 + 51 = 65523 body octets: exactly 65535 in total - the largest message
    let mut avps: Vec<AVP> = (0..64).map(|_| opaque(1017)).collect();
    avps.push(opaque(45));
    let mut w = Recorder::default();
    message(avps.clone()).write(&mut w);
    assert_eq!(w.data.len(), 65535);
    assert_eq!(&w.data[2..4], &[0xff, 0xff]);
    assert_eq!(w.calls.len(), 7);

    // one octet more: refused, nothing written
    avps.pop();
    avps.push(opaque(46));
    let mut w = Recorder::default();
    let r = std::panic::catch_unwind(std::panic::AssertUnwindSafe(|| {
        message(avps).write(&mut w)
    }));
    assert!(r.is_err(), "oversize message must be refused by a panic");
    assert!(w.calls.is_empty(), "calls before refusal: {:?}", w.calls);

    // an oversize AVP inside an otherwise small message: refused, nothing written
    let mut w = Recorder::default();
    let r = std::panic::catch_unwind(std::panic::AssertUnwindSafe(|| {
        message(vec![opaque(1018)]).write(&mut w)
    }));
    assert!(r.is_err(), "oversize AVP must be refused by a panic");
    assert!(w.calls.is_empty(), "calls before refusal: {:?}", w.calls);

    // the aborted encodes left nothing behind on this thread
    let mut v = VecWriter::new();
    sccrq().write(&mut v);
    assert_eq!(v.data, sccrq_octets());
}

// Encodes from inside a destructor; reports octets, call sequence and whether the thread was
// unwinding, plus the allocations of a further encode into a writer with spare capacity.
struct EncodeOnDrop(mpsc::Sender<(Vec<u8>, Vec<Call>, bool, u64)>);

impl Drop for EncodeOnDrop {
    fn drop(&mut self) {
        let mut w = Recorder::default();
        sccrq().write(&mut w);
        message(vec![]).write(&mut w);

        let m = sccrq();
        let mut roomy = VecWriter {
            data: Vec::with_capacity(256),
        };
        m.write(&mut roomy); // warm
        roomy.data.clear();
        let (_, n) = counted(|| m.write(&mut roomy));
        assert_eq!(roomy.data, sccrq_octets());

        let _ = self.0.send((w.data, w.calls, std::thread::panicking(), n));
    }
}

thread_local! {
    static AT_EXIT: std::cell::RefCell<Option<EncodeOnDrop>> = const { std::cell::RefCell::new(None) };
}

#[test]
fn identical_in_destructors_unwinding_and_thread_exit() {
    let mut reference = Recorder::default();
    sccrq().write(&mut reference);
    message(vec![]).write(&mut reference);
    assert_eq!(reference.calls.len(), 7 + 6);

    let (tx, rx) = mpsc::channel();

    // plain destructor, thread not unwinding
    drop(EncodeOnDrop(tx.clone()));

    // destructor during unwinding
    let tx1 = tx.clone();
    let _ = std::panic::catch_unwind(move || {
        let _guard = EncodeOnDrop(tx1);
        panic!("unwinding on purpose");
    });

    // thread-local destructors at thread exit, with the crate's own thread-local buffer
    // (0) never used on that thread, (1) still alive, (2) already destroyed
    for order in 0..3 {
        let tx2 = tx.clone();
        std::thread::spawn(move || {
            let mut v = VecWriter::new();
            if order == 1 {
                sccrq().write(&mut v);
            }
            AT_EXIT.with(|s| *s.borrow_mut() = Some(EncodeOnDrop(tx2)));
            if order == 2 {
                sccrq().write(&mut v);
            }
        })
        .join()
        .unwrap();
    }
    drop(tx);

    let got: Vec<_> = rx.iter().collect();
    assert_eq!(got.len(), 5);
    assert_eq!(
        got.iter().map(|g| g.2).collect::<Vec<_>>(),
        vec![false, true, false, false, false]
    );
    for (data, calls, _, _) in &got {
        assert_eq!(data, &reference.data);
        assert_eq!(calls, &reference.calls);
    }

    // The one thing the calling context does influence: a warm encode recycles the per-thread
    // buffer and allocates nothing, except while unwinding (own buffer) and once the
    // thread-local buffer is gone (case 2).
    let allocations: Vec<u64> = got.iter().map(|g| g.3).collect();
    assert_eq!(allocations[0], 0, "{allocations:?}");
    assert!(allocations[1] > 0, "{allocations:?}");
    assert_eq!(allocations[2], 0, "{allocations:?}");
    assert_eq!(allocations[3], 0, "{allocations:?}");
    assert!(allocations[4] > 0, "{allocations:?}");
}
