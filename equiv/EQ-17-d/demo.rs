// Change `d`: the sequence of Reader / Writer trait calls issued by the crate.
//  * Writer has a new provided method `write_zeros` (default body: write_u8(0) per
//    octet) and the encoders use it for the placeholder octets that are later
//    overwritten, so a foreign Writer sees two write_u8(0) calls where it used to
//    see write_bytes(&[0, 0]).
//  * The AVP header decoder fetches the flags/length word with one
//    read_u16_be_unchecked instead of two read_u8_unchecked calls.
// Emitted octets and decoded values are unchanged.
use rl2tp::avp::types::{MessageType, ProtocolVersion};
use rl2tp::avp::AVP;
use rl2tp::common::{Reader, SliceReader, VecWriter, Writer};
use rl2tp::{ControlMessage, Message};
use std::cell::RefCell;
use std::rc::Rc;

#[derive(Default)]
struct LogWriter {
    data: Vec<u8>,
    log: Vec<String>,
}

impl Writer for LogWriter {
    fn is_empty(&self) -> bool {
        self.data.is_empty()
    }
    fn len(&self) -> usize {
        self.data.len()
    }
    fn write_bytes(&mut self, bytes: &[u8]) {
        self.log.push(format!("bytes{:?}", bytes));
        self.data.extend_from_slice(bytes);
    }
    fn write_bytes_at(&mut self, bytes: &[u8], offset: usize) {
        self.log.push(format!("at{}{:?}", offset, bytes));
        self.data[offset..offset + bytes.len()].copy_from_slice(bytes);
    }
    fn write_u8(&mut self, value: u8) {
        self.log.push(format!("u8:{}", value));
        self.data.push(value);
    }
    fn write_u16_be(&mut self, value: u16) {
        self.log.push(format!("u16:{}", value));
        self.data.extend_from_slice(&value.to_be_bytes());
    }
    fn write_u32_be(&mut self, value: u32) {
        self.log.push(format!("u32:{}", value));
        self.data.extend_from_slice(&value.to_be_bytes());
    }
    fn write_u64_be(&mut self, value: u64) {
        self.log.push(format!("u64:{}", value));
        self.data.extend_from_slice(&value.to_be_bytes());
    }
}

fn message() -> Message<Vec<u8>> {
    Message::Control(ControlMessage {
        length: 0,
        tunnel_id: 5,
        session_id: 6,
        ns: 7,
        nr: 8,
        avps: vec![
            AVP::MessageType(MessageType::StartControlConnectionRequest),
            AVP::ProtocolVersion(ProtocolVersion {
                version: 1,
                revision: 0,
            }),
        ],
    })
}

#[test]
fn placeholders_are_written_octet_by_octet_through_the_provided_method() {
    let msg = message();

    let mut reference = VecWriter::new();
    reference.write_bytes(&[0xaa, 0xbb, 0xcc]); // a prefix that must survive
    msg.write(&mut reference);

    let mut w = LogWriter::default();
    w.write_bytes(&[0xaa, 0xbb, 0xcc]);
    w.log.clear();
    msg.write(&mut w);

    assert_eq!(w.data, reference.data);
    assert_eq!(
        w.log,
        [
            "u16:4896", // flags 0x1320
            "u8:0",      // Length placeholder
            "u8:0",
            "u16:5",
            "u16:6",
            "u16:7",
            "u16:8",
            "u8:0", // AVP 1 flags+length placeholder
            "u8:0",
            "u16:0", // vendor id
            "u16:0", // attribute type: Message Type
            "u16:1", // SCCRQ
            "at15[1, 8]",
            "u8:0", // AVP 2 flags+length placeholder
            "u8:0",
            "u16:0", // vendor id
            "u16:2", // attribute type: Protocol Version
            "bytes[1, 0]",
            "at23[1, 8]",
            "at5[0, 28]",
        ]
    );
}

// A contract-honouring reader that records every request it serves.
struct LogReader<'a> {
    inner: SliceReader<'a>,
    log: Rc<RefCell<Vec<String>>>,
}

impl<'a> Reader<&'a [u8]> for LogReader<'a> {
    fn is_empty(&self) -> bool {
        self.inner.is_empty()
    }
    fn len(&self) -> usize {
        self.inner.len()
    }
    fn subreader(&mut self, length: usize) -> Self {
        assert!(length <= self.inner.len());
        self.log.borrow_mut().push(format!("sub{}", length));
        LogReader {
            inner: self.inner.subreader(length),
            log: self.log.clone(),
        }
    }
    fn bytes(&mut self, length: usize) -> Option<&'a [u8]> {
        self.log.borrow_mut().push(format!("bytes{}", length));
        self.inner.bytes(length)
    }
    unsafe fn read_u8_unchecked(&mut self) -> u8 {
        assert!(self.inner.len() >= 1);
        self.log.borrow_mut().push("u8".to_owned());
        self.inner.read_u8_unchecked()
    }
    unsafe fn read_u16_be_unchecked(&mut self) -> u16 {
        assert!(self.inner.len() >= 2);
        self.log.borrow_mut().push("u16".to_owned());
        self.inner.read_u16_be_unchecked()
    }
    unsafe fn read_u32_be_unchecked(&mut self) -> u32 {
        assert!(self.inner.len() >= 4);
        self.log.borrow_mut().push("u32".to_owned());
        self.inner.read_u32_be_unchecked()
    }
    unsafe fn read_u64_be_unchecked(&mut self) -> u64 {
        assert!(self.inner.len() >= 8);
        self.log.borrow_mut().push("u64".to_owned());
        self.inner.read_u64_be_unchecked()
    }
    fn skip_bytes(&mut self, length: usize) {
        assert!(length <= self.inner.len());
        self.log.borrow_mut().push(format!("skip{}", length));
        self.inner.skip_bytes(length);
    }
}

#[test]
fn avp_header_is_read_as_three_words() {
    let msg = message();
    let mut w = VecWriter::new();
    msg.write(&mut w);

    let log = Rc::new(RefCell::new(Vec::new()));
    let mut r = LogReader {
        inner: SliceReader::from(&w.data),
        log: log.clone(),
    };
    let decoded = Message::try_read(&mut r).unwrap();
    let mut plain = SliceReader::from(&w.data);
    assert_eq!(decoded, Message::try_read(&mut plain).unwrap());
    assert!(r.is_empty());

    assert_eq!(
        *log.borrow(),
        [
            "u16", // flags
            "u16", "u16", "u16", "u16", "u16",  // length, ids, Ns, Nr
            "sub16", // AVP area
            "u16", "u16", "u16", // AVP 1 header: flags+length, vendor id, type
            "sub2", "u16", // Message Type value
            "u16", "u16", "u16", // AVP 2 header
            "sub2", "u8", "u8", // Protocol Version value
        ]
    );
}
