// Demo for change `b`: when the decrypted original-length subfield of a hidden AVP is a legal AVP
// length (6..=1023) but announces more octets than the hidden value holds, reveal() now reports
// IncompleteAVP(attribute type) ("truncated AVP") instead of InvalidOriginalAVPLength(length).
// Lengths outside 6..=1023 still give InvalidOriginalAVPLength(length). The input is rejected in
// both versions; only the error variant differs.

use rl2tp::avp::types::{Hidden, RandomVector};
use rl2tp::avp::AVP;
use rl2tp::common::DecodeError;

fn rv() -> RandomVector {
    [0xde, 0xad, 0xbe, 0xef].into()
}

#[test]
fn truncated_hidden_value_reports_incomplete_avp() {
    // 2 + 20 octets of plaintext -> two 16-octet blocks.
    let input = AVP::VendorName("twenty characters!!!".to_owned().into());
    let hidden = input.hide(b"secret", &rv(), &[], &[0u8; 16]);
    let (t, mut value) = match hidden {
        AVP::Hidden(h) => (h.attribute_type, h.value),
        _ => unreachable!(),
    };
    assert_eq!(t, 8);
    assert_eq!(value.len(), 32);

    // Drop the second block: block 1 still decrypts to original length 26 (payload 20),
    // but only 14 payload octets are left.
    value.truncate(16);
    let truncated = AVP::Hidden(Hidden {
        attribute_type: t,
        value,
    });
    assert_eq!(
        truncated.reveal(b"secret", &rv()),
        Err(DecodeError::IncompleteAVP(8))
    );
}

#[test]
fn out_of_range_lengths_keep_their_variant() {
    // One-block values: the decrypted length is pseudo-random. Whatever it is, the value must be
    // classified consistently: InvalidOriginalAVPLength only for lengths that are not a legal AVP
    // length at all.
    let mut out_of_range = 0;
    let mut too_long = 0;
    for i in 0..=255u8 {
        for secret in [&b"a"[..], &b"bb"[..], &b""[..], &b"dddd"[..]] {
            let h = AVP::Hidden(Hidden {
                attribute_type: 8,
                value: vec![i; 16],
            });
            match h.reveal(secret, &rv()) {
                Err(DecodeError::InvalidOriginalAVPLength(n)) => {
                    assert!(!(6..=1023).contains(&n), "length {n} is a legal AVP length");
                    out_of_range += 1;
                }
                Err(DecodeError::IncompleteAVP(8)) => too_long += 1,
                Err(DecodeError::InvalidUtf8(8)) | Ok(AVP::VendorName(_)) => (),
                other => panic!("unexpected {other:?}"),
            }
        }
    }
    assert!(out_of_range > 0);
    assert!(too_long > 0);
}

#[test]
fn round_trip_still_works() {
    let input = AVP::VendorName("test vendor".to_owned().into());
    let hidden = input.clone().hide(b"s", &rv(), &[1, 2, 3], &[7u8; 16]);
    assert_eq!(hidden.reveal(b"s", &rv()), Ok(input));
}
