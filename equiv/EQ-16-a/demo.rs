// Demo for change `a`: the four bitmask AVPs keep their 32-bit word as four
// wire-order octets. Observable through (1) the Reader calls issued while
// decoding, (2) the Writer calls issued while encoding, (3) the Debug text and
// (4) the new from_bits / bits / From<u32> / Default / Hash surface.
use rl2tp::avp::types::{BearerCapabilities, BearerType, FramingCapabilities, FramingType};
use rl2tp::avp::AVP;
use rl2tp::common::{Reader, SliceReader, VecWriter, Writer};
use std::cell::RefCell;
use std::collections::HashSet;
use std::rc::Rc;

type Log = Rc<RefCell<Vec<String>>>;

struct LogReader<'a> {
    inner: SliceReader<'a>,
    log: Log,
}

impl<'a> Reader<&'a [u8]> for LogReader<'a> {
    fn is_empty(&self) -> bool {
        self.inner.is_empty()
    }
    fn len(&self) -> usize {
        self.inner.len()
    }
    fn subreader(&mut self, length: usize) -> Self {
        assert!(length <= self.inner.len());
        self.log.borrow_mut().push(format!("sub({length})"));
        LogReader {
            inner: self.inner.subreader(length),
            log: self.log.clone(),
        }
    }
    fn bytes(&mut self, length: usize) -> Option<&'a [u8]> {
        self.log.borrow_mut().push(format!("bytes({length})"));
        self.inner.bytes(length)
    }
    unsafe fn read_u8_unchecked(&mut self) -> u8 {
        assert!(self.inner.len() >= 1);
        self.log.borrow_mut().push("u8".to_owned());
        self.inner.read_u8_unchecked()
    }
    unsafe fn read_u16_be_unchecked(&mut self) -> u16 {
        assert!(self.inner.len() >= 2);
        self.log.borrow_mut().push("u16".to_owned());
        self.inner.read_u16_be_unchecked()
    }
    unsafe fn read_u32_be_unchecked(&mut self) -> u32 {
        assert!(self.inner.len() >= 4);
        self.log.borrow_mut().push("u32".to_owned());
        self.inner.read_u32_be_unchecked()
    }
    unsafe fn read_u64_be_unchecked(&mut self) -> u64 {
        assert!(self.inner.len() >= 8);
        self.log.borrow_mut().push("u64".to_owned());
        self.inner.read_u64_be_unchecked()
    }
    fn skip_bytes(&mut self, length: usize) {
        assert!(length <= self.inner.len());
        self.log.borrow_mut().push(format!("skip({length})"));
        self.inner.skip_bytes(length)
    }
}

#[derive(Default)]
struct LogWriter {
    inner: VecWriter,
    log: Vec<String>,
}

impl Writer for LogWriter {
    fn is_empty(&self) -> bool {
        self.inner.is_empty()
    }
    fn len(&self) -> usize {
        self.inner.len()
    }
    fn write_bytes(&mut self, bytes: &[u8]) {
        self.log.push(format!("bytes({})", bytes.len()));
        self.inner.write_bytes(bytes)
    }
    fn write_bytes_at(&mut self, bytes: &[u8], offset: usize) {
        self.log.push(format!("at({},{})", bytes.len(), offset));
        self.inner.write_bytes_at(bytes, offset)
    }
    fn write_u8(&mut self, value: u8) {
        self.log.push("u8".to_owned());
        self.inner.write_u8(value)
    }
    fn write_u16_be(&mut self, value: u16) {
        self.log.push("u16".to_owned());
        self.inner.write_u16_be(value)
    }
    fn write_u32_be(&mut self, value: u32) {
        self.log.push("u32".to_owned());
        self.inner.write_u32_be(value)
    }
    fn write_u64_be(&mut self, value: u64) {
        self.log.push("u64".to_owned());
        self.inner.write_u64_be(value)
    }
}

fn record(attribute_type: u16, word: u32) -> Vec<u8> {
    let mut v = vec![0x01, 0x0a, 0x00, 0x00];
    v.extend_from_slice(&attribute_type.to_be_bytes());
    v.extend_from_slice(&word.to_be_bytes());
    v
}

#[test]
fn reader_call_sequence_is_octet_wise() {
    for at in [3u16, 4, 18, 19] {
        let input = record(at, 0xdead_beef);
        let log: Log = Default::default();
        let mut r = LogReader {
            inner: SliceReader::from(&input),
            log: log.clone(),
        };
        let avps = AVP::try_read_greedy(&mut r);
        assert_eq!(avps.len(), 1);
        assert!(avps[0].is_ok());
        // header: u8 u8 u16 u16, then sub(4), then the payload reads
        let calls = log.borrow().clone();
        assert_eq!(
            calls,
            ["u8", "u8", "u16", "u16", "sub(4)", "u8", "u8", "u8", "u8"],
            "attribute type {at}"
        );

        // Same value as with the plain SliceReader, and it re-encodes to the same octets
        let mut plain = SliceReader::from(&input);
        assert_eq!(AVP::try_read_greedy(&mut plain), avps);
        let mut w = VecWriter::new();
        avps[0].as_ref().unwrap().write(&mut w);
        assert_eq!(w.data, input);
    }
}

#[test]
fn writer_call_sequence_has_no_u32_write() {
    let avps = [
        AVP::FramingCapabilities(FramingCapabilities::new(true, false)),
        AVP::BearerCapabilities(BearerCapabilities::new(true, false)),
        AVP::BearerType(BearerType::new(true, false)),
        AVP::FramingType(FramingType::new(true, false)),
    ];
    let expect_last = [0x40u8, 0x80, 0x40, 0x40];
    for (avp, last) in avps.iter().zip(expect_last) {
        let mut w = LogWriter::default();
        w.inner.data.extend_from_slice(b"prefix");
        avp.write(&mut w);
        assert_eq!(w.log, ["bytes(2)", "u16", "u16", "bytes(4)", "at(2,6)"]);
        assert_eq!(&w.inner.data[..6], b"prefix");
        assert_eq!(w.inner.data.len(), 6 + 10);
        assert_eq!(&w.inner.data[6..10], &[0x01, 0x0a, 0x00, 0x00]);
        assert_eq!(&w.inner.data[12..], &[0, 0, 0, last]);
    }
}

#[test]
fn debug_text_shows_octets() {
    assert_eq!(
        format!("{:?}", FramingCapabilities::new(true, true)),
        "FramingCapabilities { data: [0, 0, 0, 192] }"
    );
    assert_eq!(
        format!("{:?}", BearerType::new(false, true)),
        "BearerType { data: [0, 0, 0, 128] }"
    );
}

#[test]
fn bits_surface() {
    for w in [0u32, 1, 0x40, 0x80, 0xc0, 0xffff_ff3f, 0xffff_ffff, 0x1234_5678] {
        let f = FramingCapabilities::from_bits(w);
        assert_eq!(f.bits(), w);
        assert_eq!(u32::from(f), w);
        assert_eq!(FramingCapabilities::from(w), f);
        assert_eq!(f.is_async_framing_supported(), w & 0x40 != 0);
        assert_eq!(f.is_sync_framing_supported(), w & 0x80 != 0);

        let b = BearerCapabilities::from_bits(w);
        assert_eq!(b.bits(), w);
        assert_eq!(b.is_analog_access_supported(), w & 0x40 != 0);
        assert_eq!(b.is_digital_access_supported(), w & 0x80 != 0);

        let t = BearerType::from_bits(w);
        assert_eq!(t.bits(), w);
        assert_eq!(t.is_analog_request(), w & 0x40 != 0);
        assert_eq!(t.is_digital_request(), w & 0x80 != 0);

        let t = FramingType::from_bits(w);
        assert_eq!(t.bits(), w);
        assert_eq!(t.is_analog_request(), w & 0x40 != 0);
        assert_eq!(t.is_digital_request(), w & 0x80 != 0);

        // decode of the wire word gives the same value as from_bits
        let input = record(19, w);
        let mut r = SliceReader::from(&input);
        assert_eq!(
            AVP::try_read_greedy(&mut r),
            vec![Ok(AVP::FramingType(FramingType::from_bits(w)))]
        );
    }
    assert_eq!(FramingCapabilities::default(), FramingCapabilities::new(false, false));
    assert_eq!(BearerCapabilities::default().bits(), 0);
    let set: HashSet<BearerType> = [BearerType::new(true, false), BearerType::from_bits(0x40)]
        .into_iter()
        .collect();
    assert_eq!(set.len(), 1);

    for (x, y) in [(false, false), (false, true), (true, false), (true, true)] {
        let v = FramingCapabilities::new(x, y);
        assert_eq!((v.is_async_framing_supported(), v.is_sync_framing_supported()), (x, y));
        let v = BearerCapabilities::new(x, y);
        assert_eq!((v.is_digital_access_supported(), v.is_analog_access_supported()), (x, y));
        let v = BearerType::new(x, y);
        assert_eq!((v.is_analog_request(), v.is_digital_request()), (x, y));
        let v = FramingType::new(x, y);
        assert_eq!((v.is_analog_request(), v.is_digital_request()), (x, y));
    }
}
