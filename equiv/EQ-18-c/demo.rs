// Demo for change `c`: hand-written, flattened and re-ordered Debug for Message,
// ControlMessage and DataMessage. PASSES with the change, FAILS on the original crate.
use rl2tp::avp::types::MessageType;
use rl2tp::avp::AVP;
use rl2tp::common::{SliceReader, VecWriter};
use rl2tp::{ControlMessage, DataMessage, Message};

#[test]
fn control_message_debug_is_flat_and_reordered() {
    let cm = ControlMessage {
        length: 20,
        tunnel_id: 2,
        session_id: 3,
        ns: 4,
        nr: 5,
        avps: vec![AVP::MessageType(MessageType::Hello)],
    };
    assert_eq!(
        format!("{cm:?}"),
        "ControlMessage { tunnel_id: 2, session_id: 3, ns: 4, nr: 5, length: 20, avps: [MessageType(Hello)] }"
    );
    let msg = Message::<Vec<u8>>::Control(cm);
    assert_eq!(
        format!("{msg:?}"),
        "Message::Control { tunnel_id: 2, session_id: 3, ns: 4, nr: 5, length: 20, avps: [MessageType(Hello)] }"
    );
}

#[test]
fn data_message_debug_is_flat_and_splits_ns_nr() {
    let payload = [0xDEu8, 0xAD];
    let dm = DataMessage {
        is_prioritized: true,
        length: None,
        tunnel_id: 7,
        session_id: 8,
        ns_nr: Some((9, 10)),
        offset: None,
        data: &payload[..],
    };
    assert_eq!(
        format!("{dm:?}"),
        "DataMessage { tunnel_id: 7, session_id: 8, is_prioritized: true, ns: Some(9), nr: Some(10), length: None, offset: None, data: [222, 173] }"
    );

    // and through a real encode / decode
    let mut w = VecWriter::new();
    Message::Data(dm).write(&mut w);
    let mut r = SliceReader::from(&w.data[..]);
    let decoded = Message::try_read(&mut r).unwrap();
    assert_eq!(
        format!("{decoded:?}"),
        "Message::Data { tunnel_id: 7, session_id: 8, is_prioritized: true, ns: Some(9), nr: Some(10), length: None, offset: None, data: [222, 173] }"
    );
}
