// C03 — control messages and all AVP kinds survive encode then decode unchanged.
use crate::cx::*;
use crate::gen::*;
use crate::glue::*;
use crate::prop::*;
use crate::spec::*;
use rl2tp::avp::AVP;
use rl2tp::common::{Reader, SliceReader};
use rl2tp::Message;
use serde_json::{json, Value};

pub static DEF: PropDef = PropDef {
    id: "C03",
    title: "Control messages and all AVP kinds survive encode then decode unchanged",
    rule: "G-val tapes: control messages of 0..~70 AVPs (all 39 standard kinds with boundary-biased integers, blobs/strings of 1..1017 octets with extra mass on AVP totals 255/256/1022/1023, \
optional tails absent/present, opaque hidden AVPs of any u16 type) built under the 65 535-octet budget with a Message Type first, occasionally filling the message to (or exactly to) 65 535 octets; \
and single AVPs. The writer already holds a prefix of 0..~200 000 octets in half of the cases (extra mass around 2^16). Oracle: Message::write -> try_read_validate(Yes,Yes,Yes) = Ok(m[length := octets emitted]) with the reader empty afterwards; AVP::write -> try_read_greedy = [Ok(a)]; \
compared both with the crate's own PartialEq and field-for-field after projection. Non-trivial = a message with at least one AVP, or a single AVP; distinct by hash of the encoding.",
    assumptions: &["values are built through the crate's public fields/constructors only; enumerated values are chosen by name from the harness's own RFC tables"],
    parts,
    run_tape,
    run_enum: no_enum,
    run_concrete,
    both_profiles: true,
    exhaustive_note: "",
};

fn parts(t: Tier) -> Vec<Part> {
    let (a, b, c) = match t {
        Tier::Quick => (450_000, 1_200_000, 4_500),
        Tier::Thorough => (5_000_000, 12_000_000, 60_000),
    };
    vec![tape("messages", a, 2500), tape("avps", b, 1200), tape("bigmessages", c, 3000)]
}

pub fn avp_classes(a: &SAvp, wire_len: usize, cx: &mut Cx) {
    if a.hidden {
        cx.class("avp variant Hidden");
    } else {
        cx.class_dyn(format!("avp variant {:02}", a.attr));
    }
    cx.class(match wire_len {
        0..=255 => "avp total <= 255",
        256..=1022 => "avp total 256..1022",
        _ => "avp total = 1023",
    });
    match &a.body {
        Body::Text(s) if !s.is_ascii() => cx.class("multi-byte utf-8 text"),
        Body::ResultCode { error: None, .. } => cx.class("result code: no error part"),
        Body::ResultCode { error: Some((_, None)), .. } => cx.class("result code: error without message"),
        Body::ResultCode { error: Some((_, Some(_))), .. } => cx.class("result code: error with message"),
        Body::Q931 { advisory: None, .. } => cx.class("q931: no advisory"),
        Body::Q931 { advisory: Some(_), .. } => cx.class("q931: advisory"),
        _ => {}
    }
}

pub fn check_message(m: &SMsg, prefix: &[u8], family: &'static str, cx: &mut Cx) -> Res {
    cx.eval();
    let render = || json!({"message": format!("{:?}", m), "writer_already_holds_octets": prefix.len()});
    cx.stage(STAGE_ARMED);
    // the writer may already hold octets (an earlier message, a caller's prefix): the message is what gets appended
    let e = match crate_encode_msg_after(m, prefix) {
        Caught::Ok(e) => e,
        Caught::Panic(p) => return fail(format!("encoding a message in the encodable domain panicked: {}", p.short()), render()),
        Caught::Monitor(_) => return fail("unexpected panic payload", render()),
    };
    let mut exp = m.clone();
    if let SMsg::Control { length, .. } = &mut exp {
        *length = e.len() as u16;
    }
    let r = guard(|| {
        let mut r = SliceReader::from(&e[..]);
        let d: Result<Message<&[u8]>, _> = Message::try_read_validate(&mut r, copts(STRICT));
        let left = r.len();
        let eq_native = match &d {
            Ok(d) => *d == to_crate_msg(&exp),
            Err(_) => false,
        };
        (d.map(|d| from_crate_msg(&d)), left, eq_native)
    });
    cx.stage(STAGE_SETUP);
    let renc = || json!({"message": format!("{:?}", m), "encoding": hex(&e), "writer_already_holds_octets": prefix.len()});
    match r {
        Caught::Ok((Ok(d), left, eq_native)) => {
            if d != exp {
                let mut v = renc();
                v["decoded"] = json!(format!("{:?}", d));
                return fail("decode_strict(encode(m)) differs from m[length := octets emitted]", v);
            }
            if !eq_native {
                return fail("the decoded message is not equal to the original under the crate's own PartialEq", renc());
            }
            if left != 0 {
                return fail(format!("{} octets left in the reader after decoding the message's own encoding", left), renc());
            }
        }
        Caught::Ok((Err(errs), _, _)) => {
            let mut v = renc();
            v["errors"] = json!(format!("{:?}", errs));
            return fail("strict decoding of the message's own encoding was rejected", v);
        }
        Caught::Panic(p) => return fail(format!("decoding the message's own encoding panicked: {}", p.short()), renc()),
        Caught::Monitor(_) => return fail("unexpected panic payload", renc()),
    }
    if let SMsg::Control { avps, .. } = m {
        if !avps.is_empty() {
            cx.nontrivial(&e);
        }
        cx.class(match avps.len() {
            0 => "message with 0 AVPs (ZLB)",
            1 => "message with 1 AVP",
            2..=6 => "message with 2..6 AVPs",
            7..=255 => "message with 7..255 AVPs",
            256..=1023 => "message with 256..1023 AVPs",
            _ => "message with >= 1024 AVPs",
        });
        cx.class(match e.len() {
            0..=255 => "message <= 255 octets",
            256..=32767 => "message 256..32767 octets",
            65535 => "message = 65535 octets",
            _ => "message > 32767 octets",
        });
        for a in avps {
            avp_classes(a, avp_wire_len(a), cx);
        }
        cx.class(match prefix.len() {
            0 => "encoded into an empty writer",
            1..=400 => "encoded after a short prefix",
            _ => "encoded after a prefix of about 2^16 octets or more",
        });
        cx.sample(family, || json!({"encoding": hex_short(&e), "avps": avps.len(), "writer_already_holds_octets": prefix.len(), "family": family}));
    }
    Ok(())
}

pub fn check_avp(a: &SAvp, prefix: &[u8], cx: &mut Cx) -> Res {
    cx.eval();
    let render = || json!({"avp": format!("{:?}", a), "writer_already_holds_octets": prefix.len()});
    cx.stage(STAGE_ARMED);
    let ca = to_crate(a);
    let e = match crate_encode_avp_after(a, prefix) {
        Caught::Ok(e) => e,
        Caught::Panic(p) => return fail(format!("encoding an AVP in the encodable domain panicked: {}", p.short()), render()),
        Caught::Monitor(_) => return fail("unexpected panic payload", render()),
    };
    let r = guard(|| {
        let mut r = SliceReader::from(&e[..]);
        let v = AVP::try_read_greedy(&mut r);
        let native = v.len() == 1 && matches!(&v[0], Ok(x) if *x == ca);
        (v.into_iter().map(|x| x.map(|y| from_crate(&y))).collect::<Vec<_>>(), r.len(), native)
    });
    cx.stage(STAGE_SETUP);
    let renc = || json!({"avp": format!("{:?}", a), "encoding": hex(&e)});
    match r {
        Caught::Ok((v, left, native)) => {
            if v.len() != 1 || v[0].as_ref().ok() != Some(a) {
                let mut j = renc();
                j["decoded"] = json!(format!("{:?}", v));
                return fail("decode_avps(encode(a)) differs from [Ok(a)]", j);
            }
            if !native {
                return fail("the decoded AVP is not equal to the original under the crate's own PartialEq", renc());
            }
            if left != 0 {
                return fail(format!("{} octets left in the reader after decoding the AVP's own encoding", left), renc());
            }
        }
        Caught::Panic(p) => return fail(format!("decoding the AVP's own encoding panicked: {}", p.short()), renc()),
        Caught::Monitor(_) => return fail("unexpected panic payload", renc()),
    }
    cx.nontrivial(&e);
    avp_classes(a, e.len(), cx);
    cx.sample("avps", || json!({"encoding": hex_short(&e), "family": "avps"}));
    Ok(())
}

fn run_tape(part: &str, tape: &[u8], cx: &mut Cx) -> Res {
    let mut t = Tape::new(tape);
    match part {
        "messages" => {
            let p = gen_prefix(&mut t);
            // what the thread encoded or decoded just before must not matter
            crate::props::history::prior_ops(&mut t, cx, true);
            check_message(&gen_control(&mut t), &p, "messages", cx)
        }
        "bigmessages" => {
            let p = if t.chance(30) { gen_prefix(&mut t) } else { Vec::new() };
            check_message(&gen_control_big(&mut t), &p, "bigmessages", cx)
        }
        _ => {
            let p = gen_prefix(&mut t);
            crate::props::history::prior_ops(&mut t, cx, true);
            check_avp(&gen_avp(&mut t), &p, cx)
        }
    }
}

fn run_concrete(case: &Value, _cx: &mut Cx) -> Res {
    fail("C03 has no concrete case format (replay the tape)", case.clone())
}
