// Change `c`: the Writer trait has a provided `reserve` hint (default: ignored),
// VecWriter forwards it to Vec::reserve, and the encoders announce the size of
// what they are about to write. The emitted octets are unchanged; what changes is
// the allocation pattern, visible through the public `data` field of VecWriter:
// the buffer is sized once instead of growing by doubling while octets arrive.
use rl2tp::avp::types::{HostName, MessageType, VendorName};
use rl2tp::avp::AVP;
use rl2tp::common::{SliceReader, VecWriter, Writer};
use rl2tp::{ControlMessage, DataMessage, Message};
use std::alloc::{GlobalAlloc, Layout, System};
use std::cell::Cell;

fn control() -> Message<Vec<u8>> {
    Message::Control(ControlMessage {
        length: 0,
        tunnel_id: 5,
        session_id: 6,
        ns: 7,
        nr: 8,
        avps: vec![
            AVP::MessageType(MessageType::StartControlConnectionRequest),
            AVP::HostName(HostName::from(vec![b'h'; 150])),
            AVP::VendorName(VendorName::from("v".repeat(120))),
        ],
    })
}

#[test]
fn control_message_buffer_is_sized_once() {
    let msg = control();
    let mut w = VecWriter::new();
    msg.write(&mut w);

    // 12 + 8 + 156 + 126 octets
    assert_eq!(w.data.len(), 302);
    assert_eq!(u16::from_be_bytes([w.data[2], w.data[3]]), 302);

    // One exact allocation; growth by doubling would have ended at 512.
    assert_eq!(w.data.capacity(), 302);

    // The octets still decode to the same message.
    let mut r = SliceReader::from(&w.data);
    match (Message::try_read(&mut r).unwrap(), msg) {
        (Message::Control(got), Message::Control(want)) => {
            assert_eq!(got.avps, want.avps);
            assert_eq!(got.length, 302);
        }
        _ => panic!("expected a control message"),
    }
}

// Count (re)allocations made by the current thread.
struct Counting;

thread_local! {
    static ALLOCATIONS: Cell<usize> = const { Cell::new(0) };
}

unsafe impl GlobalAlloc for Counting {
    unsafe fn alloc(&self, layout: Layout) -> *mut u8 {
        let _ = ALLOCATIONS.try_with(|c| c.set(c.get() + 1));
        System.alloc(layout)
    }
    unsafe fn dealloc(&self, ptr: *mut u8, layout: Layout) {
        System.dealloc(ptr, layout)
    }
    unsafe fn realloc(&self, ptr: *mut u8, layout: Layout, new_size: usize) -> *mut u8 {
        let _ = ALLOCATIONS.try_with(|c| c.set(c.get() + 1));
        System.realloc(ptr, layout, new_size)
    }
}

#[global_allocator]
static GLOBAL: Counting = Counting;

fn allocations_during(f: impl FnOnce()) -> usize {
    let before = ALLOCATIONS.with(|c| c.get());
    f();
    ALLOCATIONS.with(|c| c.get()) - before
}

#[test]
fn avp_and_data_message_need_a_single_allocation() {
    let avp = AVP::HostName(HostName::from(vec![b'h'; 94]));
    let mut w = VecWriter::new();
    let n = allocations_during(|| avp.write(&mut w));
    assert_eq!(w.data.len(), 100);
    assert_eq!(w.data.capacity(), 100);
    // Before: 8 octets for the header fields, then a reallocation for the value.
    assert_eq!(n, 1);

    let payload = vec![0xabu8; 1000];
    let msg: Message<&[u8]> = Message::Data(DataMessage {
        is_prioritized: false,
        length: Some(1012),
        tunnel_id: 1,
        session_id: 2,
        ns_nr: Some((3, 4)),
        offset: None,
        data: &payload[..],
    });
    let mut w = VecWriter::new();
    let n = allocations_during(|| msg.write(&mut w));
    assert_eq!(w.data.len(), 1012);
    assert_eq!(w.data.capacity(), 1012);
    // Before: 8, 16, then 1012 octets.
    assert_eq!(n, 1);

    let msg = control();
    let mut w = VecWriter::new();
    let n = allocations_during(|| msg.write(&mut w));
    assert_eq!(w.data.len(), 302);
    // Before: 8, 16, 32, 176, 352 octets.
    assert_eq!(n, 1);
}

// A Writer that does not know about `reserve` keeps working and sees exactly the
// calls it saw before (the provided method does nothing).
#[derive(Default)]
struct Plain {
    data: Vec<u8>,
    calls: usize,
}

impl Writer for Plain {
    fn is_empty(&self) -> bool {
        self.data.is_empty()
    }
    fn len(&self) -> usize {
        self.data.len()
    }
    fn write_bytes(&mut self, bytes: &[u8]) {
        self.calls += 1;
        self.data.extend_from_slice(bytes);
    }
    fn write_bytes_at(&mut self, bytes: &[u8], offset: usize) {
        self.calls += 1;
        self.data[offset..offset + bytes.len()].copy_from_slice(bytes);
    }
    fn write_u8(&mut self, value: u8) {
        self.calls += 1;
        self.data.push(value);
    }
    fn write_u16_be(&mut self, value: u16) {
        self.calls += 1;
        self.data.extend_from_slice(&value.to_be_bytes());
    }
    fn write_u32_be(&mut self, value: u32) {
        self.calls += 1;
        self.data.extend_from_slice(&value.to_be_bytes());
    }
    fn write_u64_be(&mut self, value: u64) {
        self.calls += 1;
        self.data.extend_from_slice(&value.to_be_bytes());
    }
}

#[test]
fn other_writers_get_the_same_octets() {
    let msg = control();
    let mut w = VecWriter::new();
    msg.write(&mut w);
    let mut p = Plain::default();
    msg.write(&mut p);
    assert_eq!(p.data, w.data);
    // flags, length placeholder, 4 header fields, 3 AVPs x (placeholder, vendor id,
    // attribute type, value, header overwrite), length overwrite
    assert_eq!(p.calls, 6 + 3 * 5 + 1);
}
