// Demo for change `d`: fixed-size octet-array AVPs (Random Vector, Challenge Response,
// Physical Channel ID, ACCM) are read with fixed-width reads straight into stack arrays
// instead of requesting an intermediate slice through `Reader::bytes`.
//
// Decoded values and errors are unchanged; what changes is the kind of request the reader sees
// (and, for readers whose slice type owns its data, one heap copy per AVP disappears).

use rl2tp::avp::types::{Accm, ChallengeResponse, PhysicalChannelId, RandomVector};
use rl2tp::avp::AVP;
use rl2tp::common::{DecodeError, Reader};
use std::cell::Cell;
use std::rc::Rc;

#[derive(Default)]
struct Stats {
    slice_requests: Cell<usize>,
    u32_reads: Cell<usize>,
    u64_reads: Cell<usize>,
}

fn bump(c: &Cell<usize>) {
    c.set(c.get() + 1);
}

/// A conforming reader over shared owned data whose slice type is an owned `Vec<u8>`.
/// Every precondition of the `Reader` contract is checked.
struct OwningReader {
    data: Rc<Vec<u8>>,
    position: usize,
    end: usize,
    stats: Rc<Stats>,
}

impl OwningReader {
    fn new(data: &[u8], stats: Rc<Stats>) -> Self {
        Self {
            data: Rc::new(data.to_vec()),
            position: 0,
            end: data.len(),
            stats,
        }
    }
    fn take<const N: usize>(&mut self) -> [u8; N] {
        assert!(N <= self.end - self.position, "reader precondition violated");
        let out = self.data[self.position..self.position + N].try_into().unwrap();
        self.position += N;
        out
    }
}

impl Reader<Vec<u8>> for OwningReader {
    fn is_empty(&self) -> bool {
        self.position == self.end
    }
    fn len(&self) -> usize {
        self.end - self.position
    }
    fn subreader(&mut self, length: usize) -> Self {
        assert!(length <= self.len(), "reader precondition violated");
        let sub = Self {
            data: self.data.clone(),
            position: self.position,
            end: self.position + length,
            stats: self.stats.clone(),
        };
        self.position += length;
        sub
    }
    fn bytes(&mut self, length: usize) -> Option<Vec<u8>> {
        bump(&self.stats.slice_requests);
        if length > self.len() {
            return None;
        }
        let out = self.data[self.position..self.position + length].to_vec();
        self.position += length;
        Some(out)
    }
    unsafe fn read_u8_unchecked(&mut self) -> u8 {
        self.take::<1>()[0]
    }
    unsafe fn read_u16_be_unchecked(&mut self) -> u16 {
        u16::from_be_bytes(self.take())
    }
    unsafe fn read_u32_be_unchecked(&mut self) -> u32 {
        bump(&self.stats.u32_reads);
        u32::from_be_bytes(self.take())
    }
    unsafe fn read_u64_be_unchecked(&mut self) -> u64 {
        bump(&self.stats.u64_reads);
        u64::from_be_bytes(self.take())
    }
    fn skip_bytes(&mut self, length: usize) {
        assert!(length <= self.len(), "reader precondition violated");
        self.position += length;
    }
}

fn avp(attribute_type: u16, payload: &[u8]) -> Vec<u8> {
    let length = (6 + payload.len()) as u16;
    let mut v = vec![0x01 | ((length >> 8) as u8) << 6, length as u8, 0, 0];
    v.extend(attribute_type.to_be_bytes());
    v.extend(payload);
    v
}

#[test]
fn fixed_arrays_are_read_without_slice_requests() {
    let response: [u8; 16] = core::array::from_fn(|i| 0xa0 + i as u8);
    let mut wire = avp(36, &[1, 2, 3, 4]);
    wire.extend(avp(13, &response));
    wire.extend(avp(25, &[9, 8, 7, 6]));
    wire.extend(avp(35, &[0xff, 0xff, 0x11, 0x12, 0x13, 0x14, 0x21, 0x22, 0x23, 0x24]));
    // surplus payload octets are still ignored
    wire.extend(avp(36, &[5, 6, 7, 8, 0xcc, 0xcc]));

    let stats = Rc::new(Stats::default());
    let mut reader = OwningReader::new(&wire, stats.clone());
    let decoded = AVP::try_read_greedy(&mut reader);

    assert_eq!(
        decoded,
        vec![
            Ok(AVP::RandomVector(RandomVector::from([1, 2, 3, 4]))),
            Ok(AVP::ChallengeResponse(ChallengeResponse::from(response))),
            Ok(AVP::PhysicalChannelId(PhysicalChannelId::from([9, 8, 7, 6]))),
            Ok(AVP::Accm(Accm {
                send_accm: [0x11, 0x12, 0x13, 0x14],
                receive_accm: [0x21, 0x22, 0x23, 0x24],
            })),
            Ok(AVP::RandomVector(RandomVector::from([5, 6, 7, 8]))),
        ]
    );
    assert!(reader.is_empty());

    // No owned intermediate slices were requested ...
    assert_eq!(stats.slice_requests.get(), 0);
    // ... the values were pulled with fixed-width reads instead.
    assert_eq!(stats.u32_reads.get(), 1 + 1 + 2 + 1);
    assert_eq!(stats.u64_reads.get(), 2);
}

#[test]
fn short_payloads_are_still_reported_as_incomplete() {
    let mut wire = avp(36, &[1, 2, 3]);
    wire.extend(avp(13, &[0; 15]));
    wire.extend(avp(25, &[]));
    wire.extend(avp(35, &[0; 9]));
    let stats = Rc::new(Stats::default());
    let mut reader = OwningReader::new(&wire, stats.clone());
    assert_eq!(
        AVP::try_read_greedy(&mut reader),
        vec![
            Err(DecodeError::IncompleteAVP(36)),
            Err(DecodeError::IncompleteAVP(13)),
            Err(DecodeError::IncompleteAVP(25)),
            Err(DecodeError::IncompleteAVP(35)),
        ]
    );
    assert_eq!(stats.u32_reads.get() + stats.u64_reads.get(), 0);
}
