#!/bin/bash
# round 5 ("realistic maintenance slips"): owning check plus C01 C05 C06 C12 C19 against every seeded/R5-* change
cd "$(dirname "$0")/.." || exit 2
for d in seeded/R5-*; do
  name=$(basename "$d"); id=${name#R5-}; id=${id%-*}; x=${name##*-}
  checks=$(echo "$id C01 C05 C06 C12 C19" | tr ' ' '\n' | awk '!seen[$0]++' | tr '\n' ' ')
  SEEDED_SRC=/nonexistent SEEDED_NAME=$name SEEDED_CHECKS="$checks" tools/seeded.sh $id $x 2>&1 | grep -E "confirmed=|CAUGHT|OTHER|^  C"
done
