// Reference model of the rl2tp wire format.
// Written from RFC 2661 and the conventions listed in DESIGN.md section 0.
// Shares no code with the crate.

use crate::md5::md5;

#[derive(Clone, Debug, PartialEq, Eq)]
pub enum Body {
    U16(u16),
    U32(u32),
    U64(u64),
    ProtoVer(u8, u8),
    Blob(Vec<u8>),
    Text(String),
    Fixed(Vec<u8>),
    ResultCode { code: u16, error: Option<(u16, Option<String>)> },
    Q931 { cause: u16, msg: u8, advisory: Option<String> },
    ProxyId(u8),
    CallErrors([u32; 6]),
    Accm([u8; 4], [u8; 4]),
    Empty,
    Opaque(Vec<u8>), // hidden
}

#[derive(Clone, Debug, PartialEq, Eq)]
pub struct SAvp {
    pub attr: u16,
    pub hidden: bool,
    pub body: Body,
}

#[derive(Clone, Copy, Debug, PartialEq, Eq)]
pub enum Fmt {
    MsgType,
    ResultCode,
    ProtoVer,
    U16,
    U32,
    U64,
    Blob,
    Text,
    Q931,
    Fixed(usize),
    ProxyType,
    ProxyId,
    CallErrors,
    Accm,
    Empty,
}

pub fn fmt_of(attr: u16) -> Option<Fmt> {
    Some(match attr {
        0 => Fmt::MsgType,
        1 => Fmt::ResultCode,
        2 => Fmt::ProtoVer,
        3 | 4 | 18 | 19 => Fmt::U32, // bitmasks, raw
        5 => Fmt::U64,
        6 | 9 | 10 | 14 => Fmt::U16,
        15 | 16 | 17 | 24 | 38 => Fmt::U32,
        7 | 11 | 26 | 27 | 28 | 30 | 31 | 33 | 37 => Fmt::Blob,
        8 | 21 | 22 | 23 => Fmt::Text,
        12 => Fmt::Q931,
        13 => Fmt::Fixed(16),
        25 | 36 => Fmt::Fixed(4),
        29 => Fmt::ProxyType,
        32 => Fmt::ProxyId,
        34 => Fmt::CallErrors,
        35 => Fmt::Accm,
        39 => Fmt::Empty,
        _ => return None,
    })
}

pub fn min_len(f: Fmt) -> usize {
    match f {
        Fmt::MsgType | Fmt::ResultCode | Fmt::ProtoVer | Fmt::U16 | Fmt::ProxyType | Fmt::ProxyId => 2,
        Fmt::U32 => 4,
        Fmt::U64 => 8,
        Fmt::Blob | Fmt::Text => 1,
        Fmt::Q931 => 3,
        Fmt::Fixed(n) => n,
        Fmt::CallErrors => 26,
        Fmt::Accm => 10,
        Fmt::Empty => 0,
    }
}

pub const MSG_TYPES: [u16; 14] = [1, 2, 3, 4, 6, 7, 8, 9, 10, 11, 12, 14, 15, 16];

#[derive(Clone, Debug, PartialEq, Eq)]
pub enum SErr {
    Incomplete(u16),
    UnknownMsgType(u16),
    BadUtf8(u16),
    BadErrorType(u16),
    BadProxyType(u16),
    BadAvpLength(u16), // carries the 10-bit total length
    UnknownAvp(u16),
    Vendor(u16),
    Version(u8),  // carries the version nibble
    Offset(u16),  // carries the offset size
    Other(&'static str),
}

fn be16(b: &[u8]) -> u16 {
    ((b[0] as u16) << 8) | b[1] as u16
}
fn be32(b: &[u8]) -> u32 {
    ((b[0] as u32) << 24) | ((b[1] as u32) << 16) | ((b[2] as u32) << 8) | b[3] as u32
}

fn text(attr: u16, b: &[u8]) -> Result<String, SErr> {
    String::from_utf8(b.to_vec()).map_err(|_| SErr::BadUtf8(attr))
}

pub fn decode_payload(attr: u16, p: &[u8]) -> Result<Body, SErr> {
    let f = fmt_of(attr).ok_or(SErr::UnknownAvp(attr))?;
    if p.len() < min_len(f) {
        return Err(SErr::Incomplete(attr));
    }
    Ok(match f {
        Fmt::MsgType => {
            let c = be16(p);
            if !MSG_TYPES.contains(&c) {
                return Err(SErr::UnknownMsgType(c));
            }
            Body::U16(c)
        }
        Fmt::ResultCode => {
            let code = be16(p);
            let rest = &p[2..];
            let error = if rest.len() >= 2 {
                let et = be16(rest);
                if et > 8 {
                    return Err(SErr::BadErrorType(et));
                }
                let m = &rest[2..];
                let msg = if m.is_empty() { None } else { Some(text(attr, m)?) };
                Some((et, msg))
            } else {
                None
            };
            Body::ResultCode { code, error }
        }
        Fmt::ProtoVer => Body::ProtoVer(p[0], p[1]),
        Fmt::U16 => Body::U16(be16(p)),
        Fmt::U32 => Body::U32(be32(p)),
        Fmt::U64 => Body::U64(((be32(p) as u64) << 32) | be32(&p[4..]) as u64),
        Fmt::Blob => Body::Blob(p.to_vec()),
        Fmt::Text => Body::Text(text(attr, p)?),
        Fmt::Q931 => {
            let adv = &p[3..];
            Body::Q931 {
                cause: be16(p),
                msg: p[2],
                advisory: if adv.is_empty() { None } else { Some(text(attr, adv)?) },
            }
        }
        Fmt::Fixed(n) => Body::Fixed(p[..n].to_vec()),
        Fmt::ProxyType => {
            let c = be16(p);
            if c > 5 {
                return Err(SErr::BadProxyType(c));
            }
            Body::U16(c)
        }
        Fmt::ProxyId => Body::ProxyId(p[1]),
        Fmt::CallErrors => {
            let mut v = [0u32; 6];
            for i in 0..6 {
                v[i] = be32(&p[2 + 4 * i..]);
            }
            Body::CallErrors(v)
        }
        Fmt::Accm => Body::Accm(p[2..6].try_into().unwrap(), p[6..10].try_into().unwrap()),
        Fmt::Empty => Body::Empty,
    })
}

pub fn decode_avps(mut r: &[u8]) -> Vec<Result<SAvp, SErr>> {
    let mut out = Vec::new();
    while r.len() >= 6 {
        let o1 = r[0];
        let len = (((o1 >> 6) as usize) << 8) | r[1] as usize;
        let hidden = o1 & 0x02 != 0;
        let vendor = be16(&r[2..]);
        let attr = be16(&r[4..]);
        r = &r[6..];
        if len < 6 {
            out.push(Err(SErr::BadAvpLength(len as u16)));
            break;
        }
        let pl = len - 6;
        if pl > r.len() {
            out.push(Err(SErr::BadAvpLength(len as u16)));
            break;
        }
        let p = &r[..pl];
        r = &r[pl..];
        if vendor != 0 {
            out.push(Err(SErr::Vendor(vendor)));
            continue;
        }
        if hidden {
            out.push(Ok(SAvp { attr, hidden: true, body: Body::Opaque(p.to_vec()) }));
        } else {
            out.push(decode_payload(attr, p).map(|body| SAvp { attr, hidden: false, body }));
        }
    }
    out
}

pub fn encode_payload(b: &Body, w: &mut Vec<u8>) {
    match b {
        Body::U16(x) => w.extend_from_slice(&x.to_be_bytes()),
        Body::U32(x) => w.extend_from_slice(&x.to_be_bytes()),
        Body::U64(x) => w.extend_from_slice(&x.to_be_bytes()),
        Body::ProtoVer(a, b) => w.extend_from_slice(&[*a, *b]),
        Body::Blob(v) | Body::Fixed(v) | Body::Opaque(v) => w.extend_from_slice(v),
        Body::Text(s) => w.extend_from_slice(s.as_bytes()),
        Body::ResultCode { code, error } => {
            w.extend_from_slice(&code.to_be_bytes());
            if let Some((et, m)) = error {
                w.extend_from_slice(&et.to_be_bytes());
                if let Some(m) = m {
                    w.extend_from_slice(m.as_bytes());
                }
            }
        }
        Body::Q931 { cause, msg, advisory } => {
            w.extend_from_slice(&cause.to_be_bytes());
            w.push(*msg);
            if let Some(a) = advisory {
                w.extend_from_slice(a.as_bytes());
            }
        }
        Body::ProxyId(x) => w.extend_from_slice(&[0, *x]),
        Body::CallErrors(v) => {
            w.extend_from_slice(&[0, 0]);
            for x in v {
                w.extend_from_slice(&x.to_be_bytes());
            }
        }
        Body::Accm(s, r) => {
            w.extend_from_slice(&[0, 0]);
            w.extend_from_slice(s);
            w.extend_from_slice(r);
        }
        Body::Empty => {}
    }
}

pub fn encode_avp(a: &SAvp, w: &mut Vec<u8>) {
    let mut p = Vec::new();
    encode_payload(&a.body, &mut p);
    let len = 6 + p.len();
    assert!(len <= 1023, "spec: AVP too long");
    let o1 = (((len >> 8) as u8) << 6) | 0x01 | ((a.hidden as u8) << 1);
    w.extend_from_slice(&[o1, len as u8, 0, 0]);
    w.extend_from_slice(&a.attr.to_be_bytes());
    w.extend_from_slice(&p);
}

// ---------------------------------------------------------------- messages

pub const T: u16 = 0x0100;
pub const L: u16 = 0x0200;
pub const S: u16 = 0x1000;
pub const O: u16 = 0x4000;
pub const P: u16 = 0x8000;
pub const RESERVED: u16 = 0x2C0F;

#[derive(Clone, Copy, Debug, PartialEq, Eq)]
pub struct Opts {
    pub reserved: bool,
    pub version: bool,
    pub unused: bool,
}

#[derive(Clone, Debug, PartialEq, Eq)]
pub enum SMsg {
    Control { length: u16, tunnel: u16, session: u16, ns: u16, nr: u16, avps: Vec<SAvp> },
    Data { prio: bool, length: Option<u16>, tunnel: u16, session: u16, ns_nr: Option<(u16, u16)>, offset: Option<u16>, data: Vec<u8> },
}

/// Ok((value, consumed)) or Err(list of errors in wire order)
pub fn decode_message(b: &[u8], o: Opts) -> Result<(SMsg, usize), Vec<SErr>> {
    if b.len() < 2 {
        return Err(vec![SErr::Other("flags")]);
    }
    let w = be16(b);
    let ver = ((w >> 4) & 0xf) as u8;
    if o.version && ver != 2 {
        return Err(vec![SErr::Version(ver)]);
    }
    if o.reserved && w & RESERVED != 0 {
        return Err(vec![SErr::Other("reserved")]);
    }
    let r = &b[2..];
    if w & T != 0 {
        if o.unused && w & P != 0 {
            return Err(vec![SErr::Other("prio")]);
        }
        if o.unused && w & O != 0 {
            return Err(vec![SErr::Other("offset")]);
        }
        if w & L == 0 {
            return Err(vec![SErr::Other("nolen")]);
        }
        if w & S == 0 {
            return Err(vec![SErr::Other("nons")]);
        }
        if r.len() < 10 {
            return Err(vec![SErr::Other("hdr")]);
        }
        let length = be16(r) as usize;
        if length < 12 || length > b.len() {
            return Err(vec![SErr::Other("length")]);
        }
        let region = &b[12..length];
        let res = decode_avps(region);
        if let Some(first) = res.first() {
            match first {
                Ok(SAvp { attr: 0, hidden: false, .. }) => {}
                _ => return Err(vec![SErr::Other("notfirst")]),
            }
        }
        if res.iter().any(|x| x.is_err()) {
            return Err(res.into_iter().filter_map(|x| x.err()).collect());
        }
        Ok((
            SMsg::Control {
                length: length as u16,
                tunnel: be16(&r[2..]),
                session: be16(&r[4..]),
                ns: be16(&r[6..]),
                nr: be16(&r[8..]),
                avps: res.into_iter().map(|x| x.unwrap()).collect(),
            },
            length,
        ))
    } else {
        let hl = w & L != 0;
        let hs = w & S != 0;
        let ho = w & O != 0;
        let hdr = 4 + if hl { 2 } else { 0 } + if hs { 4 } else { 0 } + if ho { 2 } else { 0 };
        if r.len() < hdr {
            return Err(vec![SErr::Other("dhdr")]);
        }
        let mut p = 0;
        let length = if hl {
            p += 2;
            Some(be16(r))
        } else {
            None
        };
        let tunnel = be16(&r[p..]);
        let session = be16(&r[p + 2..]);
        p += 4;
        let ns_nr = if hs {
            p += 4;
            Some((be16(&r[p - 4..]), be16(&r[p - 2..])))
        } else {
            None
        };
        if ho {
            let n = be16(&r[p..]) as usize;
            p += 2;
            if n > r.len() - p {
                return Err(vec![SErr::Offset(n as u16)]);
            }
            p += n;
        }
        let rest = &r[p..];
        let consumed_hdr = 2 + p;
        let (payload, consumed) = match length {
            Some(l) => {
                let l = l as usize;
                if l < consumed_hdr || l - consumed_hdr > rest.len() {
                    return Err(vec![SErr::Other("dlen")]);
                }
                (&rest[..l - consumed_hdr], l)
            }
            None => (rest, b.len()),
        };
        if payload.is_empty() {
            return Err(vec![SErr::Other("empty")]);
        }
        Ok((
            SMsg::Data { prio: w & P != 0, length, tunnel, session, ns_nr, offset: None, data: payload.to_vec() },
            consumed,
        ))
    }
}

pub fn encode_message(m: &SMsg) -> Vec<u8> {
    let mut w = Vec::new();
    match m {
        SMsg::Control { tunnel, session, ns, nr, avps, .. } => {
            w.extend_from_slice(&(T | L | S | 0x0020).to_be_bytes());
            w.extend_from_slice(&[0, 0]);
            for x in [tunnel, session, ns, nr] {
                w.extend_from_slice(&x.to_be_bytes());
            }
            for a in avps {
                encode_avp(a, &mut w);
            }
            assert!(w.len() <= 65535);
            let l = (w.len() as u16).to_be_bytes();
            w[2] = l[0];
            w[3] = l[1];
        }
        SMsg::Data { prio, length, tunnel, session, ns_nr, offset, data } => {
            let mut f = 0x0020u16;
            if length.is_some() {
                f |= L
            }
            if ns_nr.is_some() {
                f |= S
            }
            if offset.is_some() {
                f |= O
            }
            if *prio {
                f |= P
            }
            w.extend_from_slice(&f.to_be_bytes());
            if let Some(l) = length {
                w.extend_from_slice(&l.to_be_bytes());
            }
            w.extend_from_slice(&tunnel.to_be_bytes());
            w.extend_from_slice(&session.to_be_bytes());
            if let Some((a, b)) = ns_nr {
                w.extend_from_slice(&a.to_be_bytes());
                w.extend_from_slice(&b.to_be_bytes());
            }
            if let Some(o) = offset {
                w.extend_from_slice(&o.to_be_bytes());
            }
            w.extend_from_slice(data);
        }
    }
    w
}

// ---------------------------------------------------------------- hiding (RFC 2661 4.3)

pub fn hide(attr: u16, payload: &[u8], secret: &[u8], rv: &[u8], lp: &[u8], ap: &[u8; 16]) -> Vec<u8> {
    let mut pt = Vec::new();
    pt.extend_from_slice(&((6 + payload.len()) as u16).to_be_bytes()); // crate convention: total AVP length
    pt.extend_from_slice(payload);
    pt.extend_from_slice(lp);
    let pad = (16 - pt.len() % 16) % 16;
    pt.extend_from_slice(&ap[..pad]);
    let mut ct: Vec<u8> = Vec::new();
    let mut key_in = Vec::new();
    key_in.extend_from_slice(&attr.to_be_bytes());
    key_in.extend_from_slice(secret);
    key_in.extend_from_slice(rv);
    let mut key = md5(&key_in);
    for (i, blk) in pt.chunks(16).enumerate() {
        if i > 0 {
            let mut ki = secret.to_vec();
            ki.extend_from_slice(&ct[(i - 1) * 16..i * 16]);
            key = md5(&ki);
        }
        for j in 0..16 {
            ct.push(blk[j] ^ key[j]);
        }
    }
    ct
}

pub fn decrypt(attr: u16, ct: &[u8], secret: &[u8], rv: &[u8]) -> Vec<u8> {
    let mut pt = Vec::new();
    for (i, blk) in ct.chunks(16).enumerate() {
        let key = if i == 0 {
            let mut k = attr.to_be_bytes().to_vec();
            k.extend_from_slice(secret);
            k.extend_from_slice(rv);
            md5(&k)
        } else {
            let mut k = secret.to_vec();
            k.extend_from_slice(&ct[(i - 1) * 16..i * 16]);
            md5(&k)
        };
        for j in 0..16 {
            pt.push(blk[j] ^ key[j]);
        }
    }
    pt
}

/// encrypt an arbitrary (multiple-of-16) plaintext so that the crate decrypts exactly it
pub fn encrypt_raw(attr: u16, pt: &[u8], secret: &[u8], rv: &[u8]) -> Vec<u8> {
    assert!(pt.len() % 16 == 0);
    let mut ct: Vec<u8> = Vec::new();
    for (i, blk) in pt.chunks(16).enumerate() {
        let key = if i == 0 {
            let mut k = attr.to_be_bytes().to_vec();
            k.extend_from_slice(secret);
            k.extend_from_slice(rv);
            md5(&k)
        } else {
            let mut k = secret.to_vec();
            k.extend_from_slice(&ct[(i - 1) * 16..i * 16]);
            md5(&k)
        };
        for j in 0..16 {
            ct.push(blk[j] ^ key[j]);
        }
    }
    ct
}

pub fn reveal(attr: u16, ct: &[u8], secret: &[u8], rv: &[u8]) -> Result<SAvp, SErr> {
    if ct.is_empty() {
        return Err(SErr::Other("empty"));
    }
    if ct.len() % 16 != 0 {
        return Err(SErr::Other("misaligned"));
    }
    let pt = decrypt(attr, ct, secret, rv);
    let total = be16(&pt) as usize;
    if !(6..=1023).contains(&total) {
        return Err(SErr::Other("origlen"));
    }
    let pl = total - 6;
    if pl > pt.len() - 2 {
        return Err(SErr::Other("origlen"));
    }
    decode_payload(attr, &pt[2..2 + pl]).map(|body| SAvp { attr, hidden: false, body })
}
