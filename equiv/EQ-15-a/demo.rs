// Demo for change `a`: which error an AVP record gets when its length field overruns
// the input AND the record has a second, independent fault (vendor-specific, or an
// unassigned attribute type on a non-hidden record).
//
// With the change the second fault is reported; without it InvalidAVPLength is reported.
// In both cases there is exactly one Err for the record and parsing stops there.

use rl2tp::avp::AVP;
use rl2tp::common::{DecodeError, SliceReader};
use rl2tp::Message;

/// One AVP record with an arbitrary header and the given payload octets.
fn record(flag_bits: u8, length: u16, vendor: u16, attribute_type: u16, payload: &[u8]) -> Vec<u8> {
    let mut v = vec![
        (((length >> 8) as u8 & 0x3) << 6) | flag_bits,
        length as u8,
        (vendor >> 8) as u8,
        vendor as u8,
        (attribute_type >> 8) as u8,
        attribute_type as u8,
    ];
    v.extend_from_slice(payload);
    v
}

fn decode_avps(bytes: &[u8]) -> Vec<Result<AVP, DecodeError>> {
    let mut r = SliceReader::from(bytes);
    AVP::try_read_greedy(&mut r)
}

fn control(body: &[u8]) -> Vec<u8> {
    let total = 12 + body.len();
    let mut v = vec![0x13, 0x20, (total >> 8) as u8, total as u8, 0, 1, 0, 2, 0, 3, 0, 4];
    v.extend_from_slice(body);
    v
}

#[test]
fn overrun_and_vendor_specific_reports_vendor() {
    // length field 100, only 2 payload octets present, vendor id 9, attribute type 7
    let bytes = record(0x01, 100, 9, 7, b"ab");
    let got = decode_avps(&bytes);
    assert_eq!(got, vec![Err(DecodeError::UnsupportedVendorId(9))]);
}

#[test]
fn overrun_and_unknown_type_reports_unknown_type() {
    // length field 100, only 2 payload octets present, attribute type 200 (unassigned)
    let bytes = record(0x01, 100, 0, 200, b"ab");
    let got = decode_avps(&bytes);
    assert_eq!(got, vec![Err(DecodeError::UnknownAvp(200))]);

    // attribute type 20 is the hole in 0..=39
    let bytes = record(0x01, 50, 0, 20, b"");
    let got = decode_avps(&bytes);
    assert_eq!(got, vec![Err(DecodeError::UnknownAvp(20))]);
}

#[test]
fn inside_a_control_message() {
    let mut body = record(0x01, 8, 0, 0, &[0, 1]); // Message Type = SCCRQ
    body.extend(record(0x01, 8, 0, 10, &[0, 4])); // Receive Window Size, fine
    body.extend(record(0x01, 300, 77, 7, b"xyz")); // overruns AND vendor-specific
    body.extend(record(0x01, 8, 0, 10, &[0, 4])); // never reached (inside the overrun)
    let bytes = control(&body);
    let mut r = SliceReader::from(&bytes[..]);
    let got = Message::try_read(&mut r);
    assert_eq!(got, Err(vec![DecodeError::UnsupportedVendorId(77)]));
}

#[test]
fn single_fault_records_are_unaffected() {
    // Only fault: the length overruns. Known type, vendor 0.
    let bytes = record(0x01, 100, 0, 7, b"ab");
    assert_eq!(decode_avps(&bytes), vec![Err(DecodeError::InvalidAVPLength(94))]);

    // Hidden record: its attribute type is opaque, so an unassigned number is no fault.
    let bytes = record(0x03, 100, 0, 200, b"ab");
    assert_eq!(decode_avps(&bytes), vec![Err(DecodeError::InvalidAVPLength(94))]);

    // Usable length, vendor-specific: skipped, parsing goes on.
    let mut bytes = record(0x01, 8, 9, 7, b"ab");
    bytes.extend(record(0x01, 8, 0, 10, &[0, 4]));
    let got = decode_avps(&bytes);
    assert_eq!(got.len(), 2);
    assert_eq!(got[0], Err(DecodeError::UnsupportedVendorId(9)));
    assert!(got[1].is_ok());

    // Usable length, unknown type.
    let bytes = record(0x01, 8, 0, 200, b"ab");
    assert_eq!(decode_avps(&bytes), vec![Err(DecodeError::UnknownAvp(200))]);
}
