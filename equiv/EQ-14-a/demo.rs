// Demo for change `a`: AVP::write computes the AVP length up front from
// get_length(), refuses an oversize AVP *before* touching the writer and emits
// the final header in a single call with no back-patch.

use rl2tp::avp::types::HostName;
use rl2tp::avp::AVP;
use rl2tp::common::{VecWriter, Writer};
use std::panic::{catch_unwind, AssertUnwindSafe};

#[derive(Default)]
struct Rec {
    data: Vec<u8>,
    calls: Vec<String>,
}

impl Writer for Rec {
    fn is_empty(&self) -> bool {
        self.data.is_empty()
    }
    fn len(&self) -> usize {
        self.data.len()
    }
    fn write_bytes(&mut self, bytes: &[u8]) {
        self.calls.push(format!("write_bytes({})", bytes.len()));
        self.data.extend_from_slice(bytes);
    }
    fn write_bytes_at(&mut self, bytes: &[u8], offset: usize) {
        self.calls
            .push(format!("write_bytes_at({},{})", bytes.len(), offset));
        assert!(offset + bytes.len() <= self.data.len());
        self.data[offset..offset + bytes.len()].copy_from_slice(bytes);
    }
    fn write_u8(&mut self, value: u8) {
        self.calls.push("write_u8".to_owned());
        self.data.push(value);
    }
    fn write_u16_be(&mut self, value: u16) {
        self.calls.push("write_u16_be".to_owned());
        self.data.extend_from_slice(&value.to_be_bytes());
    }
    fn write_u32_be(&mut self, value: u32) {
        self.calls.push("write_u32_be".to_owned());
        self.data.extend_from_slice(&value.to_be_bytes());
    }
    fn write_u64_be(&mut self, value: u64) {
        self.calls.push("write_u64_be".to_owned());
        self.data.extend_from_slice(&value.to_be_bytes());
    }
}

#[test]
fn oversize_avp_is_refused_before_the_writer_is_touched() {
    // 6 + 1018 = 1024 > 1023
    let avp = AVP::HostName(HostName {
        value: vec![0x41; 1018],
    });
    let mut w = VecWriter::new();
    w.write_bytes(&[1, 2, 3]);
    let r = catch_unwind(AssertUnwindSafe(|| avp.write(&mut w)));
    let payload = r.expect_err("oversize AVP must be refused by a panic");
    // Refused early: the prefix is all the writer holds.
    assert_eq!(w.data, vec![1, 2, 3]);
    let text = payload
        .downcast_ref::<String>()
        .cloned()
        .or_else(|| payload.downcast_ref::<&str>().map(|s| s.to_string()))
        .unwrap_or_default();
    assert!(text.contains("does not fit"), "panic text was: {text}");
}

#[test]
fn regular_avp_is_written_in_one_pass_without_back_patch() {
    let avp = AVP::HostName(HostName {
        value: b"lac".to_vec(),
    });
    let mut w = Rec::default();
    avp.write(&mut w);
    assert_eq!(
        w.data,
        vec![0x01, 0x09, 0x00, 0x00, 0x00, 0x07, b'l', b'a', b'c']
    );
    assert_eq!(
        w.calls,
        vec![
            "write_bytes(4)".to_owned(),
            "write_u16_be".to_owned(),
            "write_bytes(3)".to_owned()
        ]
    );
}
