// Demo for change `b`: error list of a control message whose first AVP is not a valid
// Message Type AND which contains further undecodable records.
//
// The properties only require "rejected, no partial message, non-empty error list" for this
// case (the one-error-per-bad-record rule is stated only for messages whose first AVP is a valid
// Message Type). The change reports ControlMessageTypeNotFirst followed by the errors of the
// later bad records, instead of ControlMessageTypeNotFirst alone.

use rl2tp::common::{DecodeError, SliceReader};
use rl2tp::{Message, ValidateReserved, ValidateUnused, ValidateVersion, ValidationOptions};

fn strict() -> ValidationOptions {
    ValidationOptions {
        reserved: ValidateReserved::Yes,
        version: ValidateVersion::Yes,
        unused: ValidateUnused::Yes,
    }
}

fn control(avps: &[&[u8]]) -> Vec<u8> {
    let body: Vec<u8> = avps.iter().flat_map(|a| a.iter().copied()).collect();
    let mut v = vec![0x13, 0x20];
    v.extend_from_slice(&((12 + body.len()) as u16).to_be_bytes());
    v.extend_from_slice(&[0x00, 0x01, 0x00, 0x02, 0x00, 0x03, 0x00, 0x04]);
    v.extend_from_slice(&body);
    v
}

fn decode(bytes: &[u8]) -> Result<Message<&[u8]>, Vec<DecodeError>> {
    let mut r = SliceReader::from(bytes);
    Message::try_read_validate(&mut r, strict())
}

const MESSAGE_TYPE_SCCRQ: &[u8] = &[0x01, 0x08, 0x00, 0x00, 0x00, 0x00, 0x00, 0x01];
const MESSAGE_TYPE_CODE_5: &[u8] = &[0x01, 0x08, 0x00, 0x00, 0x00, 0x00, 0x00, 0x05];
const HOST_NAME: &[u8] = &[0x01, 0x08, 0x00, 0x00, 0x00, 0x07, b'h', b'i'];
const UNKNOWN_TYPE_20: &[u8] = &[0x01, 0x07, 0x00, 0x00, 0x00, 0x14, 0xff];
const VENDOR_9: &[u8] = &[0x01, 0x07, 0x00, 0x09, 0x00, 0x01, 0xff];
const WINDOW_SIZE: &[u8] = &[0x01, 0x08, 0x00, 0x00, 0x00, 0x0a, 0x00, 0x04];

#[test]
fn unchanged_cases() {
    // valid message
    assert!(decode(&control(&[MESSAGE_TYPE_SCCRQ, HOST_NAME, WINDOW_SIZE])).is_ok());
    // ZLB
    assert!(decode(&control(&[])).is_ok());
    // first AVP is the only problem: exactly as before
    assert_eq!(
        decode(&control(&[HOST_NAME, WINDOW_SIZE])),
        Err(vec![DecodeError::ControlMessageTypeNotFirst])
    );
    assert_eq!(
        decode(&control(&[MESSAGE_TYPE_CODE_5, WINDOW_SIZE])),
        Err(vec![DecodeError::ControlMessageTypeNotFirst])
    );
    assert_eq!(
        decode(&control(&[UNKNOWN_TYPE_20])),
        Err(vec![DecodeError::ControlMessageTypeNotFirst])
    );
    // valid Message Type first: one error per bad record, wire order - as before
    assert_eq!(
        decode(&control(&[MESSAGE_TYPE_SCCRQ, UNKNOWN_TYPE_20, HOST_NAME, VENDOR_9])),
        Err(vec![
            DecodeError::UnknownAvp(20),
            DecodeError::UnsupportedVendorId(9)
        ])
    );
}

#[test]
fn misplaced_message_type_plus_later_bad_records() {
    assert_eq!(
        decode(&control(&[HOST_NAME, UNKNOWN_TYPE_20, WINDOW_SIZE, VENDOR_9])),
        Err(vec![
            DecodeError::ControlMessageTypeNotFirst,
            DecodeError::UnknownAvp(20),
            DecodeError::UnsupportedVendorId(9),
        ])
    );
}

#[test]
fn undecodable_first_record_plus_later_bad_records() {
    assert_eq!(
        decode(&control(&[MESSAGE_TYPE_CODE_5, VENDOR_9, MESSAGE_TYPE_SCCRQ, UNKNOWN_TYPE_20])),
        Err(vec![
            DecodeError::ControlMessageTypeNotFirst,
            DecodeError::UnsupportedVendorId(9),
            DecodeError::UnknownAvp(20),
        ])
    );
}
