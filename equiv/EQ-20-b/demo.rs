// Demo for change `b`: control-message decoding sorts AVP outcomes while it parses (no
// intermediate list of results) and stops at the first record when that record already
// decides the verdict (first AVP is not a Message Type).
//
// A contract-honouring logging reader records every call the decoder makes.  The message
// below starts with a Host Name AVP followed by 30 further AVPs.  Without the change all
// 31 records are decoded before `ControlMessageTypeNotFirst` is reported; with it only the
// first one is touched.  The returned error, and the position of the caller's reader, are
// the same either way, and the public greedy AVP list decoder still decodes everything.

use rl2tp::avp::types::{AssignedTunnelId, HostName, MessageType};
use rl2tp::avp::AVP;
use rl2tp::common::{DecodeError, Reader, SliceReader, VecWriter};
use rl2tp::{ControlMessage, Message};
use std::cell::RefCell;
use std::rc::Rc;

type Log = Rc<RefCell<Vec<String>>>;

struct LogReader {
    data: Rc<Vec<u8>>,
    pos: usize,
    end: usize,
    log: Log,
}

impl LogReader {
    fn new(data: Vec<u8>, log: Log) -> Self {
        let end = data.len();
        Self {
            data: Rc::new(data),
            pos: 0,
            end,
            log,
        }
    }
    fn take(&mut self, n: usize) -> &[u8] {
        assert!(n <= self.end - self.pos, "decoder violated reader contract");
        let s = &self.data[self.pos..self.pos + n];
        self.pos += n;
        s
    }
}

impl Reader<Vec<u8>> for LogReader {
    fn is_empty(&self) -> bool {
        self.pos == self.end
    }
    fn len(&self) -> usize {
        self.end - self.pos
    }
    fn subreader(&mut self, length: usize) -> Self {
        assert!(length <= self.len());
        self.log.borrow_mut().push(format!("sub({length})"));
        let r = Self {
            data: self.data.clone(),
            pos: self.pos,
            end: self.pos + length,
            log: self.log.clone(),
        };
        self.pos += length;
        r
    }
    fn bytes(&mut self, length: usize) -> Option<Vec<u8>> {
        self.log.borrow_mut().push(format!("bytes({length})"));
        if length > self.len() {
            return None;
        }
        Some(self.take(length).to_vec())
    }
    unsafe fn read_u8_unchecked(&mut self) -> u8 {
        self.log.borrow_mut().push("u8".to_owned());
        self.take(1)[0]
    }
    unsafe fn read_u16_be_unchecked(&mut self) -> u16 {
        self.log.borrow_mut().push("u16".to_owned());
        u16::from_be_bytes(self.take(2).try_into().unwrap())
    }
    unsafe fn read_u32_be_unchecked(&mut self) -> u32 {
        self.log.borrow_mut().push("u32".to_owned());
        u32::from_be_bytes(self.take(4).try_into().unwrap())
    }
    unsafe fn read_u64_be_unchecked(&mut self) -> u64 {
        self.log.borrow_mut().push("u64".to_owned());
        u64::from_be_bytes(self.take(8).try_into().unwrap())
    }
    fn skip_bytes(&mut self, length: usize) {
        self.log.borrow_mut().push(format!("skip({length})"));
        self.take(length);
    }
}

fn encode(avps: Vec<AVP>) -> Vec<u8> {
    let msg = ControlMessage {
        length: 0,
        tunnel_id: 1,
        session_id: 2,
        ns: 3,
        nr: 4,
        avps,
    };
    let mut w = VecWriter::new();
    Message::<Vec<u8>>::Control(msg).write(&mut w);
    w.data
}

const TRAILER: [u8; 5] = [0xaa, 0xbb, 0xcc, 0xdd, 0xee];

#[test]
fn verdict_on_first_avp_stops_parsing() {
    let mut avps = vec![AVP::HostName(HostName {
        value: b"lac".to_vec(),
    })];
    for i in 0..30 {
        avps.push(AVP::AssignedTunnelId(AssignedTunnelId { value: i }));
    }
    let mut bytes = encode(avps);
    let body = bytes[12..].to_vec();
    bytes.extend_from_slice(&TRAILER);

    // Reference: the crate's own SliceReader
    let mut sr = SliceReader::from(&bytes[..]);
    let reference = Message::try_read(&mut sr).unwrap_err();
    assert_eq!(reference, vec![DecodeError::ControlMessageTypeNotFirst]);
    assert_eq!(sr.len(), TRAILER.len());

    // Logging reader: same verdict, same position of the caller's reader
    let log: Log = Default::default();
    let mut lr = LogReader::new(bytes.clone(), log.clone());
    let got = Message::<Vec<u8>>::try_read(&mut lr).unwrap_err();
    assert_eq!(got, reference);
    assert_eq!(lr.len(), TRAILER.len());

    // The public AVP list decoder is unaffected: all 31 records are decoded
    let mut body_reader = SliceReader::from(&body[..]);
    let list = AVP::try_read_greedy(&mut body_reader);
    assert_eq!(list.len(), 31);
    assert!(list.iter().all(|x| x.is_ok()));

    // ... but the message decoder touched the first record only: one sub-reader for the
    // message body and one for the first AVP's payload.
    let log = log.borrow();
    println!("{log:?}");
    let subreaders = log.iter().filter(|c| c.starts_with("sub(")).count();
    assert_eq!(
        subreaders, 2,
        "decoder kept parsing behind a first AVP that is not a Message Type: {log:?}"
    );
    assert_eq!(log.iter().filter(|c| c.starts_with("bytes(")).count(), 1);
}

#[test]
fn error_list_and_acceptance_are_unchanged() {
    // Message Type first, then: good, unknown type 20, vendor-specific, good, truncated u16
    let mut bytes = encode(vec![
        AVP::MessageType(MessageType::Hello),
        AVP::AssignedTunnelId(AssignedTunnelId { value: 7 }),
    ]);
    bytes.extend_from_slice(&[0x01, 0x08, 0x00, 0x00, 0x00, 20, 0x00, 0x00]); // unknown AVP 20
    bytes.extend_from_slice(&[0x01, 0x08, 0x00, 0x09, 0x00, 9, 0x00, 0x00]); // vendor 9
    bytes.extend_from_slice(&[0x01, 0x08, 0x00, 0x00, 0x00, 9, 0x00, 0x01]); // good
    bytes.extend_from_slice(&[0x01, 0x07, 0x00, 0x00, 0x00, 9, 0x00]); // Assigned Tunnel Id, 1 octet
    bytes.extend_from_slice(&[0x01, 0x05, 0x00, 0x00, 0x00, 9]); // length field below header size
    bytes.extend_from_slice(&[0x01, 0x08, 0x00, 0x00, 0x00, 20, 0x00, 0x00]); // never reached
    let total = bytes.len() as u16;
    bytes[2..4].copy_from_slice(&total.to_be_bytes());

    let expected = vec![
        DecodeError::UnknownAvp(20),
        DecodeError::UnsupportedVendorId(9),
        DecodeError::IncompleteAVP(9),
        DecodeError::InvalidAVPLength(5),
    ];
    let mut sr = SliceReader::from(&bytes[..]);
    assert_eq!(Message::try_read(&mut sr).unwrap_err(), expected);
    assert!(sr.is_empty());

    let log: Log = Default::default();
    let mut lr = LogReader::new(bytes, log);
    assert_eq!(Message::<Vec<u8>>::try_read(&mut lr).unwrap_err(), expected);
    assert!(lr.is_empty());

    // Accepted message: same value through both readers
    let good = encode(vec![
        AVP::MessageType(MessageType::Hello),
        AVP::AssignedTunnelId(AssignedTunnelId { value: 7 }),
    ]);
    let mut sr = SliceReader::from(&good[..]);
    let a = Message::try_read(&mut sr).unwrap();
    let mut lr = LogReader::new(good.clone(), Default::default());
    let b = Message::<Vec<u8>>::try_read(&mut lr).unwrap();
    match (a, b) {
        (Message::Control(a), Message::Control(b)) => {
            assert_eq!(a, b);
            assert_eq!(a.avps.len(), 2);
            assert_eq!(a.length as usize, good.len());
        }
        _ => panic!("expected control messages"),
    }
}
