#!/bin/bash
# tools/seeded.sh <ID> <a|b>   import a sub-agent's seeded change from /tmp/wt-<ID>/out/<x>, confirm it independently
# in a scratch worktree (suite passes, demo fails with it and passes without it), run all 20 checks against it
# (patch applied to /repo, removed straight afterwards), and record everything in /verif/seeded/<ID>-<x>/meta.json.
set -u
V="$(cd "$(dirname "$0")/.." && pwd)"
ID="$1"; X="$2"
SRC="${SEEDED_SRC:-/tmp/wt-$ID/out/$X}"
NAME="${SEEDED_NAME:-$ID-$X}"
DST="$V/seeded/$NAME"
CHECKS="${SEEDED_CHECKS:-}"
mkdir -p "$DST"
if [ -f "$SRC/patch.diff" ]; then
  cp "$SRC/patch.diff" "$SRC/demo.rs" "$DST/"; cp "$SRC/meta.txt" "$DST/meta.txt" 2>/dev/null
fi
[ -f "$DST/patch.diff" ] || { echo "no patch.diff in $SRC or $DST" >&2; exit 2; }
W="/tmp/verify-$NAME"
git -C /repo worktree remove --force "$W" 2>/dev/null
git -C /repo worktree add -q --detach "$W" HEAD || exit 2
cleanup() { git -C /repo worktree remove --force "$W" 2>/dev/null; rm -rf "$W"; }
trap cleanup EXIT
cd "$W" || exit 2
export CARGO_NET_OFFLINE=true CARGO_TARGET_DIR="/tmp/verify-target"
mkdir -p tests && cp "$DST/demo.rs" tests/demo.rs
base_out=$(cargo test --offline --test demo 2>&1); base_rc=$?
base_demo="exit $base_rc; $(echo "$base_out" | grep -E "^test result" | tail -1)"
git apply "$DST/patch.diff" || { echo "patch does not apply"; exit 2; }
build_warn=$(cargo build --offline 2>&1 | grep -c "^warning")
suite=$(cargo test --offline --lib 2>&1 | grep -E "^test result" | tail -1)
doc=$(cargo test --offline --doc 2>&1 | grep -E "^test result" | tail -1)
mut_out=$(cargo test --offline --test demo 2>&1); mut_rc=$?
mut_demo="exit $mut_rc; $(echo "$mut_out" | grep -E "^test result|process didn.t exit successfully|signal" | tail -1)"
cd "$V"
echo "[$NAME] baseline demo: $base_demo"
echo "[$NAME] with change : suite: $suite | doc: $doc | demo: $mut_demo | build warnings: $build_warn"
ok=1
[ $base_rc -eq 0 ] || ok=0
echo "$suite" | grep -q "ok\. 98 passed" || ok=0
echo "$doc" | grep -q "ok\. 3 passed" || ok=0
[ $mut_rc -ne 0 ] || ok=0
res=$(MUTATE_SKIP_TESTS=1 "$V/tools/mutate.sh" "$DST/patch.diff" $CHECKS 2>&1)
echo "$res" | grep -E "^(CAUGHT|SILENT|OTHER)"
caught=$(echo "$res" | grep '^CAUGHT:' | sed 's/^CAUGHT: *//')
other=$(echo "$res" | grep '^OTHER:' | sed 's/^OTHER: *//')
reasons=$(echo "$res" | grep -E '^  C[0-9]+' | head -8)
python3 - "$DST" "$ID" "$NAME" "$ok" "$base_demo" "$suite" "$doc" "$mut_demo" "$caught" "$other" "$reasons" <<'PY'
import json, sys, os
dst, pid, name, ok, base, suite, doc, mut, caught, other, reasons = sys.argv[1:12]
checks_run = os.environ.get('SEEDED_CHECKS', '') or 'all 20'

meta_txt = open(os.path.join(dst, 'meta.txt')).read() if os.path.exists(os.path.join(dst, 'meta.txt')) else ''
m = {
 "id": name,
 "breaks_property": pid,
 "author": "independent sub-agent given only the property text and a scratch worktree",
 "what_it_needs_to_manifest": meta_txt.strip(),
 "confirmed": ok == '1',
 "what_was_run": {
   "scratch worktree of /repo HEAD, demo copied to tests/demo.rs": {
     "demo without the change": base, "cargo test --lib with the change": suite, "cargo test --doc with the change": doc, "demo with the change": mut},
   f"checks run: {checks_run}; quick tier, regressions skipped (git -C /repo apply patch.diff; ./check <ID> quick; git -C /repo checkout -- .)": {
     "checks reporting VIOLATION": caught.split(), "checks exiting 2": other.split(), "first reasons": reasons.splitlines()},
 },
 "caught_by_owning_property_check": pid in caught.split(),
}
json.dump(m, open(os.path.join(dst, 'meta.json'), 'w'), indent=1)
print(f"[{name}] confirmed={m['confirmed']} owning-check-catches={m['caught_by_owning_property_check']}")
PY
