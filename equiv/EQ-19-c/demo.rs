// Demo for change `c`: the fixed control header after the flag word is now fetched with
// one read_u64_be_unchecked + one read_u16_be_unchecked instead of five
// read_u16_be_unchecked calls. A logging Reader (public trait) makes the call sequence
// visible; decoded values are identical.
use rl2tp::common::{Reader, SliceReader};
use rl2tp::{ControlMessage, Message};
use std::cell::RefCell;
use std::rc::Rc;

struct LogReader<'a> {
    inner: SliceReader<'a>,
    log: Rc<RefCell<Vec<String>>>,
}

impl<'a> LogReader<'a> {
    fn note(&self, what: String) {
        self.log.borrow_mut().push(what);
    }
}

impl<'a> Reader<&'a [u8]> for LogReader<'a> {
    fn is_empty(&self) -> bool {
        self.inner.is_empty()
    }
    fn len(&self) -> usize {
        self.inner.len()
    }
    fn subreader(&mut self, length: usize) -> Self {
        assert!(length <= self.inner.len());
        self.note(format!("sub({length})"));
        LogReader { inner: self.inner.subreader(length), log: self.log.clone() }
    }
    fn bytes(&mut self, length: usize) -> Option<&'a [u8]> {
        self.note(format!("bytes({length})"));
        self.inner.bytes(length)
    }
    unsafe fn read_u8_unchecked(&mut self) -> u8 {
        assert!(self.inner.len() >= 1);
        self.note("u8".into());
        self.inner.read_u8_unchecked()
    }
    unsafe fn read_u16_be_unchecked(&mut self) -> u16 {
        assert!(self.inner.len() >= 2);
        self.note("u16".into());
        self.inner.read_u16_be_unchecked()
    }
    unsafe fn read_u32_be_unchecked(&mut self) -> u32 {
        assert!(self.inner.len() >= 4);
        self.note("u32".into());
        self.inner.read_u32_be_unchecked()
    }
    unsafe fn read_u64_be_unchecked(&mut self) -> u64 {
        assert!(self.inner.len() >= 8);
        self.note("u64".into());
        self.inner.read_u64_be_unchecked()
    }
    fn skip_bytes(&mut self, length: usize) {
        assert!(length <= self.inner.len());
        self.note(format!("skip({length})"));
        self.inner.skip_bytes(length)
    }
}

#[test]
fn control_header_is_read_with_one_u64_and_one_u16() {
    // ZLB with distinctive field values, followed by two octets that must be left over.
    let input = [
        0x13u8, 0x20, 0x00, 0x0c, 0x12, 0x34, 0x56, 0x78, 0x9a, 0xbc, 0xde, 0xf0, 0xaa, 0xbb,
    ];
    let log = Rc::new(RefCell::new(Vec::new()));
    let mut r = LogReader { inner: SliceReader::from(&input), log: log.clone() };
    let m = Message::try_read(&mut r);
    assert_eq!(
        m,
        Ok(Message::Control(ControlMessage {
            length: 12,
            tunnel_id: 0x1234,
            session_id: 0x5678,
            ns: 0x9abc,
            nr: 0xdef0,
            avps: vec![],
        }))
    );
    assert_eq!(r.len(), 2);
    // flags, then u64 (length, tunnel, session, ns), then nr, then the AVP sub-reader
    assert_eq!(*log.borrow(), vec!["u16", "u64", "u16", "sub(0)"]);
}

#[test]
fn exactly_ten_octets_after_flags_is_enough() {
    // Header only, length field below 12: all ten octets are consumed, as before.
    let input = [0x13u8, 0x20, 0x00, 0x0b, 0, 1, 0, 2, 0, 3, 0, 4];
    let log = Rc::new(RefCell::new(Vec::new()));
    let mut r = LogReader { inner: SliceReader::from(&input), log: log.clone() };
    let m = Message::try_read(&mut r);
    assert_eq!(m, Err(vec![rl2tp::common::DecodeError::IncompleteControlMessageHeader]));
    assert_eq!(r.len(), 0);
    assert_eq!(*log.borrow(), vec!["u16", "u64", "u16"]);
}
