use crate::prop::PropDef;

pub mod c01;
pub mod c02;
pub mod c05;

pub fn all() -> Vec<&'static PropDef> {
    vec![&c01::DEF, &c02::DEF, &c05::DEF]
}
