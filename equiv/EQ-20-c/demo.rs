// Demo for change `c`: hide/reveal feed the MD5 inputs piecewise into a digest context
// (the secret prefix is digested once per call and that state is copied per chunk), XOR
// whole 16-octet chunks through u128, and no longer build a scratch buffer of
// `secret + chunk` on the heap.
//
// The hidden octets are byte-for-byte what they were (checked against a known answer that
// was also computed independently from RFC 2661 s4.3), so the only public trace of the
// change is the allocation pattern: revealing an AVP whose decoded form owns no heap data
// now performs no heap allocation at all, whereas the scratch buffer used to cost at
// least one allocation per call.

use rl2tp::avp::types::{AssignedTunnelId, Hidden, HostName, RandomVector};
use rl2tp::avp::AVP;
use rl2tp::common::{SliceReader, VecWriter};
use std::alloc::{GlobalAlloc, Layout, System};
use std::cell::Cell;

// Counts allocations made by the current thread only, so the test harness's other threads
// cannot disturb the measurement.
struct Counting;

thread_local! {
    static ALLOCATIONS: Cell<usize> = const { Cell::new(0) };
}

fn bump() {
    let _ = ALLOCATIONS.try_with(|c| c.set(c.get() + 1));
}

unsafe impl GlobalAlloc for Counting {
    unsafe fn alloc(&self, layout: Layout) -> *mut u8 {
        bump();
        System.alloc(layout)
    }
    unsafe fn alloc_zeroed(&self, layout: Layout) -> *mut u8 {
        bump();
        System.alloc_zeroed(layout)
    }
    unsafe fn realloc(&self, ptr: *mut u8, layout: Layout, new_size: usize) -> *mut u8 {
        bump();
        System.realloc(ptr, layout, new_size)
    }
    unsafe fn dealloc(&self, ptr: *mut u8, layout: Layout) {
        System.dealloc(ptr, layout)
    }
}

#[global_allocator]
static GLOBAL: Counting = Counting;

fn allocations_during<R>(f: impl FnOnce() -> R) -> (usize, R) {
    let before = ALLOCATIONS.with(|c| c.get());
    let r = f();
    let after = ALLOCATIONS.with(|c| c.get());
    (after - before, r)
}

const SECRET: &[u8] = b"shared secret";
const RV: RandomVector = RandomVector {
    value: [1, 2, 3, 4],
};

// hide(HostName(0..40), "shared secret", RV 01020304, length padding 09 08 07,
// alignment padding a0..af): produced by the unchanged crate and, independently, by a
// direct implementation of RFC 2661 s4.3.
const KNOWN_ANSWER: [u8; 48] = [
    197, 111, 65, 94, 191, 223, 145, 174, 184, 25, 36, 185, 98, 82, 191, 251, 204, 175, 51, 10,
    102, 51, 63, 241, 4, 77, 52, 97, 9, 93, 20, 75, 133, 246, 123, 194, 127, 238, 116, 3, 161,
    162, 53, 143, 135, 39, 230, 236,
];

fn alignment_padding() -> [u8; 16] {
    core::array::from_fn(|i| 0xa0 + i as u8)
}

#[test]
fn hidden_octets_are_unchanged() {
    let original = AVP::HostName(HostName {
        value: (0u8..40).collect(),
    });
    let hidden = original
        .clone()
        .hide(SECRET, &RV, &[9, 8, 7], &alignment_padding());
    assert_eq!(
        hidden,
        AVP::Hidden(Hidden {
            attribute_type: 7,
            value: KNOWN_ANSWER.to_vec(),
        })
    );

    // Reveal directly and after a trip over the wire
    assert_eq!(hidden.clone().reveal(SECRET, &RV), Ok(original.clone()));
    let mut w = VecWriter::new();
    hidden.write(&mut w);
    assert_eq!(w.data[0] & 0x03, 0x03); // mandatory and hidden bits
    let mut r = SliceReader::from(&w.data[..]);
    let mut decoded = AVP::try_read_greedy(&mut r);
    assert_eq!(decoded.len(), 1);
    let decoded = decoded.pop().unwrap().unwrap();
    assert_eq!(decoded, hidden);
    assert_eq!(decoded.reveal(SECRET, &RV), Ok(original));
}

#[test]
fn reveal_needs_no_scratch_allocation() {
    // Three chunks, so both the chained and the first-chunk digests are exercised
    let original = AVP::AssignedTunnelId(AssignedTunnelId { value: 0xbeef });
    let hidden = original
        .clone()
        .hide(SECRET, &RV, &[0x55; 30], &alignment_padding());
    match &hidden {
        AVP::Hidden(h) => assert_eq!(h.value.len(), 48),
        _ => panic!("expected hidden AVP"),
    }

    let (count, revealed) = allocations_during(move || hidden.reveal(SECRET, &RV));
    assert_eq!(revealed, Ok(original));
    assert_eq!(
        count, 0,
        "reveal of a heap-free AVP still allocates a scratch buffer"
    );

    // Error paths do not allocate either
    let misaligned = AVP::Hidden(Hidden {
        attribute_type: 9,
        value: vec![0; 17],
    });
    let (count, result) = allocations_during(move || misaligned.reveal(SECRET, &RV));
    assert!(result.is_err());
    assert_eq!(count, 0);

    let garbage = AVP::Hidden(Hidden {
        attribute_type: 9,
        value: vec![0xff; 32],
    });
    let (count, result) = allocations_during(move || garbage.reveal(b"other secret", &RV));
    assert!(result.is_err());
    assert_eq!(count, 0, "failed reveal still allocates a scratch buffer");
}

#[test]
fn hide_allocates_less_than_before() {
    // Payload serialisation (2-octet type + 2-octet value -> Vec growth) and the output
    // value are the only heap users left: the padded input is sized in one step and no
    // digest scratch buffer exists.  Before the change the same call needed the scratch
    // buffer (allocation plus a growth for `secret + chunk`) on top of several growths of
    // the input.
    let secret = [0x42u8; 64];
    let original = AVP::AssignedTunnelId(AssignedTunnelId { value: 1 });
    let (count, hidden) =
        allocations_during(move || original.hide(&secret, &RV, &[0x11; 100], &[0; 16]));
    match hidden {
        AVP::Hidden(h) => assert_eq!(h.value.len(), 112),
        _ => panic!("expected hidden AVP"),
    }
    println!("hide allocations: {count}");
    assert!(count <= 3, "hide performed {count} allocations");
}
