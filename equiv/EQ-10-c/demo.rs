// Demo for change `c`: hide() and reveal() feed the shared secret to MD5
// piecewise (one hash state that has absorbed the secret, cloned per block)
// instead of first copying it into a scratch buffer of
// 2 + |secret| + |random vector| octets.
//
// Observable through the allocation pattern: with a very long secret the
// original asks the allocator for one block at least as large as the secret in
// each of hide() and reveal(); with the change neither call ever requests a
// block anywhere near that size. The hidden value itself is unchanged, which is
// checked against the RFC 2661 s4.3 construction computed here with one-shot MD5
// over explicit concatenations.

use rl2tp::avp::types::{Hidden, HostName, RandomVector};
use rl2tp::avp::AVP;
use std::alloc::{GlobalAlloc, Layout, System};
use std::sync::atomic::{AtomicBool, AtomicUsize, Ordering};

struct Watching;

static WATCHING: AtomicBool = AtomicBool::new(false);
static LARGEST_REQUEST: AtomicUsize = AtomicUsize::new(0);

fn note(size: usize) {
    if WATCHING.load(Ordering::SeqCst) {
        LARGEST_REQUEST.fetch_max(size, Ordering::SeqCst);
    }
}

unsafe impl GlobalAlloc for Watching {
    unsafe fn alloc(&self, layout: Layout) -> *mut u8 {
        note(layout.size());
        System.alloc(layout)
    }
    unsafe fn alloc_zeroed(&self, layout: Layout) -> *mut u8 {
        note(layout.size());
        System.alloc_zeroed(layout)
    }
    unsafe fn realloc(&self, ptr: *mut u8, layout: Layout, new_size: usize) -> *mut u8 {
        note(new_size);
        System.realloc(ptr, layout, new_size)
    }
    unsafe fn dealloc(&self, ptr: *mut u8, layout: Layout) {
        System.dealloc(ptr, layout)
    }
}

#[global_allocator]
static ALLOCATOR: Watching = Watching;

fn watch<R>(f: impl FnOnce() -> R) -> (R, usize) {
    LARGEST_REQUEST.store(0, Ordering::SeqCst);
    WATCHING.store(true, Ordering::SeqCst);
    let result = f();
    WATCHING.store(false, Ordering::SeqCst);
    (result, LARGEST_REQUEST.load(Ordering::SeqCst))
}

/// RFC 2661 section 4.3, written out with one-shot MD5 over concatenations.
fn reference_hide(
    attribute_type: u16,
    payload: &[u8],
    secret: &[u8],
    rv: &[u8],
    length_padding: &[u8],
    alignment_padding: &[u8; 16],
) -> Vec<u8> {
    let mut plain = ((6 + payload.len()) as u16).to_be_bytes().to_vec();
    plain.extend_from_slice(payload);
    plain.extend_from_slice(length_padding);
    let missing = (16 - plain.len() % 16) % 16;
    plain.extend_from_slice(&alignment_padding[..missing]);

    let mut key_input = attribute_type.to_be_bytes().to_vec();
    key_input.extend_from_slice(secret);
    key_input.extend_from_slice(rv);
    let mut key = md5::compute(&key_input).0;

    let mut cipher = Vec::new();
    for block in plain.chunks(16) {
        let encrypted: Vec<u8> = block.iter().zip(key.iter()).map(|(p, k)| p ^ k).collect();
        let mut next_input = secret.to_vec();
        next_input.extend_from_slice(&encrypted);
        key = md5::compute(&next_input).0;
        cipher.extend_from_slice(&encrypted);
    }
    cipher
}

#[test]
fn a_long_secret_is_not_copied_into_a_scratch_buffer() {
    const SECRET_LENGTH: usize = 8 * 1024 * 1024;
    let secret: Vec<u8> = (0..SECRET_LENGTH).map(|i| (i * 31 + 7) as u8).collect();
    let rv = RandomVector {
        value: [0xde, 0xad, 0xbe, 0xef],
    };
    let payload: Vec<u8> = (0..100u8).collect();
    let length_padding = [0x55u8; 21];
    let alignment_padding = [0xaau8; 16];

    let expected = reference_hide(
        7,
        &payload,
        &secret,
        &rv.value,
        &length_padding,
        &alignment_padding,
    );
    assert_eq!(expected.len(), 128);

    let avp = AVP::HostName(HostName {
        value: payload.clone(),
    });

    let (hidden, largest_in_hide) = watch(|| {
        avp.clone()
            .hide(&secret, &rv, &length_padding, &alignment_padding)
    });
    assert_eq!(
        hidden,
        AVP::Hidden(Hidden {
            attribute_type: 7,
            value: expected
        })
    );

    let (revealed, largest_in_reveal) = watch(|| hidden.reveal(&secret, &rv));
    assert_eq!(revealed, Ok(avp));

    // Everything hide() and reveal() need besides the secret is tiny
    assert!(
        largest_in_hide < SECRET_LENGTH / 1024,
        "hide() requested a block of {largest_in_hide} octets"
    );
    assert!(
        largest_in_reveal < SECRET_LENGTH / 1024,
        "reveal() requested a block of {largest_in_reveal} octets"
    );
}
