// Demo for change `b`: AVP::write now computes the AVP length up front and
// writes the real flags/length octets immediately, so it issues NO positional
// overwrite (write_bytes_at) for an AVP and writes the first four header octets
// with a single write_bytes call.  The emitted octets are identical.
use rl2tp::avp::{types, AVP};
use rl2tp::common::{VecWriter, Writer};
use rl2tp::{ControlMessage, Message};

#[derive(Debug, Clone, PartialEq, Eq)]
enum Call {
    Bytes(Vec<u8>),
    BytesAt(Vec<u8>, usize),
    U8(u8),
    U16(u16),
    U32(u32),
    U64(u64),
}

#[derive(Default)]
struct TraceWriter {
    inner: VecWriter,
    calls: Vec<Call>,
}

impl Writer for TraceWriter {
    fn is_empty(&self) -> bool {
        self.inner.is_empty()
    }
    fn len(&self) -> usize {
        self.inner.len()
    }
    fn write_bytes(&mut self, bytes: &[u8]) {
        self.calls.push(Call::Bytes(bytes.to_vec()));
        self.inner.write_bytes(bytes)
    }
    fn write_bytes_at(&mut self, bytes: &[u8], offset: usize) {
        self.calls.push(Call::BytesAt(bytes.to_vec(), offset));
        self.inner.write_bytes_at(bytes, offset)
    }
    fn write_u8(&mut self, value: u8) {
        self.calls.push(Call::U8(value));
        self.inner.write_u8(value)
    }
    fn write_u16_be(&mut self, value: u16) {
        self.calls.push(Call::U16(value));
        self.inner.write_u16_be(value)
    }
    fn write_u32_be(&mut self, value: u32) {
        self.calls.push(Call::U32(value));
        self.inner.write_u32_be(value)
    }
    fn write_u64_be(&mut self, value: u64) {
        self.calls.push(Call::U64(value));
        self.inner.write_u64_be(value)
    }
}

#[test]
fn avp_header_is_written_once_without_overwrite() {
    let avp = AVP::HostName(b"lac".to_vec().into());

    let mut w = TraceWriter::default();
    w.write_bytes(b"xy"); // existing content
    w.calls.clear();
    avp.write(&mut w);

    // Octets: unchanged wire format
    assert_eq!(
        w.inner.data,
        vec![b'x', b'y', 0x01, 0x09, 0x00, 0x00, 0x00, 0x07, b'l', b'a', b'c']
    );

    // Call sequence: header in one go, no overwrite
    assert_eq!(
        w.calls,
        vec![
            Call::Bytes(vec![0x01, 0x09, 0x00, 0x00]),
            Call::U16(7),
            Call::Bytes(b"lac".to_vec()),
        ]
    );

    // A control message still patches its own Length field, but that is the
    // only overwrite left, and it lies inside the message.
    let msg = Message::<Vec<u8>>::Control(ControlMessage {
        length: 0,
        tunnel_id: 1,
        session_id: 2,
        ns: 3,
        nr: 4,
        avps: vec![
            AVP::MessageType(types::MessageType::Hello),
            AVP::Hidden(types::Hidden {
                attribute_type: 9,
                value: vec![0xab; 16],
            }),
        ],
    });
    let mut w = TraceWriter::default();
    w.write_bytes(b"xy");
    w.calls.clear();
    msg.write(&mut w);
    let overwrites: Vec<_> = w
        .calls
        .iter()
        .filter(|c| matches!(c, Call::BytesAt(..)))
        .cloned()
        .collect();
    assert_eq!(overwrites, vec![Call::BytesAt(vec![0x00, 0x2a], 4)]);

    let mut plain = VecWriter::new();
    plain.write_bytes(b"xy");
    msg.write(&mut plain);
    assert_eq!(plain.data, w.inner.data);
    assert_eq!(&plain.data[2..6], &[0x13, 0x20, 0x00, 0x2a]);
    assert_eq!(&plain.data[14..22], &[0x01, 0x08, 0, 0, 0, 0, 0, 6]);
    assert_eq!(&plain.data[22..28], &[0x03, 0x16, 0, 0, 0, 9]);
}
