// Demo for change `a`: with BOTH version and reserved validation enabled, a header that has
// a wrong version nibble AND a reserved bit set is now reported as InvalidReservedBits
// (before the change: InvalidVersion). Single-fault headers are unchanged.
use rl2tp::common::{DecodeError, SliceReader};
use rl2tp::{Message, ValidateReserved, ValidateUnused, ValidateVersion, ValidationOptions};

fn opts(reserved: bool, version: bool) -> ValidationOptions {
    ValidationOptions {
        reserved: if reserved { ValidateReserved::Yes } else { ValidateReserved::No },
        version: if version { ValidateVersion::Yes } else { ValidateVersion::No },
        unused: ValidateUnused::Yes,
    }
}

fn decode(input: &[u8], o: ValidationOptions) -> Result<Message<&[u8]>, Vec<DecodeError>> {
    Message::try_read_validate(&mut SliceReader::from(input), o)
}

#[test]
fn two_header_faults_report_reserved_bits() {
    // Data message, version nibble 3, reserved bit 0 set.
    let data = [0x00u8, 0x31, 0x00, 0x01, 0x00, 0x02, 0xff];
    assert_eq!(
        decode(&data, opts(true, true)),
        Err(vec![DecodeError::InvalidReservedBits])
    );
    // Control message, version nibble 0, reserved bit 13 set.
    let ctrl = [0x33u8, 0x00, 0x00, 0x0c, 0, 1, 0, 2, 0, 3, 0, 4];
    assert_eq!(
        decode(&ctrl, opts(true, true)),
        Err(vec![DecodeError::InvalidReservedBits])
    );
}

#[test]
fn single_faults_and_weaker_options_unchanged() {
    let data = [0x00u8, 0x31, 0x00, 0x01, 0x00, 0x02, 0xff];
    // only the version check enabled -> version error with the nibble
    assert_eq!(decode(&data, opts(false, true)), Err(vec![DecodeError::InvalidVersion(3)]));
    // only the reserved check enabled
    assert_eq!(decode(&data, opts(true, false)), Err(vec![DecodeError::InvalidReservedBits]));
    // neither -> accepted
    assert!(decode(&data, opts(false, false)).is_ok());
    // single version fault under the strictest options
    let v = [0x00u8, 0x30, 0x00, 0x01, 0x00, 0x02, 0xff];
    assert_eq!(decode(&v, opts(true, true)), Err(vec![DecodeError::InvalidVersion(3)]));
    // single reserved fault under the strictest options
    let r = [0x00u8, 0x21, 0x00, 0x01, 0x00, 0x02, 0xff];
    assert_eq!(decode(&r, opts(true, true)), Err(vec![DecodeError::InvalidReservedBits]));
}
