// Demo for change `d`: DecodeError gains Clone / Eq / Hash, an attribute_type()
// accessor and a trailing variant that the decoder never produces; the AVP name
// lookup is table-driven and borrows static names instead of allocating; AVP
// gains attribute_type() and name_of().
use rl2tp::avp::types::RandomVector;
use rl2tp::avp::AVP;
use rl2tp::common::{DecodeError, SliceReader, VecWriter};
use std::alloc::{GlobalAlloc, Layout, System};
use std::borrow::Cow;
use std::cell::Cell;
use std::collections::HashSet;

struct Counting;

thread_local! {
    static ALLOCS: Cell<usize> = const { Cell::new(0) };
}

unsafe impl GlobalAlloc for Counting {
    unsafe fn alloc(&self, layout: Layout) -> *mut u8 {
        let _ = ALLOCS.try_with(|c| c.set(c.get() + 1));
        System.alloc(layout)
    }
    unsafe fn dealloc(&self, ptr: *mut u8, layout: Layout) {
        System.dealloc(ptr, layout)
    }
    unsafe fn realloc(&self, ptr: *mut u8, layout: Layout, new_size: usize) -> *mut u8 {
        System.realloc(ptr, layout, new_size)
    }
}

#[global_allocator]
static GLOBAL: Counting = Counting;

fn fresh_allocations<R>(f: impl FnOnce() -> R) -> (usize, R) {
    let before = ALLOCS.with(|c| c.get());
    let r = f();
    let after = ALLOCS.with(|c| c.get());
    (after - before, r)
}

fn record(attribute_type: u16, payload: &[u8]) -> Vec<u8> {
    let len = 6 + payload.len();
    let mut v = vec![(((len >> 8) as u8) << 6) | 1, len as u8, 0, 0];
    v.extend_from_slice(&attribute_type.to_be_bytes());
    v.extend_from_slice(payload);
    v
}

fn decode_one(input: &[u8]) -> Result<AVP, DecodeError> {
    let mut r = SliceReader::from(input);
    let mut v = AVP::try_read_greedy(&mut r);
    assert_eq!(v.len(), 1);
    v.pop().unwrap()
}

/// Some AVP that the decoder dispatches attribute type `t` to, if `t` is assigned.
fn sample(t: u16) -> Option<AVP> {
    let pattern: Vec<u8> = [0u8, 1].iter().copied().cycle().take(32).collect();
    (0..=32).find_map(|n| decode_one(&record(t, &pattern[..n])).ok())
}

#[test]
fn names_follow_decode_dispatch_for_every_u16() {
    for t in 0..=u16::MAX {
        let name = AVP::name_of(t);
        match sample(t) {
            Some(avp) => {
                assert!(t <= 39 && t != 20);
                let debug = format!("{avp:?}");
                let variant = debug.split('(').next().unwrap();
                assert_eq!(name, variant, "attribute type {t}");
                assert!(matches!(name, Cow::Borrowed(_)));
                assert_eq!(avp.attribute_type(), t);
                let mut w = VecWriter::new();
                avp.write(&mut w);
                assert_eq!(&w.data[4..6], &t.to_be_bytes());
            }
            None => {
                assert!(t > 39 || t == 20);
                assert_eq!(name, t.to_string());
                assert_eq!(
                    decode_one(&record(t, &[])),
                    Err(DecodeError::UnknownAvp(t))
                );
            }
        }
        assert_eq!(
            DecodeError::IncompleteAVP(t).to_string(),
            format!("Incomplete AVP ({name})")
        );
        assert_eq!(
            DecodeError::InvalidUtf8(t).to_string(),
            format!("AVP ({name}) with invalid UTF-8 string payload")
        );
        assert_eq!(
            DecodeError::AVPReadError(t).to_string(),
            format!("Read error when parsing AVP ({name})")
        );
        assert_eq!(
            DecodeError::UnknownAvp(t).to_string(),
            format!("AVP with unknown type ({t})")
        );
        let never = DecodeError::UnknownProxyAuthenType(t).to_string();
        assert_eq!(
            never,
            format!("ProxyAuthenType AVP with unknown authentication type ({t})")
        );
    }
}

#[test]
fn hidden_avp_reports_the_concealed_attribute_type() {
    let rv = RandomVector {
        value: [1, 2, 3, 4],
    };
    for t in (0..=39u16).filter(|t| *t != 20) {
        let avp = sample(t).unwrap();
        let hidden = avp.clone().hide(b"secret", &rv, &[9, 9, 9], &[7; 16]);
        assert!(matches!(hidden, AVP::Hidden(_)));
        assert_eq!(hidden.attribute_type(), t);
        let mut w = VecWriter::new();
        hidden.write(&mut w);
        assert_eq!(&w.data[4..6], &t.to_be_bytes());
        assert_eq!(hidden.reveal(b"secret", &rv), Ok(avp));
    }
}

#[test]
fn decode_error_is_clone_eq_hash_and_exposes_attribute_type() {
    let e = DecodeError::InvalidUtf8(7);
    let c = e.clone();
    assert_eq!(e, c);
    let set: HashSet<DecodeError> = [e, c, DecodeError::InvalidVersion(3)].into_iter().collect();
    assert_eq!(set.len(), 2);

    assert_eq!(DecodeError::IncompleteAVP(3).attribute_type(), Some(3));
    assert_eq!(DecodeError::InvalidUtf8(7).attribute_type(), Some(7));
    assert_eq!(DecodeError::AVPReadError(1).attribute_type(), Some(1));
    assert_eq!(DecodeError::UnknownAvp(20).attribute_type(), Some(20));
    assert_eq!(DecodeError::UnknownMessageType(5).attribute_type(), None);
    assert_eq!(DecodeError::UnknownProxyAuthenType(9).attribute_type(), None);
    assert_eq!(DecodeError::ControlMessageTypeNotFirst.attribute_type(), None);

    // The decoder keeps reporting a bad proxy authen type the way it always did.
    assert_eq!(
        decode_one(&record(29, &[0, 6])),
        Err(DecodeError::IncompleteAVP(29))
    );
}

#[test]
fn rendering_an_assigned_name_allocates_only_the_output_string() {
    let e = DecodeError::IncompleteAVP(3);
    let (n, text) = fresh_allocations(|| e.to_string());
    assert_eq!(text, "Incomplete AVP (FramingCapabilities)");
    // One allocation for the String being built (it may grow through realloc);
    // before the change the name was copied into a String of its own first.
    assert_eq!(n, 1);

    let (n, name) = fresh_allocations(|| AVP::name_of(38));
    assert_eq!(name, "RxConnectSpeed");
    assert_eq!(n, 0);
}
