// Demo for change `b`: a control header that lacks the mandatory L bit AND has the
// priority / offset bit set is, under ValidateUnused::Yes, now reported as
// ControlMessageWithoutLength (before the change: ForbiddenControlMessagePriority /
// ForbiddenControlMessageOffset). A missing S bit is still reported after the unused bits
// (the crate's own test suite pins that), and headers with one fault only are reported
// exactly as before.
use rl2tp::common::{DecodeError, SliceReader};
use rl2tp::{Message, ValidateReserved, ValidateUnused, ValidateVersion, ValidationOptions};

fn decode(input: &[u8], unused: bool) -> Result<Message<&[u8]>, Vec<DecodeError>> {
    Message::try_read_validate(
        &mut SliceReader::from(input),
        ValidationOptions {
            reserved: ValidateReserved::Yes,
            version: ValidateVersion::Yes,
            unused: if unused { ValidateUnused::Yes } else { ValidateUnused::No },
        },
    )
}

fn zlb(flag_hi: u8) -> [u8; 12] {
    [flag_hi, 0x20, 0x00, 0x0c, 0, 1, 0, 2, 0, 3, 0, 4]
}

#[test]
fn missing_l_wins_over_unused_bits() {
    // T=1, P=1, S=1, L=0
    assert_eq!(decode(&zlb(0x91), true), Err(vec![DecodeError::ControlMessageWithoutLength]));
    // T=1, O=1, S=1, L=0
    assert_eq!(decode(&zlb(0x51), true), Err(vec![DecodeError::ControlMessageWithoutLength]));
    // T=1, P=1, O=1, L=0, S=0
    assert_eq!(decode(&zlb(0xc1), true), Err(vec![DecodeError::ControlMessageWithoutLength]));
}

#[test]
fn missing_s_still_after_unused_bits() {
    // T=1, P=1, L=1, S=0
    assert_eq!(decode(&zlb(0x83), true), Err(vec![DecodeError::ForbiddenControlMessagePriority]));
    // T=1, O=1, L=1, S=0
    assert_eq!(decode(&zlb(0x43), true), Err(vec![DecodeError::ForbiddenControlMessageOffset]));
}

#[test]
fn single_faults_unchanged() {
    // well-formed ZLB
    assert!(decode(&zlb(0x13), true).is_ok());
    // only P set
    assert_eq!(decode(&zlb(0x93), true), Err(vec![DecodeError::ForbiddenControlMessagePriority]));
    assert!(decode(&zlb(0x93), false).is_ok());
    // only O set
    assert_eq!(decode(&zlb(0x53), true), Err(vec![DecodeError::ForbiddenControlMessageOffset]));
    assert!(decode(&zlb(0x53), false).is_ok());
    // P and O set: priority still reported first
    assert_eq!(decode(&zlb(0xd3), true), Err(vec![DecodeError::ForbiddenControlMessagePriority]));
    // only L missing / only S missing, under both settings
    for u in [true, false] {
        assert_eq!(decode(&zlb(0x11), u), Err(vec![DecodeError::ControlMessageWithoutLength]));
        assert_eq!(decode(&zlb(0x03), u), Err(vec![DecodeError::ControlMessageWithoutNsNr]));
        // with the unused check off the two-fault headers were reported like this already
    }
    assert_eq!(decode(&zlb(0x91), false), Err(vec![DecodeError::ControlMessageWithoutLength]));
}
