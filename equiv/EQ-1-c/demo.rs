// Demo for change `c`: the Length field of a message is validated as soon as it has been read.
//
// Observable consequences, none of which is pinned down by the properties:
//  * a data message with TWO faults (length field smaller than the fixed header AND an offset
//    size that runs past the input) reports IncompleteDataMessageHeader instead of InvalidOffset;
//  * after a REJECTED control/data message with a bad length field the caller's reader has been
//    advanced less (the remaining header fields are no longer consumed), i.e. the sequence of
//    Reader calls on the rejection path is shorter.
// Results for accepted inputs, for single-fault inputs, and the reader position after an accepted
// message are unchanged.

use rl2tp::common::{DecodeError, Reader, SliceReader};
use rl2tp::{Message, ValidateReserved, ValidateUnused, ValidateVersion, ValidationOptions};
use std::cell::RefCell;
use std::rc::Rc;

fn strict() -> ValidationOptions {
    ValidationOptions {
        reserved: ValidateReserved::Yes,
        version: ValidateVersion::Yes,
        unused: ValidateUnused::Yes,
    }
}

/// Decode with a SliceReader, return the result and the number of octets left in the reader.
/// (An accepted message is returned as its Debug rendering so that nothing borrows the input.)
fn decode(bytes: &[u8]) -> (Result<String, Vec<DecodeError>>, usize) {
    let mut r = SliceReader::from(bytes);
    let res: Result<Message<&[u8]>, _> = Message::try_read_validate(&mut r, strict());
    (res.map(|m| format!("{m:?}")), r.len())
}

/// A conforming reader that records every consuming call made on it.
struct LogReader<'a> {
    inner: SliceReader<'a>,
    log: Rc<RefCell<Vec<String>>>,
}

impl<'a> Reader<&'a [u8]> for LogReader<'a> {
    fn is_empty(&self) -> bool {
        self.inner.is_empty()
    }
    fn len(&self) -> usize {
        self.inner.len()
    }
    fn subreader(&mut self, length: usize) -> Self {
        assert!(length <= self.inner.len());
        self.log.borrow_mut().push(format!("sub{length}"));
        LogReader {
            inner: self.inner.subreader(length),
            log: self.log.clone(),
        }
    }
    fn bytes(&mut self, length: usize) -> Option<&'a [u8]> {
        self.log.borrow_mut().push(format!("bytes{length}"));
        self.inner.bytes(length)
    }
    unsafe fn read_u8_unchecked(&mut self) -> u8 {
        assert!(self.inner.len() >= 1);
        self.log.borrow_mut().push("u8".into());
        self.inner.read_u8_unchecked()
    }
    unsafe fn read_u16_be_unchecked(&mut self) -> u16 {
        assert!(self.inner.len() >= 2);
        self.log.borrow_mut().push("u16".into());
        self.inner.read_u16_be_unchecked()
    }
    unsafe fn read_u32_be_unchecked(&mut self) -> u32 {
        assert!(self.inner.len() >= 4);
        self.log.borrow_mut().push("u32".into());
        self.inner.read_u32_be_unchecked()
    }
    unsafe fn read_u64_be_unchecked(&mut self) -> u64 {
        assert!(self.inner.len() >= 8);
        self.log.borrow_mut().push("u64".into());
        self.inner.read_u64_be_unchecked()
    }
    fn skip_bytes(&mut self, length: usize) {
        assert!(length <= self.inner.len());
        self.log.borrow_mut().push(format!("skip{length}"));
        self.inner.skip_bytes(length)
    }
}

fn calls(bytes: &[u8]) -> (Result<String, Vec<DecodeError>>, Vec<String>) {
    let log = Rc::new(RefCell::new(Vec::new()));
    let mut r = LogReader {
        inner: SliceReader::from(bytes),
        log: log.clone(),
    };
    let res: Result<Message<&[u8]>, _> = Message::try_read_validate(&mut r, strict());
    let l = log.borrow().clone();
    (res.map(|m| format!("{m:?}")), l)
}

// data message, L and O bits: flags, length, tunnel, session, offset size, payload
fn data_l_o(length: u16, offset_size: u16) -> Vec<u8> {
    let mut v = vec![0x42, 0x20];
    v.extend_from_slice(&length.to_be_bytes());
    v.extend_from_slice(&[0x00, 0x01, 0x00, 0x02]);
    v.extend_from_slice(&offset_size.to_be_bytes());
    v.push(0xaa);
    v
}

// control message header only (12 octets) with the given length field
fn control_header(length: u16) -> Vec<u8> {
    let mut v = vec![0x13, 0x20];
    v.extend_from_slice(&length.to_be_bytes());
    v.extend_from_slice(&[0x00, 0x01, 0x00, 0x02, 0x00, 0x03, 0x00, 0x04]);
    v
}

#[test]
fn unchanged_results() {
    // accepted inputs: same value, reader left right after the declared length
    let mut zlb = control_header(12);
    zlb.extend_from_slice(&[0xde, 0xad]); // trailing octets beyond the declared length
    let (res, left) = decode(&zlb);
    assert!(res.is_ok());
    assert_eq!(left, 2);
    let mut d = data_l_o(11, 0);
    d.push(0xff); // beyond declared length
    let (res, left) = decode(&d);
    assert!(res.is_ok());
    assert_eq!(left, 1);

    // single faults: same error as always
    assert_eq!(decode(&data_l_o(11, 100)).0, Err(vec![DecodeError::InvalidOffset(100)]));
    assert_eq!(decode(&data_l_o(3, 0)).0, Err(vec![DecodeError::IncompleteDataMessageHeader]));
    assert_eq!(decode(&data_l_o(10, 1)).0, Err(vec![DecodeError::IncompleteDataMessageHeader]));
    assert_eq!(decode(&data_l_o(12, 0)).0, Err(vec![DecodeError::IncompleteDataMessagePayload]));
    assert_eq!(decode(&control_header(11)).0, Err(vec![DecodeError::IncompleteControlMessageHeader]));
    assert_eq!(decode(&control_header(13)).0, Err(vec![DecodeError::IncompleteControlMessagePayload]));
}

#[test]
fn data_short_length_and_overlong_offset_reports_incomplete_header() {
    // length field 3 (< 10 octets of fixed header) AND offset size 100 (> 1 octet left)
    assert_eq!(
        decode(&data_l_o(3, 100)).0,
        Err(vec![DecodeError::IncompleteDataMessageHeader])
    );
}

#[test]
fn rejected_control_message_leaves_rest_of_header_unread() {
    // length field below the fixed header size
    let (res, left) = decode(&control_header(11));
    assert_eq!(res, Err(vec![DecodeError::IncompleteControlMessageHeader]));
    assert_eq!(left, 8);
    // length field beyond the input
    let (res, left) = decode(&control_header(13));
    assert_eq!(res, Err(vec![DecodeError::IncompleteControlMessagePayload]));
    assert_eq!(left, 8);
    // Reader call sequence on that path: flags, length - and nothing else
    let (res, log) = calls(&control_header(11));
    assert_eq!(res, Err(vec![DecodeError::IncompleteControlMessageHeader]));
    assert_eq!(log, vec!["u16", "u16"]);
}

#[test]
fn rejected_data_message_leaves_rest_of_header_unread() {
    let (res, left) = decode(&data_l_o(3, 0));
    assert_eq!(res, Err(vec![DecodeError::IncompleteDataMessageHeader]));
    // flags + length consumed; tunnel, session, offset size and payload (7 octets) untouched
    assert_eq!(left, 7);
    let (_, log) = calls(&data_l_o(3, 0));
    assert_eq!(log, vec!["u16", "u16"]);
}

#[test]
fn accepted_control_message_call_sequence_is_unchanged() {
    let (res, log) = calls(&control_header(12));
    assert!(res.is_ok());
    assert_eq!(log, vec!["u16", "u16", "u16", "u16", "u16", "u16", "sub0"]);
}
