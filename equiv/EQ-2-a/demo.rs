// Demo for change `a`: a Result Code AVP whose payload has TWO independent faults
// (unassigned error-type code AND a non-UTF-8 error message) is now reported as
// InvalidUtf8(1); the unmodified crate reports InvalidResultCodeErrorType(code).
// Single-fault inputs keep their pinned-down error.

use rl2tp::avp::types::ResultCode;
use rl2tp::avp::AVP;
use rl2tp::common::{DecodeError, SliceReader};
use rl2tp::Message;

// Result Code AVP record: M bit, length, vendor 0, attribute type 1, payload.
fn result_code_record(payload: &[u8]) -> Vec<u8> {
    let len = 6 + payload.len();
    let mut v = vec![
        (((len >> 8) as u8) << 6) | 0x01,
        len as u8,
        0x00,
        0x00,
        0x00,
        0x01,
    ];
    v.extend_from_slice(payload);
    v
}

const BAD_TYPE_BAD_UTF8: [u8; 6] = [0x00, 0x02, 0x00, 0x63, 0xff, 0xfe];
const BAD_TYPE_ONLY: [u8; 6] = [0x00, 0x02, 0x00, 0x63, b'o', b'k'];
const BAD_UTF8_ONLY: [u8; 6] = [0x00, 0x02, 0x00, 0x06, 0xff, 0xfe];

#[test]
fn double_fault_in_avp_list() {
    let bytes = result_code_record(&BAD_TYPE_BAD_UTF8);
    let mut r = SliceReader::from(&bytes);
    let res = AVP::try_read_greedy(&mut r);
    assert_eq!(res, vec![Err(DecodeError::InvalidUtf8(1))]);
}

#[test]
fn double_fault_per_type_decoder() {
    let mut r = SliceReader::from(&BAD_TYPE_BAD_UTF8[..]);
    assert_eq!(ResultCode::try_read(&mut r), Err(DecodeError::InvalidUtf8(1)));
}

#[test]
fn double_fault_in_control_message() {
    let rec = result_code_record(&BAD_TYPE_BAD_UTF8);
    let total = 12 + 8 + rec.len();
    let mut msg = vec![
        0x13, 0x20, // flags: control, length, Ns/Nr, version 2 (crate bit numbering)
        0x00, total as u8, // length
        0x00, 0x01, 0x00, 0x02, 0x00, 0x03, 0x00, 0x04, // tunnel, session, Ns, Nr
        0x01, 0x08, 0x00, 0x00, 0x00, 0x00, 0x00, 0x04, // Message Type = StopCCN
    ];
    msg.extend_from_slice(&rec);
    let mut r = SliceReader::from(&msg);
    let res = Message::<&[u8]>::try_read(&mut r);
    assert_eq!(res, Err(vec![DecodeError::InvalidUtf8(1)]));
}

#[test]
fn single_faults_unchanged() {
    let bytes = result_code_record(&BAD_TYPE_ONLY);
    let mut r = SliceReader::from(&bytes);
    assert_eq!(
        AVP::try_read_greedy(&mut r),
        vec![Err(DecodeError::InvalidResultCodeErrorType(0x63))]
    );

    let bytes = result_code_record(&BAD_UTF8_ONLY);
    let mut r = SliceReader::from(&bytes);
    assert_eq!(
        AVP::try_read_greedy(&mut r),
        vec![Err(DecodeError::InvalidUtf8(1))]
    );
}
