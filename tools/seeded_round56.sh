#!/bin/bash
# rounds 5 and 6 ("realistic maintenance slips"): owning check plus C01 C05 C06 C12 C19 against every seeded/R5-* and R6-* change;
# then the changes of rounds 2-4 that no check reported before the caller-context / huge-size / weak-digest extensions
cd "$(dirname "$0")/.." || exit 2
for d in seeded/R5-* seeded/R6-*; do
  name=$(basename "$d"); id=${name#*-}; id=${id%-*}; x=${name##*-}
  checks=$(echo "$id C01 C05 C06 C12 C19" | tr ' ' '\n' | awk '!seen[$0]++' | tr '\n' ' ')
  SEEDED_SRC=/nonexistent SEEDED_NAME=$name SEEDED_CHECKS="$checks" tools/seeded.sh $id $x 2>&1 | grep -E "confirmed=|CAUGHT|OTHER|^  C"
done
for name in R2-C07-b R4-C07-b R3-C01-c R3-C19-c R3-C12-b R4-C04-b R4-C07-c R3-C13-c R3-C19-a R4-C05-b R4-C11-a R3-C03-b R3-C03-c; do
  id=${name#*-}; id=${id%-*}; x=${name##*-}
  checks=$(echo "$id C01 C05 C06 C12 C19" | tr ' ' '\n' | awk '!seen[$0]++' | tr '\n' ' ')
  SEEDED_SRC=/nonexistent SEEDED_NAME=$name SEEDED_CHECKS="$checks" tools/seeded.sh $id $x 2>&1 | grep -E "confirmed=|CAUGHT|OTHER|^  C"
done
