// Demo for change `c`: state of the reader after AVP::try_read_greedy.
// The returned list is unchanged for every input, but the reader handed to
// try_read_greedy is now always left EMPTY: octets that follow an AVP with an unusable
// length field, and a trailing fragment shorter than an AVP header, are skipped.
// The unmodified crate leaves those octets unread in the reader.

use rl2tp::avp::AVP;
use rl2tp::common::{DecodeError, Reader, SliceReader};
use rl2tp::Message;

const HOST_A: [u8; 7] = [0x01, 0x07, 0x00, 0x00, 0x00, 0x07, 0x41];

#[test]
fn reader_empty_after_overlong_length() {
    // Host Name "A", then a record announcing 32 octets with only 3 payload octets left
    let mut bytes = HOST_A.to_vec();
    bytes.extend_from_slice(&[0x01, 0x20, 0x00, 0x00, 0x00, 0x07, 0x41, 0x42, 0x43]);
    let mut r = SliceReader::from(&bytes);
    let res = AVP::try_read_greedy(&mut r);
    assert_eq!(res.len(), 2);
    assert!(res[0].is_ok());
    assert!(matches!(res[1], Err(DecodeError::InvalidAVPLength(_))));
    assert!(r.is_empty());
    assert_eq!(r.len(), 0);
}

#[test]
fn reader_empty_after_short_length() {
    // length field 3 (< 6 octet header), followed by further octets
    let bytes = [0x01, 0x03, 0x00, 0x00, 0x00, 0x07, 0x41, 0x42, 0x43, 0x44];
    let mut r = SliceReader::from(&bytes[..]);
    let res = AVP::try_read_greedy(&mut r);
    assert_eq!(res, vec![Err(DecodeError::InvalidAVPLength(3))]);
    assert!(r.is_empty());
}

#[test]
fn reader_empty_after_trailing_fragment() {
    // a good record followed by 3 octets that cannot hold an AVP header
    let mut bytes = HOST_A.to_vec();
    bytes.extend_from_slice(&[0xaa, 0xbb, 0xcc]);
    let mut r = SliceReader::from(&bytes);
    let res = AVP::try_read_greedy(&mut r);
    assert_eq!(res.len(), 1);
    assert!(res[0].is_ok());
    assert!(r.is_empty());
}

#[test]
fn message_level_consumption_unchanged() {
    // Control message whose body ends in a 3-octet fragment, followed by a second message:
    // the outer reader still stops exactly at the declared length.
    let zlb = [
        0x13, 0x20, 0x00, 0x0c, 0x00, 0x01, 0x00, 0x02, 0x00, 0x03, 0x00, 0x04,
    ];
    let mut msg = vec![
        0x13, 0x20, 0x00, 23, 0x00, 0x01, 0x00, 0x02, 0x00, 0x03, 0x00, 0x04, //
        0x01, 0x08, 0x00, 0x00, 0x00, 0x00, 0x00, 0x06, // Message Type = Hello
        0xaa, 0xbb, 0xcc, // fragment inside the declared length
    ];
    msg.extend_from_slice(&zlb);
    let mut r = SliceReader::from(&msg);
    let first = Message::<&[u8]>::try_read(&mut r);
    assert!(first.is_ok());
    assert_eq!(r.len(), zlb.len());
    let second = Message::<&[u8]>::try_read(&mut r);
    assert!(second.is_ok());
    assert!(r.is_empty());
}
