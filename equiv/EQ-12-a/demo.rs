// Demo for change `a`: reveal() reports an unassigned attribute type before it looks at the
// hidden octets. Only situations with SEVERAL simultaneous problems change their error.
use rl2tp::avp::types::{Hidden, RandomVector};
use rl2tp::avp::AVP;
use rl2tp::common::DecodeError;

const SECRET: &[u8] = b"secret";

fn rv() -> RandomVector {
    [1u8, 2, 3, 4].into()
}

fn reveal(attribute_type: u16, value: Vec<u8>) -> Result<AVP, DecodeError> {
    AVP::Hidden(Hidden {
        attribute_type,
        value,
    })
    .reveal(SECRET, &rv())
}

#[test]
fn unassigned_type_wins_over_empty_value() {
    // two problems at once: attribute type 20 is unassigned AND the value is empty
    assert_eq!(reveal(20, vec![]), Err(DecodeError::UnknownAvp(20)));
    assert_eq!(reveal(40, vec![]), Err(DecodeError::UnknownAvp(40)));
    assert_eq!(reveal(0xffff, vec![]), Err(DecodeError::UnknownAvp(0xffff)));
}

#[test]
fn unassigned_type_wins_over_misaligned_value() {
    assert_eq!(reveal(20, vec![0u8; 17]), Err(DecodeError::UnknownAvp(20)));
    assert_eq!(reveal(1000, vec![7u8; 5]), Err(DecodeError::UnknownAvp(1000)));
}

#[test]
fn unassigned_type_wins_over_garbage_original_length() {
    // 256 different one-block values: nearly all of them decrypt to an original length that is
    // out of range or does not fit (a second problem next to the unassigned type). All of them
    // now report the unassigned type.
    for seed in 0u8..=255 {
        let value = vec![seed; 16];
        assert_eq!(reveal(20, value), Err(DecodeError::UnknownAvp(20)));
    }
}

#[test]
fn single_faults_and_successes_are_unchanged() {
    // assigned type: the value checks still report as before
    assert_eq!(reveal(9, vec![]), Err(DecodeError::EmptyHiddenAVP));
    assert_eq!(reveal(9, vec![0u8; 17]), Err(DecodeError::MisalignedHiddenAVP));

    // hide -> reveal still round-trips
    let avp = AVP::AssignedTunnelId(0x1234.into());
    let hidden = avp.clone().hide(SECRET, &rv(), &[9, 9, 9], &[0u8; 16]);
    assert_eq!(hidden.reveal(SECRET, &rv()), Ok(avp));
}
