// Glue between the reference model values and the public types of the crate.
use crate::spec::*;
use rl2tp::avp::types::{self as t, result_code as rc};
use rl2tp::avp::AVP;
use rl2tp::common::SliceReader;

/// The private 32-bit word of a bitmask AVP, observed through the encoder (its output is pinned down by C06); the Debug
/// text, which no property constrains, is deliberately not used.
fn raw_word(a: &AVP) -> u32 {
    let mut w = rl2tp::common::VecWriter::new();
    a.write(&mut w);
    if w.data.len() == 10 {
        u32::from_be_bytes([w.data[6], w.data[7], w.data[8], w.data[9]])
    } else {
        // cannot happen for a 4-octet kind unless the encoder is broken; make the mismatch visible instead of hiding it
        0xdead_0000 | (w.data.len() as u32 & 0xffff)
    }
}

pub fn msg_type_num(m: &t::MessageType) -> u16 {
    use t::MessageType::*;
    match m {
        StartControlConnectionRequest => 1,
        StartControlConnectionReply => 2,
        StartControlConnectionConnected => 3,
        StopControlConnectionNotification => 4,
        Hello => 6,
        OutgoingCallRequest => 7,
        OutgoingCallReply => 8,
        OutgoingCallConnected => 9,
        IncomingCallRequest => 10,
        IncomingCallReply => 11,
        IncomingCallConnected => 12,
        CallDisconnectNotify => 14,
        WanErrorNotify => 15,
        SetLinkInfo => 16,
    }
}
pub fn msg_type_of(n: u16) -> t::MessageType {
    use t::MessageType::*;
    match n {
        1 => StartControlConnectionRequest,
        2 => StartControlConnectionReply,
        3 => StartControlConnectionConnected,
        4 => StopControlConnectionNotification,
        6 => Hello,
        7 => OutgoingCallRequest,
        8 => OutgoingCallReply,
        9 => OutgoingCallConnected,
        10 => IncomingCallRequest,
        11 => IncomingCallReply,
        12 => IncomingCallConnected,
        14 => CallDisconnectNotify,
        15 => WanErrorNotify,
        16 => SetLinkInfo,
        _ => panic!("glue: not a message type"),
    }
}
pub fn err_type_num(e: &rc::ErrorType) -> u16 {
    use rc::ErrorType::*;
    match e {
        Ok => 0,
        NoControlConnectionExists => 1,
        WrongLength => 2,
        OutOfRangeOrBadReserved => 3,
        InsufficientResources => 4,
        InvalidSessionId => 5,
        Generic => 6,
        TryAnotherDestination => 7,
        UnknownMandatoryAvp => 8,
    }
}
pub fn err_type_of(n: u16) -> rc::ErrorType {
    use rc::ErrorType::*;
    match n {
        0 => Ok,
        1 => NoControlConnectionExists,
        2 => WrongLength,
        3 => OutOfRangeOrBadReserved,
        4 => InsufficientResources,
        5 => InvalidSessionId,
        6 => Generic,
        7 => TryAnotherDestination,
        8 => UnknownMandatoryAvp,
        _ => panic!("glue: not an error type"),
    }
}
pub fn proxy_num(p: &t::ProxyAuthenType) -> u16 {
    use t::ProxyAuthenType::*;
    match p {
        Reserved => 0,
        TextualUserNamePasswordExchange => 1,
        PppChap => 2,
        PppPap => 3,
        NoAuthentication => 4,
        MicrosoftChapVersion1 => 5,
    }
}
pub fn proxy_of(n: u16) -> t::ProxyAuthenType {
    use t::ProxyAuthenType::*;
    match n {
        0 => Reserved,
        1 => TextualUserNamePasswordExchange,
        2 => PppChap,
        3 => PppPap,
        4 => NoAuthentication,
        5 => MicrosoftChapVersion1,
        _ => panic!("glue: not a proxy type"),
    }
}

pub fn from_crate(a: &AVP) -> SAvp {
    let (attr, body) = match a {
        AVP::MessageType(m) => (0, Body::U16(msg_type_num(m))),
        AVP::ResultCode(r) => (
            1,
            Body::ResultCode {
                code: r.code.into(),
                error: r.error.as_ref().map(|e| (err_type_num(&e.error_type), e.error_message.clone())),
            },
        ),
        AVP::ProtocolVersion(p) => (2, Body::ProtoVer(p.version, p.revision)),
        AVP::FramingCapabilities(_) => (3, Body::U32(raw_word(a))),
        AVP::BearerCapabilities(_) => (4, Body::U32(raw_word(a))),
        AVP::TieBreaker(x) => (5, Body::U64(x.value)),
        AVP::FirmwareRevision(x) => (6, Body::U16(x.value)),
        AVP::HostName(x) => (7, Body::Blob(x.value.clone())),
        AVP::VendorName(x) => (8, Body::Text(x.value.clone())),
        AVP::AssignedTunnelId(x) => (9, Body::U16(x.value)),
        AVP::ReceiveWindowSize(x) => (10, Body::U16(x.value)),
        AVP::Challenge(x) => (11, Body::Blob(x.value.clone())),
        AVP::Q931CauseCode(x) => (12, Body::Q931 { cause: x.cause_code, msg: x.cause_msg, advisory: x.advisory.clone() }),
        AVP::ChallengeResponse(x) => (13, Body::Fixed(x.value.to_vec())),
        AVP::AssignedSessionId(x) => (14, Body::U16(x.value)),
        AVP::CallSerialNumber(x) => (15, Body::U32(x.value)),
        AVP::MinimumBps(x) => (16, Body::U32(x.value)),
        AVP::MaximumBps(x) => (17, Body::U32(x.value)),
        AVP::BearerType(_) => (18, Body::U32(raw_word(a))),
        AVP::FramingType(_) => (19, Body::U32(raw_word(a))),
        AVP::CalledNumber(x) => (21, Body::Text(x.value.clone())),
        AVP::CallingNumber(x) => (22, Body::Text(x.value.clone())),
        AVP::SubAddress(x) => (23, Body::Text(x.value.clone())),
        AVP::TxConnectSpeed(x) => (24, Body::U32(x.value)),
        AVP::PhysicalChannelId(x) => (25, Body::Fixed(x.value.to_vec())),
        AVP::InitialReceivedLcpConfReq(x) => (26, Body::Blob(x.value.clone())),
        AVP::LastSentLcpConfReq(x) => (27, Body::Blob(x.value.clone())),
        AVP::LastReceivedLcpConfReq(x) => (28, Body::Blob(x.value.clone())),
        AVP::ProxyAuthenType(x) => (29, Body::U16(proxy_num(x))),
        AVP::ProxyAuthenName(x) => (30, Body::Blob(x.value.clone())),
        AVP::ProxyAuthenChallenge(x) => (31, Body::Blob(x.value.clone())),
        AVP::ProxyAuthenId(x) => (32, Body::ProxyId(x.value)),
        AVP::ProxyAuthenResponse(x) => (33, Body::Blob(x.value.clone())),
        AVP::CallErrors(x) => (
            34,
            Body::CallErrors([x.crc_errors, x.framing_errors, x.hardware_overruns, x.buffer_overruns, x.timeout_errors, x.alignment_errors]),
        ),
        AVP::Accm(x) => (35, Body::Accm(x.send_accm, x.receive_accm)),
        AVP::RandomVector(x) => (36, Body::Fixed(x.value.to_vec())),
        AVP::PrivateGroupId(x) => (37, Body::Blob(x.value.clone())),
        AVP::RxConnectSpeed(x) => (38, Body::U32(x.value)),
        AVP::SequencingRequired(_) => (39, Body::Empty),
        AVP::Hidden(h) => return SAvp { attr: h.attribute_type, hidden: true, body: Body::Opaque(h.value.clone()) },
    };
    SAvp { attr, hidden: false, body }
}

fn blob(b: &Body) -> Vec<u8> {
    match b {
        Body::Blob(v) | Body::Fixed(v) | Body::Opaque(v) => v.clone(),
        _ => panic!("glue: blob"),
    }
}
fn text(b: &Body) -> String {
    match b {
        Body::Text(s) => s.clone(),
        _ => panic!("glue: text"),
    }
}
fn u16_(b: &Body) -> u16 {
    match b {
        Body::U16(x) => *x,
        _ => panic!("glue: u16"),
    }
}
fn u32_(b: &Body) -> u32 {
    match b {
        Body::U32(x) => *x,
        _ => panic!("glue: u32"),
    }
}

pub fn to_crate(a: &SAvp) -> AVP {
    if a.hidden {
        return AVP::Hidden(t::Hidden { attribute_type: a.attr, value: blob(&a.body) });
    }
    let b = &a.body;
    match a.attr {
        0 => AVP::MessageType(msg_type_of(u16_(b))),
        1 => match b {
            Body::ResultCode { code, error } => AVP::ResultCode(t::ResultCode {
                code: (*code).into(),
                error: error.as_ref().map(|(et, m)| rc::Error { error_type: err_type_of(*et), error_message: m.clone() }),
            }),
            _ => panic!(),
        },
        2 => match b {
            Body::ProtoVer(v, r) => AVP::ProtocolVersion(t::ProtocolVersion { version: *v, revision: *r }),
            _ => panic!(),
        },
        3 => {
            let w = u32_(b).to_be_bytes();
            AVP::FramingCapabilities(t::FramingCapabilities::try_read(&mut SliceReader::from(&w)).unwrap())
        }
        4 => {
            let w = u32_(b).to_be_bytes();
            AVP::BearerCapabilities(t::BearerCapabilities::try_read(&mut SliceReader::from(&w)).unwrap())
        }
        5 => match b {
            Body::U64(x) => AVP::TieBreaker((*x).into()),
            _ => panic!(),
        },
        6 => AVP::FirmwareRevision(u16_(b).into()),
        7 => AVP::HostName(blob(b).into()),
        8 => AVP::VendorName(text(b).into()),
        9 => AVP::AssignedTunnelId(u16_(b).into()),
        10 => AVP::ReceiveWindowSize(u16_(b).into()),
        11 => AVP::Challenge(blob(b).into()),
        12 => match b {
            Body::Q931 { cause, msg, advisory } => AVP::Q931CauseCode(t::Q931CauseCode { cause_code: *cause, cause_msg: *msg, advisory: advisory.clone() }),
            _ => panic!(),
        },
        13 => AVP::ChallengeResponse(<[u8; 16]>::try_from(blob(b).as_slice()).unwrap().into()),
        14 => AVP::AssignedSessionId(u16_(b).into()),
        15 => AVP::CallSerialNumber(u32_(b).into()),
        16 => AVP::MinimumBps(u32_(b).into()),
        17 => AVP::MaximumBps(u32_(b).into()),
        18 => {
            let w = u32_(b).to_be_bytes();
            AVP::BearerType(t::BearerType::try_read(&mut SliceReader::from(&w)).unwrap())
        }
        19 => {
            let w = u32_(b).to_be_bytes();
            AVP::FramingType(t::FramingType::try_read(&mut SliceReader::from(&w)).unwrap())
        }
        21 => AVP::CalledNumber(text(b).into()),
        22 => AVP::CallingNumber(text(b).into()),
        23 => AVP::SubAddress(text(b).into()),
        24 => AVP::TxConnectSpeed(u32_(b).into()),
        25 => AVP::PhysicalChannelId(<[u8; 4]>::try_from(blob(b).as_slice()).unwrap().into()),
        26 => AVP::InitialReceivedLcpConfReq(blob(b).into()),
        27 => AVP::LastSentLcpConfReq(blob(b).into()),
        28 => AVP::LastReceivedLcpConfReq(blob(b).into()),
        29 => AVP::ProxyAuthenType(proxy_of(u16_(b))),
        30 => AVP::ProxyAuthenName(blob(b).into()),
        31 => AVP::ProxyAuthenChallenge(blob(b).into()),
        32 => match b {
            Body::ProxyId(x) => AVP::ProxyAuthenId((*x).into()),
            _ => panic!(),
        },
        33 => AVP::ProxyAuthenResponse(blob(b).into()),
        34 => match b {
            Body::CallErrors(v) => AVP::CallErrors(t::CallErrors {
                crc_errors: v[0],
                framing_errors: v[1],
                hardware_overruns: v[2],
                buffer_overruns: v[3],
                timeout_errors: v[4],
                alignment_errors: v[5],
            }),
            _ => panic!(),
        },
        35 => match b {
            Body::Accm(s, r) => AVP::Accm(t::Accm { send_accm: *s, receive_accm: *r }),
            _ => panic!(),
        },
        36 => AVP::RandomVector(<[u8; 4]>::try_from(blob(b).as_slice()).unwrap().into()),
        37 => AVP::PrivateGroupId(blob(b).into()),
        38 => AVP::RxConnectSpeed(u32_(b).into()),
        39 => AVP::SequencingRequired(t::SequencingRequired {}),
        _ => panic!("glue: unknown attr"),
    }
}

// ---------------------------------------------------------------- messages, options, errors

use core::borrow::Borrow;
use rl2tp::common::DecodeError;
use rl2tp::{ControlMessage, DataMessage, Message, ValidateReserved, ValidateUnused, ValidateVersion, ValidationOptions};

pub fn copts(o: Opts) -> ValidationOptions {
    ValidationOptions {
        reserved: if o.reserved { ValidateReserved::Yes } else { ValidateReserved::No },
        version: if o.version { ValidateVersion::Yes } else { ValidateVersion::No },
        unused: if o.unused { ValidateUnused::Yes } else { ValidateUnused::No },
    }
}

pub fn all_opts() -> [Opts; 8] {
    let mut v = [Opts { reserved: false, version: false, unused: false }; 8];
    for (i, o) in v.iter_mut().enumerate() {
        *o = Opts { reserved: i & 1 != 0, version: i & 2 != 0, unused: i & 4 != 0 };
    }
    v
}
pub const STRICT: Opts = Opts { reserved: true, version: true, unused: true };
pub const DEFAULT_OPTS: Opts = Opts { reserved: false, version: true, unused: false };

pub fn opts_str(o: Opts) -> String {
    format!("reserved={} version={} unused={}", yn(o.reserved), yn(o.version), yn(o.unused))
}
fn yn(b: bool) -> &'static str {
    if b {
        "Yes"
    } else {
        "No"
    }
}

pub fn from_crate_msg<T: Borrow<[u8]>>(m: &Message<T>) -> SMsg {
    match m {
        Message::Control(c) => SMsg::Control {
            length: c.length,
            tunnel: c.tunnel_id,
            session: c.session_id,
            ns: c.ns,
            nr: c.nr,
            avps: c.avps.iter().map(from_crate).collect(),
        },
        Message::Data(d) => SMsg::Data {
            prio: d.is_prioritized,
            length: d.length,
            tunnel: d.tunnel_id,
            session: d.session_id,
            ns_nr: d.ns_nr,
            offset: d.offset,
            data: d.data.borrow().to_vec(),
        },
    }
}

pub fn to_crate_msg(m: &SMsg) -> Message<&[u8]> {
    match m {
        SMsg::Control { length, tunnel, session, ns, nr, avps } => Message::Control(ControlMessage {
            length: *length,
            tunnel_id: *tunnel,
            session_id: *session,
            ns: *ns,
            nr: *nr,
            avps: avps.iter().map(to_crate).collect(),
        }),
        SMsg::Data { prio, length, tunnel, session, ns_nr, offset, data } => Message::Data(DataMessage {
            is_prioritized: *prio,
            length: *length,
            tunnel_id: *tunnel,
            session_id: *session,
            ns_nr: *ns_nr,
            offset: *offset,
            data: &data[..],
        }),
    }
}

/// The crate error a *stated* fault must produce (C15/C20); None where no property states the variant.
pub fn expected_error(e: &SErr) -> Option<DecodeError> {
    Some(match e {
        SErr::Incomplete(t) => DecodeError::IncompleteAVP(*t),
        SErr::UnknownMsgType(c) => DecodeError::UnknownMessageType(*c),
        SErr::BadUtf8(t) => DecodeError::InvalidUtf8(*t),
        SErr::BadErrorType(c) => DecodeError::InvalidResultCodeErrorType(*c),
        SErr::UnknownAvp(t) => DecodeError::UnknownAvp(*t),
        SErr::Vendor(v) => DecodeError::UnsupportedVendorId(*v),
        SErr::Version(v) => DecodeError::InvalidVersion(*v),
        SErr::Offset(n) => DecodeError::InvalidOffset(*n),
        SErr::BadProxyType(_) | SErr::BadAvpLength(_) | SErr::Other(_) => return None,
    })
}

/// the u16/u8 payload a decode error carries, if any
pub fn error_payload(e: &DecodeError) -> Option<u16> {
    use DecodeError::*;
    match e {
        IncompleteAVP(x) | UnknownMessageType(x) | InvalidUtf8(x) | InvalidResultCodeErrorType(x) | AVPReadError(x) | InvalidAVPLength(x) | UnknownAvp(x)
        | InvalidOriginalAVPLength(x) | UnsupportedVendorId(x) | InvalidOffset(x) => Some(*x),
        InvalidVersion(x) => Some(*x as u16),
        _ => None,
    }
}

// ---------------------------------------------------------------- running the crate

use crate::cx::{guard, Caught};
use rl2tp::common::Reader;

pub type DecodeOut = Result<(SMsg, usize), Vec<DecodeError>>;

/// decode a message with the crate through SliceReader; the value is projected to spec types,
/// together with the number of octets consumed
pub fn crate_decode(b: &[u8], o: Opts) -> Caught<DecodeOut> {
    guard(|| {
        let mut r = SliceReader::from(b);
        let m: Result<Message<&[u8]>, _> = Message::try_read_validate(&mut r, copts(o));
        m.map(|m| (from_crate_msg(&m), b.len() - r.len()))
    })
}

pub fn crate_decode_default(b: &[u8]) -> Caught<DecodeOut> {
    guard(|| {
        let mut r = SliceReader::from(b);
        let m: Result<Message<&[u8]>, _> = Message::try_read(&mut r);
        m.map(|m| (from_crate_msg(&m), b.len() - r.len()))
    })
}

pub type AvpsOut = Vec<Result<SAvp, DecodeError>>;

pub fn crate_decode_avps(b: &[u8]) -> Caught<(AvpsOut, usize)> {
    guard(|| {
        let mut r = SliceReader::from(b);
        let v: AvpsOut = AVP::try_read_greedy(&mut r).into_iter().map(|x| x.map(|a| from_crate(&a))).collect();
        (v, r.len())
    })
}

pub fn crate_encode_msg(m: &SMsg) -> Caught<Vec<u8>> {
    guard(|| {
        let cm = to_crate_msg(m);
        let mut w = rl2tp::common::VecWriter::new();
        cm.write(&mut w);
        w.data
    })
}

pub fn crate_encode_avp(a: &SAvp) -> Caught<Vec<u8>> {
    guard(|| {
        let ca = to_crate(a);
        let mut w = rl2tp::common::VecWriter::new();
        ca.write(&mut w);
        w.data
    })
}

/// decode a message through any conforming reader; returns (result, octets left in the reader)
pub fn decode_via<T: Borrow<[u8]>, R: Reader<T>>(r: &mut R, o: Opts) -> (Result<SMsg, Vec<DecodeError>>, usize) {
    let m = Message::<T>::try_read_validate(r, copts(o)).map(|m| from_crate_msg(&m));
    (m, r.len())
}

pub fn decode_avps_via<T: Borrow<[u8]>, R: Reader<T>>(r: &mut R) -> (AvpsOut, usize) {
    let v: AvpsOut = AVP::try_read_greedy(r).into_iter().map(|x| x.map(|a| from_crate(&a))).collect();
    (v, r.len())
}

/// call the public `try_read` of one AVP kind directly on a payload reader (the harness's own
/// dispatch table; attribute type 39 has no reader of its own and is not covered)
pub fn per_type_try_read<T: Borrow<[u8]>, R: Reader<T>>(attr: u16, r: &mut R) -> Option<Result<SAvp, DecodeError>> {
    let a: Result<AVP, DecodeError> = match attr {
        0 => t::MessageType::try_read(r).map(AVP::MessageType),
        1 => t::ResultCode::try_read(r).map(AVP::ResultCode),
        2 => t::ProtocolVersion::try_read(r).map(AVP::ProtocolVersion),
        3 => t::FramingCapabilities::try_read(r).map(AVP::FramingCapabilities),
        4 => t::BearerCapabilities::try_read(r).map(AVP::BearerCapabilities),
        5 => t::TieBreaker::try_read(r).map(AVP::TieBreaker),
        6 => t::FirmwareRevision::try_read(r).map(AVP::FirmwareRevision),
        7 => t::HostName::try_read(r).map(AVP::HostName),
        8 => t::VendorName::try_read(r).map(AVP::VendorName),
        9 => t::AssignedTunnelId::try_read(r).map(AVP::AssignedTunnelId),
        10 => t::ReceiveWindowSize::try_read(r).map(AVP::ReceiveWindowSize),
        11 => t::Challenge::try_read(r).map(AVP::Challenge),
        12 => t::Q931CauseCode::try_read(r).map(AVP::Q931CauseCode),
        13 => t::ChallengeResponse::try_read(r).map(AVP::ChallengeResponse),
        14 => t::AssignedSessionId::try_read(r).map(AVP::AssignedSessionId),
        15 => t::CallSerialNumber::try_read(r).map(AVP::CallSerialNumber),
        16 => t::MinimumBps::try_read(r).map(AVP::MinimumBps),
        17 => t::MaximumBps::try_read(r).map(AVP::MaximumBps),
        18 => t::BearerType::try_read(r).map(AVP::BearerType),
        19 => t::FramingType::try_read(r).map(AVP::FramingType),
        21 => t::CalledNumber::try_read(r).map(AVP::CalledNumber),
        22 => t::CallingNumber::try_read(r).map(AVP::CallingNumber),
        23 => t::SubAddress::try_read(r).map(AVP::SubAddress),
        24 => t::TxConnectSpeed::try_read(r).map(AVP::TxConnectSpeed),
        25 => t::PhysicalChannelId::try_read(r).map(AVP::PhysicalChannelId),
        26 => t::InitialReceivedLcpConfReq::try_read(r).map(AVP::InitialReceivedLcpConfReq),
        27 => t::LastSentLcpConfReq::try_read(r).map(AVP::LastSentLcpConfReq),
        28 => t::LastReceivedLcpConfReq::try_read(r).map(AVP::LastReceivedLcpConfReq),
        29 => t::ProxyAuthenType::try_read(r).map(AVP::ProxyAuthenType),
        30 => t::ProxyAuthenName::try_read(r).map(AVP::ProxyAuthenName),
        31 => t::ProxyAuthenChallenge::try_read(r).map(AVP::ProxyAuthenChallenge),
        32 => t::ProxyAuthenId::try_read(r).map(AVP::ProxyAuthenId),
        33 => t::ProxyAuthenResponse::try_read(r).map(AVP::ProxyAuthenResponse),
        34 => t::CallErrors::try_read(r).map(AVP::CallErrors),
        35 => t::Accm::try_read(r).map(AVP::Accm),
        36 => t::RandomVector::try_read(r).map(AVP::RandomVector),
        37 => t::PrivateGroupId::try_read(r).map(AVP::PrivateGroupId),
        38 => t::RxConnectSpeed::try_read(r).map(AVP::RxConnectSpeed),
        _ => return None,
    };
    Some(a.map(|x| from_crate(&x)))
}

/// encode a message into a writer that already holds `prefix`; returns only the octets appended
/// (whether the prefix itself stays intact is C09's business)
pub fn crate_encode_msg_after(m: &SMsg, prefix: &[u8]) -> Caught<Vec<u8>> {
    guard(|| {
        let cm = to_crate_msg(m);
        let mut w = rl2tp::common::VecWriter::new();
        w.data = prefix.to_vec();
        cm.write(&mut w);
        w.data.split_off(prefix.len().min(w.data.len()))
    })
}

pub fn crate_encode_avp_after(a: &SAvp, prefix: &[u8]) -> Caught<Vec<u8>> {
    guard(|| {
        let ca = to_crate(a);
        let mut w = rl2tp::common::VecWriter::new();
        w.data = prefix.to_vec();
        ca.write(&mut w);
        w.data.split_off(prefix.len().min(w.data.len()))
    })
}
