// Demo for change `b`: reveal() peeks at the decrypted original length (first block only)
// before it checks the 16-octet alignment. A value that is misaligned AND announces an
// impossible original length now reports the length; every single-fault case is unchanged.
use rl2tp::avp::types::{Hidden, RandomVector};
use rl2tp::avp::AVP;
use rl2tp::common::DecodeError;

const SECRET: &[u8] = b"shared secret";

fn rv() -> RandomVector {
    [0xde, 0xad, 0xbe, 0xef].into()
}

/// A correctly hidden AssignedTunnelId whose plaintext original-length subfield has been
/// replaced by `original_length` (XOR trick: ciphertext ^ old plaintext ^ new plaintext).
fn hidden_with_original_length(original_length: u16, lp: &[u8]) -> Vec<u8> {
    let hidden = AVP::AssignedTunnelId(0x4242.into()).hide(SECRET, &rv(), lp, &[0xaa; 16]);
    let mut value = match hidden {
        AVP::Hidden(h) => {
            assert_eq!(h.attribute_type, 9);
            h.value
        }
        _ => unreachable!(),
    };
    let good = 8u16.to_be_bytes(); // 6 header octets + 2 payload octets
    let bad = original_length.to_be_bytes();
    value[0] ^= good[0] ^ bad[0];
    value[1] ^= good[1] ^ bad[1];
    value
}

fn reveal(value: Vec<u8>) -> Result<AVP, DecodeError> {
    AVP::Hidden(Hidden {
        attribute_type: 9,
        value,
    })
    .reveal(SECRET, &rv())
}

#[test]
fn misaligned_and_impossible_length_reports_the_length() {
    for bad in [0u16, 5, 1024, 0xffff] {
        // one surplus octet
        let mut v = hidden_with_original_length(bad, &[]);
        v.push(0);
        assert_eq!(v.len(), 17);
        assert_eq!(reveal(v), Err(DecodeError::InvalidOriginalAVPLength(bad)));

        // truncated second block
        let mut v = hidden_with_original_length(bad, &[1; 20]);
        assert_eq!(v.len(), 32);
        v.truncate(29);
        assert_eq!(reveal(v), Err(DecodeError::InvalidOriginalAVPLength(bad)));
    }
}

#[test]
fn single_faults_are_unchanged() {
    // only misaligned (original length is fine)
    let mut v = hidden_with_original_length(8, &[]);
    v.push(0);
    assert_eq!(reveal(v), Err(DecodeError::MisalignedHiddenAVP));
    let mut v = hidden_with_original_length(8, &[1; 20]);
    v.truncate(31);
    assert_eq!(reveal(v), Err(DecodeError::MisalignedHiddenAVP));
    // shorter than one block: nothing can be peeked
    assert_eq!(reveal(vec![0; 15]), Err(DecodeError::MisalignedHiddenAVP));
    assert_eq!(reveal(vec![]), Err(DecodeError::EmptyHiddenAVP));

    // only a bad original length (aligned)
    for bad in [0u16, 5, 1024, 0xffff, 23] {
        let v = hidden_with_original_length(bad, &[]);
        assert_eq!(reveal(v), Err(DecodeError::InvalidOriginalAVPLength(bad)));
    }

    // no fault
    let v = hidden_with_original_length(8, &[3; 40]);
    assert_eq!(reveal(v), Ok(AVP::AssignedTunnelId(0x4242.into())));
}
