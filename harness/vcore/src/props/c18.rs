// C18 — SliceReader and VecWriter behave as a plain cursor and a plain byte vector.
use crate::cx::*;
use crate::gen::*;
use crate::prop::*;
use rl2tp::common::{Reader, SliceReader, VecWriter, Writer};
use serde_json::{json, Value};

pub static DEF: PropDef = PropDef {
    id: "C18",
    title: "SliceReader and VecWriter behave as a plain cursor and a plain byte vector",
    rule: "(reader) slices of 0..64 octets and sequences of 0..40 operations on a pool of readers (the root, every sub-reader created so far and copies of them): fixed-width reads of 1/2/4/8 octets, skip(n), subreader(n) - \
arguments chosen <= remaining by construction with extra mass on 0 and on exactly `remaining` - bytes(n) with n from 0 to remaining + 3, len/is_empty after every step. Reference: a (start, end) window over the \
same Vec. Every return value, len() and is_empty() must agree; bytes(n > remaining) must return None without panicking (the sequence ends there: the state after a refused request is not asserted). \
(writer) sequences of the five append operations and write_bytes_at with in-range, touching-the-end, one-past-the-end and huge offsets. Reference: a Vec<u8>. The buffer must agree after every step, an overwrite \
never changes the length, an overwrite that does not lie inside the written data must be refused (panic) and leave the buffer unchanged. Non-trivial = at least 3 operations including one boundary argument; \
distinct by hash of (data, operations).",
    assumptions: &["'refused' is observed as a panic caught with catch_unwind"],
    parts,
    run_tape,
    run_enum: no_enum,
    run_concrete,
    both_profiles: true,
    exhaustive_note: "",
};

fn parts(t: Tier) -> Vec<Part> {
    let (a, b) = match t {
        Tier::Quick => (1_200_000, 900_000),
        Tier::Thorough => (12_000_000, 10_000_000),
    };
    vec![tape("reader", a, 300), tape("writer", b, 300)]
}

/// a chain of nested sub-readers several hundred levels deep (each a sub-reader of the previous one)
fn check_deep_nesting(t: &mut Tape, cx: &mut Cx) -> Res {
    cx.eval();
    let depth = 200 + t.below(400);
    let data: Vec<u8> = (0..depth + 8).map(|i| i as u8).collect();
    cx.stage(STAGE_ARMED);
    let r = guard(|| {
        let mut cur = SliceReader::from(&data[..]);
        for level in 0..depth {
            let n = cur.len() - 1;
            let _ = unsafe { cur.read_u8_unchecked() };
            let sub = cur.subreader(n);
            if !cur.is_empty() || sub.len() != n {
                return Some(level);
            }
            cur = sub;
        }
        let last = unsafe { cur.read_u8_unchecked() };
        if last as usize != depth % 256 {
            return Some(depth);
        }
        None
    });
    cx.stage(STAGE_SETUP);
    match r {
        Caught::Ok(None) => {
            cx.class("chain of several hundred nested sub-readers");
            cx.nontrivial(&(depth, 33u8));
            Ok(())
        }
        Caught::Ok(Some(l)) => fail(format!("nested sub-reader at depth {} has the wrong extent or content", l), json!({"depth": depth})),
        Caught::Panic(p) => fail(format!("a sub-reader request with its precondition satisfied panicked at some nesting depth: {}", p.short()), json!({"depth": depth})),
        Caught::Monitor(_) => fail("unexpected panic payload", json!({})),
    }
}

fn check_reader(t: &mut Tape, cx: &mut Cx) -> Res {
    if t.chance(1) {
        return check_deep_nesting(t, cx);
    }
    cx.eval();
    let n = match t.below(5) {
        0 => 0,
        1 => t.below(9),
        _ => t.below(65),
    };
    let data = t.raw(n);
    let nops = t.below(41);
    let mut trace: Vec<String> = Vec::new();
    let mut boundary = false;
    cx.stage(STAGE_ARMED);
    // pool of (crate reader, model window)
    let mut pool: Vec<(SliceReader, usize, usize)> = vec![(SliceReader::from(&data[..]), 0, data.len())];
    let mut done = 0;
    for _ in 0..nops {
        let i = t.below(pool.len());
        let (start, end) = (pool[i].1, pool[i].2);
        let rem = end - start;
        let op = t.below(9);
        let arg_le = |t: &mut Tape, rem: usize, boundary: &mut bool| -> usize {
            match t.below(4) {
                0 => {
                    *boundary = true;
                    0
                }
                1 => {
                    *boundary = true;
                    rem
                }
                _ => t.below(rem + 1),
            }
        };
        let render = |trace: &Vec<String>| json!({"data": hex(&data), "operations": trace});
        macro_rules! fixed {
            ($w:expr, $name:expr, $call:ident, $conv:expr) => {{
                if rem >= $w {
                    if rem == $w {
                        boundary = true;
                    }
                    trace.push(format!("r{}.{}()", i, $name));
                    let got = match guard(|| unsafe { pool[i].0.$call() }) {
                        Caught::Ok(v) => v as u64,
                        Caught::Panic(p) => return fail(format!("{} with its precondition satisfied panicked: {}", $name, p.short()), render(&trace)),
                        Caught::Monitor(_) => return fail("unexpected panic payload", render(&trace)),
                    };
                    let exp: u64 = $conv(&data[start..start + $w]);
                    if got != exp {
                        return fail(format!("{} returned {:#x}, the next octets are {:#x}", $name, got, exp), render(&trace));
                    }
                    pool[i].1 += $w;
                    done += 1;
                }
            }};
        }
        let be = |s: &[u8]| -> u64 { s.iter().fold(0u64, |a, b| (a << 8) | *b as u64) };
        match op {
            0 => fixed!(1, "read_u8_unchecked", read_u8_unchecked, be),
            1 => fixed!(2, "read_u16_be_unchecked", read_u16_be_unchecked, be),
            2 => fixed!(4, "read_u32_be_unchecked", read_u32_be_unchecked, be),
            3 => fixed!(8, "read_u64_be_unchecked", read_u64_be_unchecked, be),
            4 => {
                let k = arg_le(t, rem, &mut boundary);
                trace.push(format!("r{}.skip_bytes({})", i, k));
                if let Caught::Panic(p) = guard(|| pool[i].0.skip_bytes(k)) {
                    return fail(format!("skip_bytes({}) with {} remaining panicked: {}", k, rem, p.short()), render(&trace));
                }
                pool[i].1 += k;
                done += 1;
            }
            5 => {
                let k = arg_le(t, rem, &mut boundary);
                trace.push(format!("r{} = r{}.subreader({})", pool.len(), i, k));
                let sub = match guard(|| pool[i].0.subreader(k)) {
                    Caught::Ok(s) => s,
                    Caught::Panic(p) => return fail(format!("subreader({}) with {} remaining panicked: {}", k, rem, p.short()), render(&trace)),
                    Caught::Monitor(_) => return fail("unexpected panic payload", render(&trace)),
                };
                pool[i].1 += k;
                pool.push((sub, start, start + k));
                done += 1;
            }
            8 => {
                // SliceReader is Copy: a copy is an independent cursor over the same remaining octets
                trace.push(format!("r{} = copy of r{}", pool.len(), i));
                let c = pool[i].0;
                pool.push((c, start, end));
                done += 1;
            }
            _ => {
                let k = match t.below(6) {
                    0 => {
                        boundary = true;
                        rem
                    }
                    1 => {
                        boundary = true;
                        rem + 1
                    }
                    2 => {
                        boundary = true;
                        match t.below(4) {
                            0 => rem + 1 + t.below(3),
                            // requests far beyond anything a wire length can say: 2^16, 2^32 (+ what remains), 2^63, usize::MAX
                            1 => (1usize << [16usize, 31, 32, 33, 48, 63][t.below(6)]) + t.below(rem + 2),
                            2 => usize::MAX - t.below(3),
                            _ => rem + 1 + t.below(70000),
                        }
                    }
                    3 => {
                        boundary = true;
                        0
                    }
                    _ => t.below(rem + 1),
                };
                trace.push(format!("r{}.bytes({})", i, k));
                let got = match guard(|| pool[i].0.bytes(k).map(|s| s.to_vec())) {
                    Caught::Ok(v) => v,
                    Caught::Panic(p) => {
                        return fail(
                            format!("bytes({}) with {} remaining panicked instead of returning {}: {}", k, rem, if k > rem { "None" } else { "the octets" }, p.short()),
                            render(&trace),
                        )
                    }
                    Caught::Monitor(_) => return fail("unexpected panic payload", render(&trace)),
                };
                done += 1;
                if k > rem {
                    if got.is_some() {
                        return fail(format!("bytes({}) with {} remaining returned Some", k, rem), render(&trace));
                    }
                    cx.class("bytes(n > remaining) returned None");
                    break; // the state after a refused request is not specified
                }
                match got {
                    Some(v) if v[..] == data[start..start + k] => {}
                    other => return fail(format!("bytes({}) returned {:?}, the next octets are {}", k, other.map(|v| hex(&v)), hex(&data[start..start + k])), render(&trace)),
                }
                pool[i].1 += k;
            }
        }
        // observers on every reader after every step
        for (j, (r, s, e)) in pool.iter().enumerate() {
            if r.len() != e - s || r.is_empty() != (e == s) {
                return fail(format!("after the step, r{}.len() = {} / is_empty() = {} but the reference cursor has {} octets left", j, r.len(), r.is_empty(), e - s), render(&trace));
            }
        }
    }
    cx.stage(STAGE_SETUP);
    if done >= 3 && boundary {
        cx.nontrivial(&(&data, &trace));
    }
    cx.class(if pool.len() > 1 { "reader sequence with sub-readers" } else { "reader sequence without sub-readers" });
    cx.class_n("reader operations executed", done);
    cx.sample("reader", || json!({"data": hex(&data), "operations": trace, "family": "reader"}));
    Ok(())
}

fn check_writer(t: &mut Tape, cx: &mut Cx) -> Res {
    cx.eval();
    let nops = 1 + t.below(30);
    let mut w = VecWriter::new();
    let mut model: Vec<u8> = Vec::new();
    let mut trace: Vec<String> = Vec::new();
    let mut boundary = false;
    let mut done = 0u64;
    cx.stage(STAGE_ARMED);
    for _ in 0..nops {
        let render = |trace: &Vec<String>| json!({"operations": trace});
        match t.below(9) {
            0 => {
                // short raw slices, and longer ones that are all zero / one value / a counter (what a bulk fast path would special-case)
                let b = if t.chance(25) {
                    let n = if t.chance(2) { (1 << 20) + t.below(3000) } else { [0usize, 1, 16, 63, 64, 65, 128, 255, 256, 300, 4096, 65536][t.below(12)] + t.below(3) };
                    t.blob_cheap(n)
                } else {
                    let n = t.below(20);
                    t.raw(n)
                };
                trace.push(format!("write_bytes({})", hex_short(&b)));
                // the source slice may start at any address: take it out of a larger buffer at offset 0..7
                let k = t.below(8);
                let mut holder = vec![0u8; k];
                holder.extend_from_slice(&b);
                w.write_bytes(&holder[k..]);
                model.extend_from_slice(&b);
            }
            1 => {
                let v = t.byte();
                trace.push(format!("write_u8({:#x})", v));
                w.write_u8(v);
                model.push(v);
            }
            2 => {
                let v = t.u16();
                trace.push(format!("write_u16_be({:#x})", v));
                w.write_u16_be(v);
                model.extend_from_slice(&v.to_be_bytes());
            }
            3 => {
                let v = t.u32();
                trace.push(format!("write_u32_be({:#x})", v));
                w.write_u32_be(v);
                model.extend_from_slice(&v.to_be_bytes());
            }
            4 => {
                let v = t.u64();
                trace.push(format!("write_u64_be({:#x})", v));
                w.write_u64_be(v);
                model.extend_from_slice(&v.to_be_bytes());
            }
            _ => {
                // positional overwrite
                let len = model.len();
                let n = match t.below(4) {
                    0 => 1,
                    1 => 2,
                    _ => 1 + t.below(8),
                };
                let mut b = t.raw(n);
                let derive = t.chance(20);
                let (off, in_range) = match t.below(7) {
                    0 | 1 if len >= n => (t.below(len - n + 1), true),
                    2 if len >= n => {
                        boundary = true;
                        (len - n, true) // touches the last octet
                    }
                    3 => {
                        boundary = true;
                        ((len + 1).saturating_sub(n), (len + 1).saturating_sub(n) + n <= len) // ends one past the end
                    }
                    4 => {
                        boundary = true;
                        (len, false) // starts at the end
                    }
                    5 => {
                        boundary = true;
                        (usize::MAX - t.below(10), false) // offset + len wraps
                    }
                    6 => (len + 1 + t.below(100), false),
                    _ => {
                        if len >= n {
                            (0, true)
                        } else {
                            (0, false)
                        }
                    }
                };
                if derive && in_range {
                    // a patch that repeats what the buffer already holds there, except for one late octet
                    let n2 = (9 + t.below(24)).min(len - off);
                    if n2 >= 2 {
                        b = model[off..off + n2].to_vec();
                        let j = n2 - 1 - t.below(n2.min(4));
                        b[j] ^= 1 + (t.byte() & 0x7f);
                    }
                }
                let n = b.len();
                trace.push(format!("write_bytes_at({}, {})", hex(&b), off));
                let before = w.data.clone();
                let r = guard(|| w.write_bytes_at(&b, off));
                match (r, in_range) {
                    (Caught::Ok(()), true) => {
                        model[off..off + n].copy_from_slice(&b);
                        cx.class("in-range overwrite applied");
                    }
                    (Caught::Panic(p), true) => return fail(format!("an overwrite inside the written data ([{}, {}) of {}) was refused: {}", off, off + n, len, p.short()), render(&trace)),
                    (Caught::Ok(()), false) => {
                        return fail(format!("an overwrite that does not lie inside the written data (offset {}, {} octets, {} written) was not refused", off, n, len), render(&trace));
                    }
                    (Caught::Panic(_), false) => {
                        if w.data != before {
                            return fail("a refused overwrite changed the buffer", render(&trace));
                        }
                        cx.class("out-of-range overwrite refused");
                    }
                    (Caught::Monitor(_), _) => return fail("unexpected panic payload", render(&trace)),
                }
            }
        }
        done += 1;
        if w.data != model {
            return fail(format!("buffer differs from the reference vector: {} vs {}", hex_short(&w.data), hex_short(&model)), render(&trace));
        }
        if w.len() != model.len() || w.is_empty() != model.is_empty() {
            return fail("len()/is_empty() differ from the reference vector", render(&trace));
        }
    }
    cx.stage(STAGE_SETUP);
    if done >= 3 && boundary {
        cx.nontrivial(&trace);
    }
    cx.class_n("writer operations executed", done);
    cx.sample("writer", || json!({"operations": trace, "family": "writer"}));
    Ok(())
}

fn run_tape(part: &str, tape: &[u8], cx: &mut Cx) -> Res {
    let mut t = Tape::new(tape);
    match part {
        "reader" => check_reader(&mut t, cx),
        _ => check_writer(&mut t, cx),
    }
}

fn run_concrete(case: &Value, cx: &mut Cx) -> Res {
    // {"data": hex, "bytes_request": n}: bytes(n) on a fresh reader over data
    let data = case.get("data").and_then(|x| x.as_str()).and_then(unhex);
    let n = case.get("bytes_request").and_then(|x| x.as_u64());
    match (data, n) {
        (Some(d), Some(n)) => {
            cx.eval();
            cx.stage(STAGE_ARMED);
            let n = n as usize;
            let r = guard(|| {
                let mut r = SliceReader::from(&d[..]);
                r.bytes(n).map(|s| s.to_vec())
            });
            match r {
                Caught::Ok(None) if n > d.len() => Ok(()),
                Caught::Ok(Some(v)) if n <= d.len() && v[..] == d[..n] => Ok(()),
                Caught::Panic(p) => fail(format!("bytes({}) on {} octets panicked: {}", n, d.len(), p.short()), case.clone()),
                _ => fail(format!("bytes({}) on {} octets returned the wrong value", n, d.len()), case.clone()),
            }
        }
        _ => fail("bad concrete case", case.clone()),
    }
}
