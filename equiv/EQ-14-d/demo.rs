// Demo for change `d`: ControlMessage::write sizes the message up front (sum of
// 6 + get_length() over the AVPs, checked arithmetic) and refuses an oversize
// message before the writer is touched; while encoding it keeps the Length
// field exact after every AVP and patches it once more at the end.

use rl2tp::avp::types::{HostName, MessageType, ReceiveWindowSize};
use rl2tp::avp::AVP;
use rl2tp::common::{VecWriter, Writer};
use rl2tp::{ControlMessage, Message};
use std::panic::{catch_unwind, AssertUnwindSafe};

#[derive(Default)]
struct Rec {
    data: Vec<u8>,
    patches: Vec<(Vec<u8>, usize)>,
}

impl Writer for Rec {
    fn is_empty(&self) -> bool {
        self.data.is_empty()
    }
    fn len(&self) -> usize {
        self.data.len()
    }
    fn write_bytes(&mut self, bytes: &[u8]) {
        self.data.extend_from_slice(bytes);
    }
    fn write_bytes_at(&mut self, bytes: &[u8], offset: usize) {
        self.patches.push((bytes.to_vec(), offset));
        assert!(offset + bytes.len() <= self.data.len());
        self.data[offset..offset + bytes.len()].copy_from_slice(bytes);
    }
    fn write_u8(&mut self, value: u8) {
        self.data.push(value);
    }
    fn write_u16_be(&mut self, value: u16) {
        self.data.extend_from_slice(&value.to_be_bytes());
    }
    fn write_u32_be(&mut self, value: u32) {
        self.data.extend_from_slice(&value.to_be_bytes());
    }
    fn write_u64_be(&mut self, value: u64) {
        self.data.extend_from_slice(&value.to_be_bytes());
    }
}

#[test]
fn oversize_message_is_refused_before_the_writer_is_touched() {
    // 12 + 8 + 70 * 1006 = 70440 > 65535, every single AVP is fine
    let mut avps = vec![AVP::MessageType(MessageType::Hello)];
    for _ in 0..70 {
        avps.push(AVP::HostName(HostName {
            value: vec![0x61; 1000],
        }));
    }
    let m: Message<Vec<u8>> = Message::Control(ControlMessage {
        length: 0,
        tunnel_id: 0,
        session_id: 0,
        ns: 0,
        nr: 0,
        avps,
    });
    let mut w = VecWriter::new();
    w.write_bytes(&[7, 7]);
    let payload = catch_unwind(AssertUnwindSafe(|| m.write(&mut w)))
        .expect_err("oversize message must be refused by a panic");
    assert_eq!(w.data, vec![7, 7]);
    let text = payload
        .downcast_ref::<String>()
        .cloned()
        .or_else(|| payload.downcast_ref::<&str>().map(|s| s.to_string()))
        .unwrap_or_default();
    assert!(
        text.contains("refusing to encode a control message of 70440 octets"),
        "panic text was: {text}"
    );
}

#[test]
fn length_field_is_kept_exact_after_every_avp() {
    let m: Message<Vec<u8>> = Message::Control(ControlMessage {
        length: 0,
        tunnel_id: 1,
        session_id: 2,
        ns: 3,
        nr: 4,
        avps: vec![
            AVP::MessageType(MessageType::Hello),
            AVP::ReceiveWindowSize(ReceiveWindowSize { value: 8 }),
        ],
    });
    let mut w = Rec::default();
    w.write_bytes(&[0xaa]);
    m.write(&mut w);
    assert_eq!(w.data.len(), 1 + 28);
    assert_eq!(&w.data[3..5], &[0, 28]);
    // message-level patches all hit the Length field at offset 1 + 2
    let at_length: Vec<Vec<u8>> = w
        .patches
        .iter()
        .filter(|(_, o)| *o == 3)
        .map(|(b, _)| b.clone())
        .collect();
    assert_eq!(at_length, vec![vec![0, 20], vec![0, 28], vec![0, 28]]);
}

#[test]
fn zlb_is_patched_once() {
    let m: Message<Vec<u8>> = Message::Control(ControlMessage {
        length: 999,
        tunnel_id: 1,
        session_id: 2,
        ns: 3,
        nr: 4,
        avps: vec![],
    });
    let mut w = Rec::default();
    m.write(&mut w);
    assert_eq!(w.data, vec![0x13, 0x20, 0, 12, 0, 1, 0, 2, 0, 3, 0, 4]);
    assert_eq!(w.patches, vec![(vec![0, 12], 2)]);
}
