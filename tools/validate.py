#!/usr/bin/env python3
import json, sys, glob
import jsonschema
m = json.load(open('/verif/MANIFEST.json'))
jsonschema.validate(m, json.load(open('/root/.vp/MANIFEST.schema.json')))
es = json.load(open('/root/.vp/EVIDENCE.schema.json'))
bad = 0
for c in m['checks']:
    try:
        e = json.load(open(c['evidence_file']))
        jsonschema.validate(e, es)
        assert e['property_id'] == c['property_id']
        print(c['property_id'], 'ok', e['tier'], e['coverage']['evaluations'], e['coverage']['distinct_nontrivial'], 'violations', e.get('violations'))
    except Exception as ex:
        bad += 1
        print(c['property_id'], 'INVALID', str(ex)[:200])
ids = {c['property_id'] for c in m['checks']} | {n['property_id'] for n in m.get('not_applicable', [])}
props = {json.loads(l)['id'] for l in open('/verif/properties.jsonl')}
if ids != props:
    print('MISSING', props - ids); bad += 1
sys.exit(1 if bad else 0)
