// Demo for change `c`: reveal() no longer decrypts in place with a heap scratch buffer for MD5
// input; it feeds MD5 incrementally, decrypts the first block on the stack and copies out only
// the blocks that hold the length subfield and the payload (padding is never decrypted).
// Results are identical, so the only public witness is the allocation pattern, observed here
// with a counting global allocator (per-thread counters, so parallel tests do not interfere).
use rl2tp::avp::types::RandomVector;
use rl2tp::avp::AVP;
use std::alloc::{GlobalAlloc, Layout, System};
use std::cell::Cell;

thread_local! {
    static CALLS: Cell<usize> = const { Cell::new(0) };
    static BYTES: Cell<usize> = const { Cell::new(0) };
}

struct Counting;

fn record(size: usize) {
    // try_with: never panic inside the allocator during thread teardown
    let _ = CALLS.try_with(|c| c.set(c.get() + 1));
    let _ = BYTES.try_with(|b| b.set(b.get() + size));
}

unsafe impl GlobalAlloc for Counting {
    unsafe fn alloc(&self, layout: Layout) -> *mut u8 {
        record(layout.size());
        System.alloc(layout)
    }
    unsafe fn dealloc(&self, ptr: *mut u8, layout: Layout) {
        System.dealloc(ptr, layout)
    }
    unsafe fn realloc(&self, ptr: *mut u8, layout: Layout, new_size: usize) -> *mut u8 {
        record(new_size);
        System.realloc(ptr, layout, new_size)
    }
}

#[global_allocator]
static GLOBAL: Counting = Counting;

/// (allocator calls, octets requested) made by `f` on this thread
fn measure<T>(f: impl FnOnce() -> T) -> (T, usize, usize) {
    let (c0, b0) = (CALLS.with(|c| c.get()), BYTES.with(|b| b.get()));
    let result = f();
    let (c1, b1) = (CALLS.with(|c| c.get()), BYTES.with(|b| b.get()));
    (result, c1 - c0, b1 - b0)
}

const SECRET: &[u8] = b"a shared secret of some length";

fn rv() -> RandomVector {
    [0x10, 0x20, 0x30, 0x40].into()
}

#[test]
fn one_block_reveal_does_not_touch_the_heap() {
    let avp = AVP::AssignedTunnelId(0xbeef.into());
    let hidden = avp.clone().hide(SECRET, &rv(), &[1, 2, 3, 4, 5], &[0x55; 16]);
    let rv = rv();
    let (result, calls, bytes) = measure(move || hidden.reveal(SECRET, &rv));
    assert_eq!(result, Ok(avp));
    // before the change: one scratch Vec of 2 + |secret| + |rv| octets
    assert_eq!((calls, bytes), (0, 0));
}

#[test]
fn padding_blocks_are_not_decrypted_or_copied() {
    // 2 + 2 + 988 octets of plaintext = 62 blocks, of which only the first one matters
    let avp = AVP::AssignedTunnelId(7.into());
    let hidden = avp.clone().hide(SECRET, &rv(), &[0xcc; 988], &[0x55; 16]);
    let rv = rv();
    let (result, calls, bytes) = measure(move || hidden.reveal(SECRET, &rv));
    assert_eq!(result, Ok(avp));
    assert_eq!((calls, bytes), (0, 0));
}

#[test]
fn multi_block_payload_copies_exactly_the_used_blocks() {
    // 2 + 40 octets of length+payload = 3 blocks used; 100 octets of length padding follow
    let avp = AVP::HostName(vec![b'h'; 40].into());
    let hidden = avp.clone().hide(SECRET, &rv(), &[0xcc; 100], &[0x55; 16]);
    let rv = rv();
    let (result, calls, bytes) = measure(move || hidden.reveal(SECRET, &rv));
    assert_eq!(result, Ok(avp));
    // one 48-octet plaintext copy + the 40-octet Vec inside the returned HostName.
    // before the change: MD5 scratch buffer (36 octets, grown to hold secret + 16) + HostName
    assert_eq!((calls, bytes), (2, 48 + 40));
}
