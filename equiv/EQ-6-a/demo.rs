// Demo for change `a`: when BOTH the version nibble is wrong AND a reserved
// header bit is set, and both checks are enabled, the reserved-bit error is
// now reported (previously: the version error).  Every single-fault input and
// every acceptance decision is unchanged.
use rl2tp::common::{DecodeError, SliceReader};
use rl2tp::{Message, ValidateReserved, ValidateUnused, ValidateVersion, ValidationOptions};

fn opts(reserved: bool, version: bool) -> ValidationOptions {
    ValidationOptions {
        reserved: if reserved {
            ValidateReserved::Yes
        } else {
            ValidateReserved::No
        },
        version: if version {
            ValidateVersion::Yes
        } else {
            ValidateVersion::No
        },
        unused: ValidateUnused::Yes,
    }
}

fn decode(bytes: &[u8], o: ValidationOptions) -> Result<Message<&[u8]>, Vec<DecodeError>> {
    let mut r = SliceReader::from(bytes);
    Message::try_read_validate(&mut r, o)
}

#[test]
fn two_header_faults_report_reserved_bits_first() {
    // Control ZLB, flag word 0x1331: T, L, S set, version nibble 3, reserved bit 0 set.
    let both = [
        0x13, 0x31, 0x00, 0x0c, 0x00, 0x01, 0x00, 0x02, 0x00, 0x03, 0x00, 0x04,
    ];
    assert_eq!(
        decode(&both, opts(true, true)),
        Err(vec![DecodeError::InvalidReservedBits])
    );

    // Single-fault behaviour is as before.
    assert_eq!(
        decode(&both, opts(false, true)),
        Err(vec![DecodeError::InvalidVersion(3)])
    );
    assert_eq!(
        decode(&both, opts(true, false)),
        Err(vec![DecodeError::InvalidReservedBits])
    );
    assert!(decode(&both, opts(false, false)).is_ok());

    let only_version = [
        0x13, 0x30, 0x00, 0x0c, 0x00, 0x01, 0x00, 0x02, 0x00, 0x03, 0x00, 0x04,
    ];
    assert_eq!(
        decode(&only_version, opts(true, true)),
        Err(vec![DecodeError::InvalidVersion(3)])
    );
    let only_reserved = [
        0x13, 0x21, 0x00, 0x0c, 0x00, 0x01, 0x00, 0x02, 0x00, 0x03, 0x00, 0x04,
    ];
    assert_eq!(
        decode(&only_reserved, opts(true, true)),
        Err(vec![DecodeError::InvalidReservedBits])
    );

    // Same for a data message (flag word 0x2030: reserved bit 13, version 3).
    let data = [0x20, 0x30, 0x00, 0x01, 0x00, 0x02, 0xaa];
    assert_eq!(
        decode(&data, opts(true, true)),
        Err(vec![DecodeError::InvalidReservedBits])
    );
}
