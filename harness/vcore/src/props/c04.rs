// C04 — data messages survive encode then decode: ids, Ns/Nr, priority, length, payload; offset pad skipped.
use crate::cx::*;
use crate::gen::*;
use crate::glue::*;
use crate::prop::*;
use crate::spec::*;
use rl2tp::common::{Reader, SliceReader, VecWriter};
use rl2tp::Message;
use serde_json::{json, Value};

pub static DEF: PropDef = PropDef {
    id: "C04",
    title: "Data messages survive encode then decode",
    rule: "G-data tapes: any tunnel/session id, optional Ns/Nr, both priorities, payload of 1..64 octets usually and up to the 65 535-octet total occasionally (70 000 without a Length field), \
Length absent or equal to the true total size, Offset Size absent or n <= |data|-1 (including n = 0 with a 1-octet payload and n = |data|-1). Oracle: Message::write -> \
try_read_validate(Yes,Yes,Yes) = Ok(d[offset := None, data := data[n..]]) with the reader empty afterwards. Part long-lived-thread: payloads of 16 .. 40 MiB through the same oracle, then the same encode repeated on one fresh thread (in one case in four until more than 2^32 octets have passed through the encoder on that thread): identical octets every time, no panic. Non-trivial = at least one of L/S/O/P set; distinct by hash of the encoding.",
    assumptions: &[],
    parts,
    run_tape,
    run_enum: no_enum,
    run_concrete,
    both_profiles: true,
    exhaustive_note: "",
};

fn parts(t: Tier) -> Vec<Part> {
    let a = match t {
        Tier::Quick => 1_200_000,
        Tier::Thorough => 16_000_000,
    };
    // "long-lived-thread": payloads of 16 .. 40 MiB, encoded again and again on one fresh thread - in one case in four until
    // more than 2^32 octets have gone through the encoder on that thread (a per-thread or per-writer octet counter narrower than
    // usize, a size kept in single-precision floating point)
    let b = match t {
        Tier::Quick => 16,
        Tier::Thorough => 128,
    };
    vec![tape("data", a, 300), tape("long-lived-thread", b, 64)]
}

fn check_long_lived(t: &mut Tape, cx: &mut Cx) -> Res {
    let long = t.below(4) == 0;
    let n = (16 << 20) + t.below(24 << 20) + t.below(17);
    let fill = t.byte();
    let mut data = vec![fill; n];
    for i in 0..64.min(n) {
        data[i] = t.byte();
        data[n - 1 - i] = t.byte();
    }
    let ns_nr = if t.chance(50) { Some((t.b_u16(), t.b_u16())) } else { None };
    let offset = match t.below(3) {
        0 => None,
        1 => Some(0),
        _ => Some(t.below(2000) as u16),
    };
    let m = SMsg::Data { prio: t.chance(50), length: None, tunnel: t.b_u16(), session: t.b_u16(), ns_nr, offset, data };
    // the full round-trip oracle once ...
    check(&m, cx)?;
    cx.class("payload of 16 MiB and more");
    // ... then the same encode repeated on one fresh thread: every result identical, no panic
    let rounds = if long { (1usize << 32) / n + 3 } else { 3 };
    let cm = to_crate_msg(&m);
    let exp = encode_message(&m);
    let mut mexp = m.clone();
    if let SMsg::Data { offset: o2, data: d2, .. } = &mut mexp {
        let n = o2.unwrap_or(0) as usize;
        *d2 = d2[n..].to_vec();
        *o2 = None;
    }
    let cexp = to_crate_msg(&mexp);
    cx.stage(STAGE_UNATTRIBUTED); // running out of memory here is not the codec's fault
    let r = std::thread::scope(|sc| {
        let h = std::thread::Builder::new().spawn_scoped(sc, || {
            for i in 0..rounds {
                match guard(|| {
                    let mut w = VecWriter::new();
                    cm.write(&mut w);
                    w.data
                }) {
                    Caught::Ok(e) if e == exp => {
                        // and decoded again (zero-copy): the same value every time
                        let ok = guard(|| {
                            let mut r = SliceReader::from(&e[..]);
                            let d: Result<Message<&[u8]>, _> = Message::try_read_validate(&mut r, copts(STRICT));
                            matches!(&d, Ok(d) if *d == cexp) && r.len() == 0
                        });
                        if !matches!(ok, Caught::Ok(true)) {
                            return Some(format!("decode #{} of the same data message on one thread did not return the message", i + 1));
                        }
                    }
                    Caught::Ok(_) => return Some(format!("encode #{} of the same data message on one thread produced different octets", i + 1)),
                    Caught::Panic(p) => return Some(format!("encode #{} of the same data message on one thread panicked: {}", i + 1, p.short())),
                    Caught::Monitor(_) => return Some("unexpected panic payload".to_string()),
                }
            }
            None
        });
        match h {
            Ok(h) => h.join().map_err(|_| ()),
            Err(_) => Ok(None), // no thread to be had: nothing learnt
        }
    });
    cx.stage(STAGE_SETUP);
    match r {
        Ok(None) => {}
        Ok(Some(why)) => return fail(why, json!({"message": format!("{:?}", short(&m)), "octets_per_encode": n, "encodes": rounds})),
        Err(_) => return fail("the encoding thread panicked", json!({"message": format!("{:?}", short(&m))})),
    }
    cx.evals_n(rounds as u64);
    if long {
        cx.class("more than 2^32 octets encoded on one thread");
    }
    Ok(())
}

const COMBOS: [&str; 16] = [
    "flags ----", "flags L---", "flags -S--", "flags LS--", "flags --O-", "flags L-O-", "flags -SO-", "flags LSO-", "flags ---P", "flags L--P", "flags -S-P", "flags LS-P", "flags --OP", "flags L-OP",
    "flags -SOP", "flags LSOP",
];

pub fn check(m: &SMsg, cx: &mut Cx) -> Res {
    cx.eval();
    let (prio, length, ns_nr, offset, data) = match m {
        SMsg::Data { prio, length, ns_nr, offset, data, .. } => (*prio, *length, *ns_nr, *offset, data),
        _ => return Ok(()),
    };
    let render = || json!({"message": format!("{:?}", short(m))});
    cx.stage(STAGE_ARMED);
    let cm = to_crate_msg(m);
    let e = match guard(|| {
        let mut w = VecWriter::new();
        cm.write(&mut w);
        w.data
    }) {
        Caught::Ok(e) => e,
        Caught::Panic(p) => return fail(format!("encoding a data message panicked: {}", p.short()), render()),
        Caught::Monitor(_) => return fail("unexpected panic payload", render()),
    };
    let mut exp = m.clone();
    if let SMsg::Data { offset: o2, data: d2, .. } = &mut exp {
        *d2 = data[offset.unwrap_or(0) as usize..].to_vec();
        *o2 = None;
    }
    let r = guard(|| {
        let mut r = SliceReader::from(&e[..]);
        let d: Result<Message<&[u8]>, _> = Message::try_read_validate(&mut r, copts(STRICT));
        let native = matches!(&d, Ok(d) if *d == to_crate_msg(&exp));
        (d.map(|d| from_crate_msg(&d)), r.len(), native)
    });
    cx.stage(STAGE_SETUP);
    let renc = || json!({"message": format!("{:?}", short(m)), "encoding": hex_short(&e)});
    match r {
        Caught::Ok((Ok(d), left, native)) => {
            if d != exp {
                let mut v = renc();
                v["decoded"] = json!(format!("{:?}", short(&d)));
                v["expected"] = json!(format!("{:?}", short(&exp)));
                return fail("decode(encode(d)) differs from d[offset := None, data := data[n..]]", v);
            }
            if !native {
                return fail("decoded data message not equal to the expected one under the crate's own PartialEq", renc());
            }
            if left != 0 {
                return fail(format!("{} octets left in the reader after decoding the message's own encoding", left), renc());
            }
        }
        Caught::Ok((Err(errs), _, _)) => {
            let mut v = renc();
            v["errors"] = json!(format!("{:?}", errs));
            return fail("strict decoding of a data message's own encoding was rejected", v);
        }
        Caught::Panic(p) => return fail(format!("decoding a data message's own encoding panicked: {}", p.short()), renc()),
        Caught::Monitor(_) => return fail("unexpected panic payload", renc()),
    }
    let idx = (length.is_some() as usize) | ((ns_nr.is_some() as usize) << 1) | ((offset.is_some() as usize) << 2) | ((prio as usize) << 3);
    cx.class(COMBOS[idx]);
    if idx != 0 {
        cx.nontrivial(&e);
    }
    if let Some(n) = offset {
        if n == 0 {
            cx.class("offset = 0");
        }
        if n as usize == data.len() - 1 {
            cx.class("offset = |data|-1");
        }
    }
    if data.len() == 1 {
        cx.class("payload of 1 octet");
    }
    if data.len() > 4096 {
        cx.class("payload > 4096 octets");
    }
    if e.len() == 65535 {
        cx.class("message of exactly 65535 octets");
    }
    cx.sample(COMBOS[idx], || json!({"encoding": hex_short(&e), "family": COMBOS[idx]}));
    Ok(())
}

/// rendering helper: long payloads abbreviated
pub fn short(m: &SMsg) -> SMsg {
    match m {
        SMsg::Data { prio, length, tunnel, session, ns_nr, offset, data } if data.len() > 64 => {
            let mut d = data[..32].to_vec();
            d.extend_from_slice(format!("...({} octets)", data.len()).as_bytes());
            SMsg::Data { prio: *prio, length: *length, tunnel: *tunnel, session: *session, ns_nr: *ns_nr, offset: *offset, data: d }
        }
        x => x.clone(),
    }
}

fn run_tape(part: &str, tape: &[u8], cx: &mut Cx) -> Res {
    let mut t = Tape::new(tape);
    if part == "long-lived-thread" {
        return check_long_lived(&mut t, cx);
    }
    crate::props::history::prior_ops(&mut t, cx, true);
    check(&gen_data(&mut t), cx)
}

fn run_concrete(case: &Value, cx: &mut Cx) -> Res {
    // {"prio":bool,"length":null|n,"tunnel":n,"session":n,"ns_nr":null|[a,b],"offset":null|n,"data":hex}
    let g = |k: &str| case.get(k).and_then(|x| x.as_u64());
    let data = case.get("data").and_then(|x| x.as_str()).and_then(unhex);
    let data = match data {
        Some(d) if !d.is_empty() => d,
        _ => return fail("bad concrete case", case.clone()),
    };
    let ns_nr = case.get("ns_nr").and_then(|x| x.as_array()).map(|a| (a[0].as_u64().unwrap_or(0) as u16, a[1].as_u64().unwrap_or(0) as u16));
    let m = SMsg::Data {
        prio: case.get("prio").and_then(|x| x.as_bool()).unwrap_or(false),
        length: g("length").map(|x| x as u16),
        tunnel: g("tunnel").unwrap_or(0) as u16,
        session: g("session").unwrap_or(0) as u16,
        ns_nr,
        offset: g("offset").map(|x| x as u16),
        data,
    };
    check(&m, cx)
}
