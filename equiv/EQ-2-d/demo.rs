// Demo for change `d`: numeric payload of DecodeError::InvalidAVPLength when an AVP's
// length field reaches beyond the available octets. The error now carries the 10-bit
// Length field exactly as found on the wire (header included); the unmodified crate
// carries that value minus 6 (the payload length). Acceptance, error variant, number and
// order of errors are unchanged; a Length field below 6 is reported as before.

use rl2tp::avp::AVP;
use rl2tp::common::{DecodeError, SliceReader};
use rl2tp::Message;

#[test]
fn overlong_length_reports_wire_value() {
    // Length field 32 (0x020), one payload octet available
    let bytes = [0x01, 0x20, 0x00, 0x00, 0x00, 0x07, 0x41];
    let mut r = SliceReader::from(&bytes[..]);
    let res = AVP::try_read_greedy(&mut r);
    assert_eq!(res, vec![Err(DecodeError::InvalidAVPLength(32))]);
}

#[test]
fn maximum_length_reports_wire_value() {
    // Length field 1023 (0x3ff), nothing follows the header
    let bytes = [0xc1, 0xff, 0x00, 0x00, 0x00, 0x07];
    let mut r = SliceReader::from(&bytes[..]);
    let res = AVP::try_read_greedy(&mut r);
    assert_eq!(res, vec![Err(DecodeError::InvalidAVPLength(1023))]);
    assert_eq!(
        res[0].as_ref().unwrap_err().to_string(),
        "AVP with invalid length (1023)"
    );
}

#[test]
fn overlong_length_in_control_message() {
    let avp = [0x01, 0x20, 0x00, 0x00, 0x00, 0x07, 0x41];
    let total = 12 + 8 + avp.len();
    let mut msg = vec![
        0x13, 0x20, // flags: control, length, Ns/Nr, version 2 (crate bit numbering)
        0x00, total as u8, // length
        0x00, 0x01, 0x00, 0x02, 0x00, 0x03, 0x00, 0x04, // tunnel, session, Ns, Nr
        0x01, 0x08, 0x00, 0x00, 0x00, 0x00, 0x00, 0x06, // Message Type = Hello
    ];
    msg.extend_from_slice(&avp);
    let mut r = SliceReader::from(&msg);
    let res = Message::<&[u8]>::try_read(&mut r);
    assert_eq!(res, Err(vec![DecodeError::InvalidAVPLength(32)]));
}

#[test]
fn short_length_unchanged() {
    let bytes = [0x01, 0x03, 0x00, 0x00, 0x00, 0x07];
    let mut r = SliceReader::from(&bytes[..]);
    let res = AVP::try_read_greedy(&mut r);
    assert_eq!(res, vec![Err(DecodeError::InvalidAVPLength(3))]);
}
