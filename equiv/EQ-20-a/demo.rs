// Demo for change `a`: fixed-width header fields are fetched with fewer, wider reads.
//
// A contract-honouring logging reader records every call the decoder makes.
// With the change the AVP header is fetched as u16 + u32 (no single-octet reads) and the
// control header as u16 + u64; without it the AVP header needs two u8 + two u16 reads and
// the control header five u16 reads.  The decoded value is the same either way.

use rl2tp::avp::types::{AssignedTunnelId, HostName, MessageType};
use rl2tp::avp::AVP;
use rl2tp::common::{Reader, SliceReader, VecWriter};
use rl2tp::{ControlMessage, Message};
use std::cell::RefCell;
use std::rc::Rc;

type Log = Rc<RefCell<Vec<String>>>;

struct LogReader {
    data: Rc<Vec<u8>>,
    pos: usize,
    end: usize,
    log: Log,
}

impl LogReader {
    fn new(data: Vec<u8>, log: Log) -> Self {
        let end = data.len();
        Self {
            data: Rc::new(data),
            pos: 0,
            end,
            log,
        }
    }
    fn take(&mut self, n: usize) -> &[u8] {
        assert!(n <= self.end - self.pos, "decoder violated reader contract");
        let s = &self.data[self.pos..self.pos + n];
        self.pos += n;
        s
    }
}

impl Reader<Vec<u8>> for LogReader {
    fn is_empty(&self) -> bool {
        self.pos == self.end
    }
    fn len(&self) -> usize {
        self.end - self.pos
    }
    fn subreader(&mut self, length: usize) -> Self {
        assert!(length <= self.len());
        self.log.borrow_mut().push(format!("sub({length})"));
        let r = Self {
            data: self.data.clone(),
            pos: self.pos,
            end: self.pos + length,
            log: self.log.clone(),
        };
        self.pos += length;
        r
    }
    fn bytes(&mut self, length: usize) -> Option<Vec<u8>> {
        self.log.borrow_mut().push(format!("bytes({length})"));
        if length > self.len() {
            return None;
        }
        Some(self.take(length).to_vec())
    }
    unsafe fn read_u8_unchecked(&mut self) -> u8 {
        self.log.borrow_mut().push("u8".to_owned());
        self.take(1)[0]
    }
    unsafe fn read_u16_be_unchecked(&mut self) -> u16 {
        self.log.borrow_mut().push("u16".to_owned());
        u16::from_be_bytes(self.take(2).try_into().unwrap())
    }
    unsafe fn read_u32_be_unchecked(&mut self) -> u32 {
        self.log.borrow_mut().push("u32".to_owned());
        u32::from_be_bytes(self.take(4).try_into().unwrap())
    }
    unsafe fn read_u64_be_unchecked(&mut self) -> u64 {
        self.log.borrow_mut().push("u64".to_owned());
        u64::from_be_bytes(self.take(8).try_into().unwrap())
    }
    fn skip_bytes(&mut self, length: usize) {
        self.log.borrow_mut().push(format!("skip({length})"));
        self.take(length);
    }
}

fn sample() -> (ControlMessage, Vec<u8>) {
    let msg = ControlMessage {
        length: 0,
        tunnel_id: 0x1234,
        session_id: 0x5678,
        ns: 0x9abc,
        nr: 0xdef0,
        avps: vec![
            AVP::MessageType(MessageType::StartControlConnectionRequest),
            AVP::AssignedTunnelId(AssignedTunnelId { value: 0xbeef }),
            AVP::HostName(HostName {
                value: b"lac.example".to_vec(),
            }),
        ],
    };
    let mut w = VecWriter::new();
    Message::<Vec<u8>>::Control(msg.clone()).write(&mut w);
    (msg, w.data)
}

#[test]
fn header_fields_are_fetched_with_wide_reads() {
    let (msg, bytes) = sample();

    // Reference: the crate's own SliceReader
    let mut sr = SliceReader::from(&bytes[..]);
    let reference = match Message::try_read(&mut sr).unwrap() {
        Message::Control(c) => c,
        Message::Data(_) => panic!("expected control message"),
    };
    assert_eq!(reference.avps, msg.avps);
    assert_eq!(reference.length as usize, bytes.len());

    // Logging reader
    let log: Log = Default::default();
    let mut lr = LogReader::new(bytes.clone(), log.clone());
    let decoded = match Message::<Vec<u8>>::try_read(&mut lr).unwrap() {
        Message::Control(c) => c,
        Message::Data(_) => panic!("expected control message"),
    };

    // Same value for both readers, whole message consumed
    assert_eq!(decoded, reference);
    assert_eq!(
        (decoded.tunnel_id, decoded.session_id, decoded.ns, decoded.nr),
        (0x1234, 0x5678, 0x9abc, 0xdef0)
    );
    assert!(lr.is_empty());

    let log = log.borrow();
    println!("{log:?}");

    // No AVP in this message has a single-octet field, so with the coalesced header read
    // the decoder never asks for a single octet.
    assert!(
        !log.iter().any(|c| c == "u8"),
        "AVP header still read octet by octet: {log:?}"
    );
    // flags (u16), length (u16), then tunnel/session/ns/nr in one u64
    assert_eq!(&log[..4], &["u16", "u16", "u64", "sub(33)"]);
    // every AVP header is u16 followed by u32
    assert_eq!(&log[4..6], &["u16", "u32"]);
    assert_eq!(log.iter().filter(|c| *c == "u32").count(), 3);
    assert_eq!(log.iter().filter(|c| *c == "u64").count(), 1);
}
