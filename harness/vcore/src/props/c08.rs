// C08 — decoding consumes exactly the declared length; bytes beyond it have no influence.
use crate::cx::*;
use crate::gen::*;
use crate::glue::*;
use crate::prop::*;
use crate::spec::*;
use rl2tp::common::{Reader, SliceReader};
use rl2tp::Message;
use serde_json::{json, Value};

pub static DEF: PropDef = PropDef {
    id: "C08",
    title: "Decoding consumes exactly the declared length",
    rule: "(suffix) accepted messages with a declared length - G-val control encodings, G-data encodings with the L bit, G-noncanon encodings - followed by a suffix of 0..64 octets \
(random, another message, a lone AVP record): decode(b ++ s) = decode(b) and exactly |s| octets remain. (sequence) 1..6 messages encoded back to back (a data message without Length only last) and decoded \
one after the other from one SliceReader yield m1..mk and leave the reader empty. (records) 1..8 well-delimited G-rec AVP records, good and bad: decode_avps(r1 ++ .. ++ rk) = decode_avps(r1) ++ .. ++ decode_avps(rk). \
Non-trivial = non-empty suffix, or k >= 2; distinct by hash of the concatenated input.",
    assumptions: &[],
    parts,
    run_tape,
    run_enum,
    run_concrete,
    both_profiles: true,
    exhaustive_note: "",
};

fn parts(t: Tier) -> Vec<Part> {
    let (a, b, c) = match t {
        Tier::Quick => (750_000, 450_000, 900_000),
        Tier::Thorough => (8_000_000, 5_000_000, 10_000_000),
    };
    vec![tape("suffix", a, 1500), tape("sequence", b, 2500), tape("records", c, 900), enumerate("huge-buffer", 8)]
}

fn gen_suffix(t: &mut Tape, cx: &mut Cx) -> Vec<u8> {
    if t.chance(1) {
        // long enough for message + suffix to reach 65 536 octets and a little more
        cx.class("suffix: about 64 KiB");
        let n = 65536 - t.below(1200) + t.below(40);
        return (0..n).map(|i| (i as u8) ^ 0x99).collect();
    }
    match t.below(5) {
        0 => {
            cx.class("suffix: empty");
            Vec::new()
        }
        1 => {
            cx.class("suffix: another message");
            let m = if t.chance(50) { gen_control_k(t, 2) } else { gen_data_small(t) };
            let mut e = encode_message(&m);
            e.truncate(64.max(e.len().min(200)));
            e
        }
        2 => {
            cx.class("suffix: a lone AVP record");
            let mut w = Vec::new();
            gen_record(t, &mut w);
            w
        }
        _ => {
            cx.class("suffix: random octets");
            let n = 1 + t.below(64);
            t.raw(n)
        }
    }
}

fn check_suffix(t: &mut Tape, cx: &mut Cx) -> Res {
    cx.eval();
    let (b, o) = match t.below(4) {
        0 => (encode_message(&gen_control(t)), STRICT),
        1 => {
            let m = with_exact_length(gen_data_small(t));
            (encode_message(&m), STRICT)
        }
        _ => {
            let (b, o, v, _) = encode_noncanon(t);
            if let SMsg::Data { length: None, .. } = v {
                return Ok(()); // no declared length: not in this property's domain
            }
            (b, o)
        }
    };
    let s = gen_suffix(t, cx);
    let render = || json!({"message": hex_short(&b), "suffix": hex(&s), "opts": opts_str(o)});
    cx.stage(STAGE_UNATTRIBUTED);
    let (r0, consumed) = match crate_decode(&b, o) {
        Caught::Ok(Ok((m, n))) => (m, n),
        Caught::Ok(Err(e)) => return fail(format!("harness: a message built to be accepted was rejected: {:?} (C03/C05 territory, reported here because the case cannot proceed)", e), render()),
        _ => return fail("decoding the message alone panicked", render()),
    };
    // declared length from the wire
    let declared = ((b[2] as usize) << 8) | b[3] as usize;
    if consumed != declared {
        return fail(format!("decoding consumed {} octets but the length field declares {}", consumed, declared), render());
    }
    let mut b2 = b[..declared].to_vec();
    b2.extend_from_slice(&s);
    cx.stage(STAGE_ARMED);
    let r = crate_decode(&b2, o);
    cx.stage(STAGE_SETUP);
    match r {
        Caught::Ok(Ok((m, n))) => {
            if m != r0 {
                let mut v = render();
                v["alone"] = json!(format!("{:?}", crate::props::c04::short(&r0)));
                v["with_suffix"] = json!(format!("{:?}", crate::props::c04::short(&m)));
                return fail("octets after the declared end changed the decoded value", v);
            }
            if n != declared {
                return fail(format!("with a suffix the decoder consumed {} octets instead of the declared {} ({} left, suffix has {})", n, declared, b2.len() - n, s.len()), render());
            }
        }
        Caught::Ok(Err(e)) => return fail(format!("octets after the declared end made an accepted message rejected: {:?}", e), render()),
        Caught::Panic(p) => return fail(format!("decoding with a suffix panicked: {}", p.short()), render()),
        Caught::Monitor(_) => return fail("unexpected panic payload", render()),
    }
    if !s.is_empty() {
        cx.nontrivial(&b2);
    }
    cx.class(match r0 {
        SMsg::Control { .. } => "suffix case: control message",
        SMsg::Data { .. } => "suffix case: data message with Length",
    });
    cx.sample("suffix", || json!({"message": hex_short(&b[..declared]), "suffix": hex_short(&s), "family": "suffix"}));
    Ok(())
}

fn check_sequence(t: &mut Tape, cx: &mut Cx) -> Res {
    cx.eval();
    let k = 1 + t.below(6);
    let mut msgs: Vec<SMsg> = Vec::new();
    for i in 0..k {
        let last = i + 1 == k;
        let m = match t.below(3) {
            0 => {
                let m = gen_data_small(t);
                if last {
                    m
                } else {
                    with_exact_length(m)
                }
            }
            _ => {
                let n = t.below(5);
                gen_control_k(t, n)
            }
        };
        msgs.push(m);
    }
    let mut wire = Vec::new();
    let mut expect: Vec<SMsg> = Vec::new();
    for m in &msgs {
        let e = encode_message(m);
        let mut x = m.clone();
        match &mut x {
            SMsg::Control { length, .. } => *length = e.len() as u16,
            SMsg::Data { offset, data, .. } => {
                let n = offset.unwrap_or(0) as usize;
                *data = data[n..].to_vec();
                *offset = None;
            }
        }
        expect.push(x);
        wire.extend_from_slice(&e);
    }
    // the property speaks of encode(m1) ++ .. ++ encode(mk): in half of the cases the stream is what the crate's own encoder
    // appends to one writer (a Length field that is wrong there desynchronises the stream), otherwise the reference encoding
    if t.chance(50) {
        let r = guard(|| {
            let mut w = rl2tp::common::VecWriter::new();
            for m in &msgs {
                to_crate_msg(m).write(&mut w);
            }
            w.data
        });
        match r {
            Caught::Ok(w) => {
                wire = w;
                cx.class("stream produced by the crate's encoder into one writer");
            }
            _ => return fail("encoding the messages of a sequence panicked", json!({"messages": msgs.len()})),
        }
    }
    let render = || json!({"stream": hex_short(&wire), "messages": msgs.iter().map(|m| format!("{:?}", crate::props::c04::short(m))).collect::<Vec<_>>()});
    cx.stage(STAGE_ARMED);
    let r = guard(|| {
        let mut rd = SliceReader::from(&wire[..]);
        let mut out = Vec::new();
        for _ in 0..k {
            let m: Result<Message<&[u8]>, _> = Message::try_read_validate(&mut rd, copts(STRICT));
            match m {
                Ok(m) => out.push(Ok(from_crate_msg(&m))),
                Err(e) => {
                    out.push(Err(e));
                    break;
                }
            }
        }
        (out, rd.len())
    });
    cx.stage(STAGE_SETUP);
    match r {
        Caught::Ok((out, left)) => {
            for (i, (x, y)) in out.iter().zip(expect.iter()).enumerate() {
                match x {
                    Ok(m) if m == y => {}
                    Ok(m) => {
                        let mut v = render();
                        v["decoded"] = json!(format!("{:?}", crate::props::c04::short(m)));
                        return fail(format!("message #{} of the back-to-back stream decoded to a different value", i), v);
                    }
                    Err(e) => return fail(format!("message #{} of the back-to-back stream was rejected: {:?}", i, e), render()),
                }
            }
            if out.len() != k {
                return fail("fewer messages decoded than were encoded", render());
            }
            if left != 0 {
                return fail(format!("{} octets left after decoding all {} messages", left, k), render());
            }
        }
        Caught::Panic(p) => return fail(format!("decoding a back-to-back stream panicked: {}", p.short()), render()),
        Caught::Monitor(_) => return fail("unexpected panic payload", render()),
    }
    if k >= 2 {
        cx.nontrivial(&wire);
        cx.class("sequence of >= 2 messages");
        if msgs[..k - 1].iter().any(|m| matches!(m, SMsg::Data { length: Some(_), .. })) {
            cx.class("sequence with a data message with Length before another message");
        }
    } else {
        cx.class("sequence of 1 message");
    }
    cx.sample("sequence", || json!({"stream": hex_short(&wire), "messages": k, "family": "sequence"}));
    Ok(())
}

fn check_records(t: &mut Tape, cx: &mut Cx) -> Res {
    cx.eval();
    let k = 1 + t.below(8);
    let mut recs: Vec<Vec<u8>> = Vec::new();
    for _ in 0..k {
        let mut w = Vec::new();
        gen_record_opt(t, &mut w, false);
        recs.push(w);
    }
    let all: Vec<u8> = recs.iter().flatten().copied().collect();
    let render = || json!({"records": recs.iter().map(|r| hex_short(r)).collect::<Vec<_>>()});
    cx.stage(STAGE_ARMED);
    let whole = match crate_decode_avps(&all) {
        Caught::Ok((v, left)) => {
            if left != 0 {
                return fail(format!("{} octets left after decoding well-delimited records", left), render());
            }
            v
        }
        Caught::Panic(p) => return fail(format!("decoding the concatenation panicked: {}", p.short()), render()),
        Caught::Monitor(_) => return fail("unexpected panic payload", render()),
    };
    let mut parts = Vec::new();
    let mut bad_before_good = false;
    let mut seen_bad = false;
    for r in &recs {
        match crate_decode_avps(r) {
            Caught::Ok((v, _)) => {
                if v.len() != 1 {
                    return fail(format!("a single well-delimited record decoded to {} elements", v.len()), render());
                }
                if v[0].is_err() {
                    seen_bad = true;
                } else if seen_bad {
                    bad_before_good = true;
                }
                parts.extend(v);
            }
            Caught::Panic(p) => return fail(format!("decoding a single record panicked: {}", p.short()), render()),
            Caught::Monitor(_) => return fail("unexpected panic payload", render()),
        }
    }
    cx.stage(STAGE_SETUP);
    if whole != parts {
        let mut v = render();
        v["concatenated"] = json!(format!("{:?}", whole));
        v["individually"] = json!(format!("{:?}", parts));
        return fail("decode_avps(r1 ++ .. ++ rk) differs from decode_avps(r1) ++ .. ++ decode_avps(rk)", v);
    }
    if k >= 2 {
        cx.nontrivial(&all);
        cx.class("record list of >= 2 records");
    } else {
        cx.class("record list of 1 record");
    }
    if bad_before_good {
        cx.class("record list with a bad record before a good one");
    }
    cx.sample("records", || json!({"records": recs.iter().map(|r| hex_short(r)).collect::<Vec<_>>(), "family": "records"}));
    Ok(())
}

fn run_tape(part: &str, tape: &[u8], cx: &mut Cx) -> Res {
    let mut t = Tape::new(tape);
    match part {
        "suffix" => check_suffix(&mut t, cx),
        "sequence" => check_sequence(&mut t, cx),
        _ => check_records(&mut t, cx),
    }
}

/// a valid message followed by zero octets up to 2^32 + a few: the buffer is allocated zeroed and only its head is ever
/// touched, so it costs address space, not memory. 32-bit arithmetic on the remaining length wraps here.
fn run_enum(_part: &str, index: u64, cx: &mut Cx) -> Res {
    cx.eval();
    let msg: Vec<u8> = match index % 4 {
        0 => vec![0x13, 0x20, 0, 20, 0, 1, 0, 2, 0, 3, 0, 4, 0x01, 0x08, 0, 0, 0, 0, 0, 6],
        1 => vec![0x02, 0x20, 0, 12, 0, 7, 0, 9, 0xde, 0xad, 0xbe, 0xef],
        2 => vec![0x52, 0x20, 0, 19, 0, 7, 0, 9, 0, 1, 0, 2, 0, 2, 0xaa, 0xbb, 1, 2, 3],
        _ => vec![0x13, 0x20, 0, 12, 0, 1, 0, 2, 0, 3, 0, 4],
    };
    let total: usize = (1usize << 32) + [8usize, 12, 0, 1][(index / 4) as usize % 4] + if index >= 4 { msg.len() } else { 0 };
    // anonymous, lazily zeroed mapping; if the address space is not available the case is skipped, not failed
    let map = unsafe { libc::mmap(std::ptr::null_mut(), total, libc::PROT_READ | libc::PROT_WRITE, libc::MAP_PRIVATE | libc::MAP_ANONYMOUS | libc::MAP_NORESERVE, -1, 0) };
    if map == libc::MAP_FAILED {
        cx.class("huge buffer: address space not available (case skipped)");
        return Ok(());
    }
    struct Unmap(*mut libc::c_void, usize);
    impl Drop for Unmap {
        fn drop(&mut self) {
            unsafe {
                libc::munmap(self.0, self.1);
            }
        }
    }
    let _guard = Unmap(map, total);
    let big: &mut [u8] = unsafe { std::slice::from_raw_parts_mut(map as *mut u8, total) };
    big[..msg.len()].copy_from_slice(&msg);
    let big: &[u8] = big;
    cx.stage(STAGE_ARMED);
    let r = guard(|| {
        let alone = {
            let mut rd = SliceReader::from(&msg[..]);
            let m: Result<Message<&[u8]>, _> = Message::try_read_validate(&mut rd, copts(STRICT));
            m.map(|m| from_crate_msg(&m))
        };
        let mut rd = SliceReader::from(big);
        let m: Result<Message<&[u8]>, _> = Message::try_read_validate(&mut rd, copts(STRICT));
        let left = rd.len();
        (alone, m.map(|m| from_crate_msg(&m)), left)
    });
    cx.stage(STAGE_SETUP);
    match r {
        Caught::Ok((alone, with, left)) => {
            if alone.is_err() || alone != with {
                return fail(format!("a message at the head of a {}-octet buffer decodes to {:?}, alone to {:?}", total, with, alone), json!({"message": hex(&msg), "buffer_octets": total}));
            }
            if left != total - msg.len() {
                return fail(format!("{} octets left of a {}-octet buffer after a {}-octet message", left, total, msg.len()), json!({"message": hex(&msg), "buffer_octets": total}));
            }
        }
        _ => return fail("decoding at the head of a 4 GiB buffer panicked", json!({"message": hex(&msg), "buffer_octets": total})),
    }
    cx.nontrivial(&(index, total));
    cx.class("message at the head of a buffer of 2^32 octets and a few more");
    cx.sample("huge-buffer", || json!({"message": hex(&msg), "buffer_octets": total, "family": "huge-buffer"}));
    Ok(())
}

fn run_concrete(case: &Value, _cx: &mut Cx) -> Res {
    fail("C08 has no concrete case format (replay the tape)", case.clone())
}
