// Demo for change `d`: ControlMessage::write no longer writes two dummy Length octets that are
// patched once at the very end. It writes the ZLB length (12) as a regular big-endian u16 and then
// refreshes the Length field after every AVP, so a ZLB needs no overwrite at all and a message
// with k AVPs issues k overwrites (all at the Length field of the message being encoded).
//
// PASSES with the change, FAILS without it.

use rl2tp::avp::types::{AssignedTunnelId, MessageType, ReceiveWindowSize};
use rl2tp::avp::AVP;
use rl2tp::common::Writer;
use rl2tp::{ControlMessage, Message};

#[derive(Debug, Clone, PartialEq, Eq)]
enum Call {
    Bytes(Vec<u8>),
    BytesAt(Vec<u8>, usize),
    U8(u8),
    U16(u16),
    U32(u32),
    U64(u64),
}

/// A conforming writer (plain byte vector) that additionally records every mutating call.
#[derive(Default)]
struct RecordingWriter {
    data: Vec<u8>,
    calls: Vec<Call>,
}

impl Writer for RecordingWriter {
    fn is_empty(&self) -> bool {
        self.data.is_empty()
    }
    fn len(&self) -> usize {
        self.data.len()
    }
    fn write_bytes(&mut self, bytes: &[u8]) {
        self.calls.push(Call::Bytes(bytes.to_vec()));
        self.data.extend_from_slice(bytes);
    }
    fn write_bytes_at(&mut self, bytes: &[u8], offset: usize) {
        self.calls.push(Call::BytesAt(bytes.to_vec(), offset));
        assert!(offset + bytes.len() <= self.data.len());
        self.data[offset..offset + bytes.len()].copy_from_slice(bytes);
    }
    fn write_u8(&mut self, value: u8) {
        self.calls.push(Call::U8(value));
        self.data.push(value);
    }
    fn write_u16_be(&mut self, value: u16) {
        self.calls.push(Call::U16(value));
        self.data.extend_from_slice(&value.to_be_bytes());
    }
    fn write_u32_be(&mut self, value: u32) {
        self.calls.push(Call::U32(value));
        self.data.extend_from_slice(&value.to_be_bytes());
    }
    fn write_u64_be(&mut self, value: u64) {
        self.calls.push(Call::U64(value));
        self.data.extend_from_slice(&value.to_be_bytes());
    }
}

fn message(avps: Vec<AVP>) -> Message<Vec<u8>> {
    Message::Control(ControlMessage {
        length: 0,
        tunnel_id: 0x0102,
        session_id: 0x0304,
        ns: 0x0506,
        nr: 0x0708,
        avps,
    })
}

#[test]
fn zlb_is_written_without_any_overwrite() {
    let mut w = RecordingWriter::default();
    w.data.extend_from_slice(&[0xee; 5]); // content that is already there
    message(vec![]).write(&mut w);

    // Same octets as ever ...
    let mut expected = vec![0xee; 5];
    expected.extend_from_slice(&[0x13, 0x20, 0, 12, 1, 2, 3, 4, 5, 6, 7, 8]);
    assert_eq!(w.data, expected);

    // ... written strictly front to back.
    assert_eq!(
        w.calls,
        vec![
            Call::U16(0x1320),
            Call::U16(12),
            Call::U16(0x0102),
            Call::U16(0x0304),
            Call::U16(0x0506),
            Call::U16(0x0708),
        ]
    );
}

#[test]
fn length_field_is_refreshed_after_every_avp() {
    let mut w = RecordingWriter::default();
    w.data.extend_from_slice(&[0xee; 5]); // content that is already there
    message(vec![
        AVP::MessageType(MessageType::Hello),
        AVP::ReceiveWindowSize(ReceiveWindowSize::from(4)),
        AVP::AssignedTunnelId(AssignedTunnelId::from(9)),
    ])
    .write(&mut w);

    // Same octets as ever ...
    let mut expected = vec![0xee; 5];
    expected.extend_from_slice(&[0x13, 0x20, 0, 36, 1, 2, 3, 4, 5, 6, 7, 8]);
    expected.extend_from_slice(&[0x01, 8, 0, 0, 0, 0, 0, 6]);
    expected.extend_from_slice(&[0x01, 8, 0, 0, 0, 10, 0, 4]);
    expected.extend_from_slice(&[0x01, 8, 0, 0, 0, 9, 0, 9]);
    assert_eq!(w.data, expected);

    // ... but the message Length field (offset 5 + 2) was rewritten once per AVP with the
    // running total; the AVP-level overwrites (at offsets 17, 25, 33) are the usual ones.
    let message_level: Vec<&Call> = w
        .calls
        .iter()
        .filter(|c| matches!(c, Call::BytesAt(_, 7)))
        .collect();
    assert_eq!(
        message_level,
        vec![
            &Call::BytesAt(vec![0, 20], 7),
            &Call::BytesAt(vec![0, 28], 7),
            &Call::BytesAt(vec![0, 36], 7),
        ]
    );
    // The Length field is first written as a plain u16 holding the header-only length.
    assert_eq!(w.calls[1], Call::U16(12));
}
