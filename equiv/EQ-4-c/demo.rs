// Demo for change `c`: when AVP::try_read_greedy meets a hidden AVP it now delimits the value
// with reader.subreader(n) and takes the sub-reader's whole content with bytes(n), exactly as it
// does for regular AVPs, instead of calling bytes(n) on the outer reader. The decoded result is
// identical; only the sequence of Reader trait calls differs, which this demo observes with a
// logging Reader implementation.

use rl2tp::avp::types::RandomVector;
use rl2tp::avp::AVP;
use rl2tp::common::{Reader, SliceReader, VecWriter};
use std::cell::RefCell;
use std::rc::Rc;

struct LogReader {
    data: Vec<u8>,
    pos: usize,
    depth: usize,
    log: Rc<RefCell<Vec<String>>>,
}

impl LogReader {
    fn new(data: &[u8], log: Rc<RefCell<Vec<String>>>) -> Self {
        Self {
            data: data.to_vec(),
            pos: 0,
            depth: 0,
            log,
        }
    }
    fn note(&self, what: String) {
        self.log.borrow_mut().push(format!("d{}:{}", self.depth, what));
    }
    fn take(&mut self, n: usize) -> &[u8] {
        assert!(n <= self.data.len() - self.pos, "read outside input");
        let r = &self.data[self.pos..self.pos + n];
        self.pos += n;
        r
    }
}

impl Reader<Vec<u8>> for LogReader {
    fn is_empty(&self) -> bool {
        self.len() == 0
    }
    fn len(&self) -> usize {
        self.data.len() - self.pos
    }
    fn subreader(&mut self, length: usize) -> Self {
        self.note(format!("subreader({length})"));
        let data = self.take(length).to_vec();
        Self {
            data,
            pos: 0,
            depth: self.depth + 1,
            log: self.log.clone(),
        }
    }
    fn bytes(&mut self, length: usize) -> Option<Vec<u8>> {
        self.note(format!("bytes({length})"));
        if length > self.len() {
            return None;
        }
        Some(self.take(length).to_vec())
    }
    unsafe fn read_u8_unchecked(&mut self) -> u8 {
        self.note("u8".to_owned());
        self.take(1)[0]
    }
    unsafe fn read_u16_be_unchecked(&mut self) -> u16 {
        self.note("u16".to_owned());
        u16::from_be_bytes(self.take(2).try_into().unwrap())
    }
    unsafe fn read_u32_be_unchecked(&mut self) -> u32 {
        self.note("u32".to_owned());
        u32::from_be_bytes(self.take(4).try_into().unwrap())
    }
    unsafe fn read_u64_be_unchecked(&mut self) -> u64 {
        self.note("u64".to_owned());
        u64::from_be_bytes(self.take(8).try_into().unwrap())
    }
    fn skip_bytes(&mut self, length: usize) {
        self.note(format!("skip({length})"));
        self.take(length);
    }
}

fn wire() -> Vec<u8> {
    let rv: RandomVector = [1, 2, 3, 4].into();
    let hidden = AVP::HostName(b"host".to_vec().into()).hide(b"secret", &rv, &[], &[9u8; 16]);
    let mut w = VecWriter::new();
    hidden.write(&mut w);
    // a regular AVP after it, to show that decoding carries on at the right place
    AVP::FirmwareRevision(0x1234.into()).write(&mut w);
    w.data
}

#[test]
fn hidden_value_is_read_through_a_subreader() {
    let wire = wire();
    let log = Rc::new(RefCell::new(Vec::new()));
    let mut r = LogReader::new(&wire, log.clone());
    let got = AVP::try_read_greedy(&mut r);
    assert_eq!(r.len(), 0);

    // Same result as with SliceReader.
    let mut s = SliceReader::from(&wire[..]);
    let want = AVP::try_read_greedy(&mut s);
    assert_eq!(got, want);
    assert_eq!(got.len(), 2);
    assert!(matches!(got[0], Ok(AVP::Hidden(_))));
    assert!(matches!(got[1], Ok(AVP::FirmwareRevision(_))));

    // Call sequence for the hidden AVP: header reads, then subreader(16) on the outer reader and
    // bytes(16) on the sub-reader.
    let log = log.borrow();
    assert_eq!(
        &log[..6],
        &[
            "d0:u8",
            "d0:u8",
            "d0:u16",
            "d0:u16",
            "d0:subreader(16)",
            "d1:bytes(16)"
        ],
        "full log: {log:?}"
    );
    assert!(!log.iter().any(|l| l == "d0:bytes(16)"));
}
