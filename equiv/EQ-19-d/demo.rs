// Demo for change `d`: ControlMessage::try_read validates the Length field right after
// reading it, before it fetches tunnel id, session id, Ns and Nr. The error reported is the
// same as before, but on such a REJECTED message the reader is left eight octets earlier
// (only flags + Length consumed instead of the whole 12-octet header). Accepted messages
// consume exactly what they did before.
use rl2tp::common::{DecodeError, Reader, SliceReader};
use rl2tp::{ControlMessage, Message};

#[test]
fn short_length_is_rejected_before_ids_are_read() {
    // Length = 5 (< 12)
    let input = [0x13u8, 0x20, 0x00, 0x05, 0, 1, 0, 2, 0, 3, 0, 4, 0xaa, 0xbb];
    let mut r = SliceReader::from(&input);
    let m = Message::try_read(&mut r);
    assert_eq!(m, Err(vec![DecodeError::IncompleteControlMessageHeader]));
    // flags + length consumed only (before the change: 2 octets left)
    assert_eq!(r.len(), 10);
}

#[test]
fn long_length_is_rejected_before_ids_are_read() {
    // Length = 15 but only 14 octets present
    let input = [0x13u8, 0x20, 0x00, 0x0f, 0, 1, 0, 2, 0, 3, 0, 4, 0xaa, 0xbb];
    let mut r = SliceReader::from(&input);
    let m = Message::try_read(&mut r);
    assert_eq!(m, Err(vec![DecodeError::IncompleteControlMessagePayload]));
    assert_eq!(r.len(), 10);
}

#[test]
fn boundaries_and_accepted_messages_unchanged() {
    // Length = 12 with exactly 12 octets: accepted, everything consumed
    let exact = [0x13u8, 0x20, 0x00, 0x0c, 0, 1, 0, 2, 0, 3, 0, 4];
    let mut r = SliceReader::from(&exact);
    assert_eq!(
        Message::try_read(&mut r),
        Ok(Message::Control(ControlMessage {
            length: 12, tunnel_id: 1, session_id: 2, ns: 3, nr: 4, avps: vec![],
        }))
    );
    assert_eq!(r.len(), 0);
    // Length = 12 followed by two more octets: accepted, two octets left
    let more = [0x13u8, 0x20, 0x00, 0x0c, 0, 1, 0, 2, 0, 3, 0, 4, 0xaa, 0xbb];
    let mut r = SliceReader::from(&more);
    assert!(Message::try_read(&mut r).is_ok());
    assert_eq!(r.len(), 2);
    // Length = 13 with 12 octets: payload incomplete; Length = 11: header incomplete
    let p = [0x13u8, 0x20, 0x00, 0x0d, 0, 1, 0, 2, 0, 3, 0, 4];
    assert_eq!(
        Message::try_read(&mut SliceReader::from(&p)),
        Err(vec![DecodeError::IncompleteControlMessagePayload])
    );
    let h = [0x13u8, 0x20, 0x00, 0x0b, 0, 1, 0, 2, 0, 3, 0, 4];
    assert_eq!(
        Message::try_read(&mut SliceReader::from(&h)),
        Err(vec![DecodeError::IncompleteControlMessageHeader])
    );
    // fewer than 10 octets after the flags: still the header error, nothing more consumed
    let s = [0x13u8, 0x20, 0xff, 0xff, 0, 1, 0, 2, 0, 3, 0];
    let mut r = SliceReader::from(&s);
    assert_eq!(Message::try_read(&mut r), Err(vec![DecodeError::IncompleteControlMessageHeader]));
    assert_eq!(r.len(), 9);
}
