// Tape-driven generators: every case is a pure function of a byte tape. An exhausted tape
// yields zeros and choice 0 is always the simplest alternative, so shrinking the tape
// (dropping chunks, lowering octets) shrinks the case.
use crate::spec::*;

pub struct Tape<'a> {
    d: &'a [u8],
    p: usize,
}
impl<'a> Tape<'a> {
    pub fn new(d: &'a [u8]) -> Self {
        Tape { d, p: 0 }
    }
    pub fn byte(&mut self) -> u8 {
        let b = self.d.get(self.p).copied().unwrap_or(0);
        self.p += 1;
        b
    }
    pub fn u16(&mut self) -> u16 {
        ((self.byte() as u16) << 8) | self.byte() as u16
    }
    pub fn u32(&mut self) -> u32 {
        ((self.u16() as u32) << 16) | self.u16() as u32
    }
    pub fn below(&mut self, n: usize) -> usize {
        if n <= 1 {
            return 0;
        }
        if n <= 256 {
            (self.byte() as usize * n) >> 8
        } else {
            (self.u16() as usize * n) >> 16
        }
    }
    pub fn chance(&mut self, pct: usize) -> bool {
        // choice 0 (false) is the simple alternative
        self.below(100) >= 100 - pct
    }
    pub fn b_u16(&mut self) -> u16 {
        match self.below(8) {
            0 => 0,
            1 => self.byte() as u16,
            2 => 0xffff,
            3 => {
                let k = self.below(16);
                (1u32 << (k + 1)).wrapping_sub(1) as u16
            }
            4 => 1u16 << self.below(16),
            _ => self.u16(),
        }
    }
    pub fn b_u32(&mut self) -> u32 {
        match self.below(6) {
            0 => 0,
            1 => self.byte() as u32,
            2 => 0xffff_ffff,
            3 => 1u32 << self.below(32),
            _ => self.u32(),
        }
    }
    pub fn blob(&mut self, len: usize) -> Vec<u8> {
        match self.below(4) {
            0 => vec![0u8; len],
            1 => (0..len).map(|i| i as u8).collect(),
            2 => {
                let pat = [self.byte(), self.byte(), self.byte(), self.byte()];
                (0..len).map(|i| pat[i % 4].wrapping_add((i / 4) as u8)).collect()
            }
            _ => (0..len).map(|_| self.byte()).collect(),
        }
    }
    pub fn utf8(&mut self, len: usize) -> String {
        // exactly `len` octets of valid UTF-8
        let mut s = String::new();
        while s.len() < len {
            let room = len - s.len();
            let k = self.below(room.min(4)) + 1;
            let c = match k {
                1 => (0x20 + self.below(0x5f)) as u32,
                2 => 0x80 + self.below(0x780) as u32,
                3 => {
                    let c = 0x800 + self.below(0xf800) as u32;
                    if (0xd800..0xe000).contains(&c) {
                        0x20ac
                    } else {
                        c
                    }
                }
                _ => 0x10000 + self.below(0xffff) as u32 * 16,
            };
            s.push(char::from_u32(c).unwrap_or('?'));
        }
        if s.len() != len {
            // fix up with ascii
            s.truncate(0);
            for _ in 0..len {
                s.push('a');
            }
        }
        s
    }
    pub fn var_len(&mut self, max: usize) -> usize {
        let v = match self.below(10) {
            0 => 1,
            1 => 249,
            2 => 250,
            3 => max,
            4 => max - 1,
            5 => 1 + self.below(max),
            _ => 1 + self.below(24),
        };
        v.clamp(1, max)
    }
}

pub const ASSIGNED: [u16; 39] = [
    0, 1, 2, 3, 4, 5, 6, 7, 8, 9, 10, 11, 12, 13, 14, 15, 16, 17, 18, 19, 21, 22, 23, 24, 25, 26, 27, 28, 29, 30, 31, 32, 33, 34, 35, 36, 37, 38, 39,
];

/// a valid value of the given kind (encodable domain)
pub fn gen_body(t: &mut Tape, attr: u16) -> Body {
    match fmt_of(attr).unwrap() {
        Fmt::MsgType => Body::U16(MSG_TYPES[t.below(14)]),
        Fmt::ResultCode => {
            let code = t.b_u16();
            let error = match t.below(3) {
                0 => None,
                1 => Some((t.below(9) as u16, None)),
                _ => {
                    let n = t.var_len(1017 - 4);
                    Some((t.below(9) as u16, Some(t.utf8(n))))
                }
            };
            Body::ResultCode { code, error }
        }
        Fmt::ProtoVer => Body::ProtoVer(t.byte(), t.byte()),
        Fmt::U16 => Body::U16(t.b_u16()),
        Fmt::U32 => Body::U32(t.b_u32()),
        Fmt::U64 => Body::U64(((t.b_u32() as u64) << 32) | t.b_u32() as u64),
        Fmt::Blob => {
            let n = t.var_len(1017);
            Body::Blob(t.blob(n))
        }
        Fmt::Text => {
            let n = t.var_len(1017);
            Body::Text(t.utf8(n))
        }
        Fmt::Q931 => {
            let cause = t.b_u16();
            let msg = t.byte();
            let advisory = if t.chance(50) {
                let n = t.var_len(1017 - 3);
                Some(t.utf8(n))
            } else {
                None
            };
            Body::Q931 { cause, msg, advisory }
        }
        Fmt::Fixed(n) => Body::Fixed(t.blob(n)),
        Fmt::ProxyType => Body::U16(t.below(6) as u16),
        Fmt::ProxyId => Body::ProxyId(t.byte()),
        Fmt::CallErrors => Body::CallErrors([t.b_u32(), t.b_u32(), t.b_u32(), t.b_u32(), t.b_u32(), t.b_u32()]),
        Fmt::Accm => {
            let a = t.u32().to_be_bytes();
            let b = t.u32().to_be_bytes();
            Body::Accm(a, b)
        }
        Fmt::Empty => Body::Empty,
    }
}

pub fn gen_avp(t: &mut Tape) -> SAvp {
    if t.chance(8) {
        let attr = t.b_u16();
        let n = t.var_len(1017);
        return SAvp { attr, hidden: true, body: Body::Opaque(t.blob(n)) };
    }
    let attr = ASSIGNED[t.below(39)];
    SAvp { attr, hidden: false, body: gen_body(t, attr) }
}

pub fn gen_control(t: &mut Tape) -> SMsg {
    let k = match t.below(8) {
        0 => 0,
        7 => 1 + t.below(70),
        _ => 1 + t.below(6),
    };
    let mut avps = Vec::new();
    let mut budget = 65535usize - 12;
    for i in 0..k {
        let a = if i == 0 { SAvp { attr: 0, hidden: false, body: gen_body(t, 0) } } else { gen_avp(t) };
        let mut w = Vec::new();
        encode_avp(&a, &mut w);
        if w.len() > budget {
            break;
        }
        budget -= w.len();
        avps.push(a);
    }
    SMsg::Control { length: 0, tunnel: t.b_u16(), session: t.b_u16(), ns: t.b_u16(), nr: t.b_u16(), avps }
}

pub fn gen_data(t: &mut Tape) -> SMsg {
    let prio = t.chance(50);
    let has_len = t.chance(50);
    let ns_nr = if t.chance(50) { Some((t.b_u16(), t.b_u16())) } else { None };
    let n = 1 + if t.chance(5) { t.below(3000) } else { t.below(40) };
    let data = t.blob(n);
    let offset = if t.chance(40) {
        Some(match t.below(3) {
            0 => 0,
            1 => (n - 1) as u16,
            _ => t.below(n) as u16,
        })
    } else {
        None
    };
    let mut m = SMsg::Data { prio, length: None, tunnel: t.b_u16(), session: t.b_u16(), ns_nr, offset, data };
    if has_len {
        let l = encode_message(&m).len() + 2;
        if let SMsg::Data { length, .. } = &mut m {
            *length = Some(l as u16);
        }
    }
    m
}

/// an AVP record on the wire, possibly malformed
pub fn gen_record(t: &mut Tape, w: &mut Vec<u8>) {
    let attr = match t.below(20) {
        0 => 20,
        1 => 40 + t.below(4) as u16,
        2 => t.u16(),
        _ => ASSIGNED[t.below(39)],
    };
    let min = fmt_of(attr).map(min_len).unwrap_or(0);
    let plen = match t.below(10) {
        0 => min.saturating_sub(1),
        1 => min,
        2 => min + 1,
        3 => 0,
        4 => min + t.below(30),
        5 => t.below(300),
        _ => usize::MAX, // valid value
    };
    let mut payload = if plen == usize::MAX {
        match fmt_of(attr) {
            Some(_) => {
                let mut p = Vec::new();
                encode_payload(&gen_body(t, attr), &mut p);
                p
            }
            None => {
                let n = t.below(20);
                t.blob(n)
            }
        }
    } else {
        let mut p = Vec::new();
        if let Some(_) = fmt_of(attr) {
            encode_payload(&gen_body(t, attr), &mut p);
        }
        while p.len() < plen {
            p.push(t.byte());
        }
        p.truncate(plen);
        p
    };
    if payload.len() > 1017 {
        payload.truncate(1017);
    }
    if t.chance(10) && !payload.is_empty() {
        // corrupt a byte (invalid UTF-8 / bad code)
        let i = t.below(payload.len());
        payload[i] = 0xff - (t.byte() & 0x3f);
    }
    let true_len = 6 + payload.len();
    let len = match t.below(24) {
        0 => t.below(6),
        1 => true_len + 1,
        2 => true_len.saturating_sub(1),
        3 => 0x3ff,
        4 => true_len + t.below(40),
        _ => true_len,
    }
    .min(0x3ff);
    let mut o1 = (((len >> 8) as u8) << 6) | (t.byte() & 0x01);
    if t.chance(10) {
        o1 |= 0x02;
    }
    if t.chance(15) {
        o1 |= t.byte() & 0x3c;
    }
    let vendor = if t.chance(8) { 1 + t.below(65535) as u16 } else { 0 };
    w.extend_from_slice(&[o1, len as u8]);
    w.extend_from_slice(&vendor.to_be_bytes());
    w.extend_from_slice(&attr.to_be_bytes());
    w.extend_from_slice(&payload);
}

pub fn mutate(t: &mut Tape, b: &mut Vec<u8>) {
    if b.is_empty() {
        return;
    }
    match t.below(9) {
        0 => {
            let i = t.below(b.len());
            b[i] ^= 1 << t.below(8);
        }
        1 => {
            // flag word bits
            if b.len() >= 2 {
                let bit = t.below(16);
                let w = (((b[0] as u16) << 8) | b[1] as u16) ^ (1 << bit);
                b[0] = (w >> 8) as u8;
                b[1] = w as u8;
            }
        }
        2 => {
            // length field
            if b.len() >= 4 {
                let cur = ((b[2] as usize) << 8) | b[3] as usize;
                let v = match t.below(10) {
                    0 => 0,
                    1 => 1,
                    2 => 11,
                    3 => 12,
                    4 => 13,
                    5 => cur + 1,
                    6 => cur.saturating_sub(1),
                    7 => cur + 6,
                    8 => cur.saturating_sub(6),
                    _ => 0xffff,
                };
                b[2] = (v >> 8) as u8;
                b[3] = v as u8;
            }
        }
        3 => {
            let n = t.below(b.len() + 1);
            b.truncate(n);
        }
        4 => {
            let n = t.below(40);
            let x = t.blob(n);
            b.extend_from_slice(&x);
        }
        5 => {
            // patch an aligned u16 with a boundary value
            if b.len() >= 2 {
                let i = t.below(b.len() - 1);
                let v = t.b_u16();
                b[i] = (v >> 8) as u8;
                b[i + 1] = v as u8;
            }
        }
        6 => {
            // first AVP length (offset 12,13)
            if b.len() >= 14 {
                let v = t.below(9);
                b[12] &= 0x3f;
                b[13] = v as u8;
            }
        }
        7 => {
            let i = t.below(b.len());
            b[i] = t.byte();
        }
        _ => {
            let mut extra = Vec::new();
            gen_record(t, &mut extra);
            b.extend_from_slice(&extra);
        }
    }
}

pub fn gen_wire(t: &mut Tape) -> Vec<u8> {
    let mut b = match t.below(10) {
        0..=3 => encode_message(&gen_control(t)),
        4 | 5 => encode_message(&gen_data(t)),
        6..=8 => {
            // control header + record list
            let k = t.below(6);
            let mut body = Vec::new();
            if t.chance(85) {
                encode_avp(&SAvp { attr: 0, hidden: false, body: gen_body(t, 0) }, &mut body);
            }
            for _ in 0..k {
                gen_record(t, &mut body);
            }
            let tail = t.below(8);
            if t.chance(20) {
                for _ in 0..tail {
                    body.push(t.byte());
                }
            }
            let mut w = vec![0x13, 0x20, 0, 0];
            for _ in 0..4 {
                w.extend_from_slice(&t.b_u16().to_be_bytes());
            }
            w.extend_from_slice(&body);
            let l = w.len().min(65535);
            w[2] = (l >> 8) as u8;
            w[3] = l as u8;
            w
        }
        _ => {
            let n = t.below(48);
            (0..n).map(|_| t.byte()).collect()
        }
    };
    let k = match t.below(4) {
        0 | 1 => 0,
        2 => 1,
        _ => 1 + t.below(3),
    };
    for _ in 0..k {
        mutate(t, &mut b);
    }
    b
}
